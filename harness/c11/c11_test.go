// Check C11: revocation is effective, permanent and issuer-only; status-list slots are unique.
// A complete in-process node issues credentials with StatusList2021 entries for several issuers
// (concurrently, and across a page roll-over reached by ageing the page counter), revokes some,
// serves its lists and verifies; the harness keeps a reference model (slots handed out, bit set per
// list) and compares every served list and every verification verdict with it. Verifier side: the
// harness owns a did:jwk issuer and an HTTP server for its status lists, so that refresh, lists that
// are not the list the credential names, and forged lists can be produced exactly.
package c11

import (
	"bytes"
	"compress/gzip"
	"encoding/base64"
	"encoding/json"
	"fmt"
	"io"
	"net"
	"net/http"
	"net/url"
	"sort"
	"strconv"
	"strings"
	"sync"
	"testing"
	"time"

	ssi "github.com/nuts-foundation/go-did"
	"github.com/nuts-foundation/go-did/vc"
	"github.com/nuts-foundation/nuts-node/storage"
	"github.com/nuts-foundation/nuts-node/vcr"
	"github.com/nuts-foundation/nuts-node/vcr/credential"
	"github.com/nuts-foundation/nuts-node/vcr/signature/proof"
	"verif/lib/ev"
	"verif/lib/iamflow"
	"verif/lib/node"
)

const maxIndex = 16*1024*8 - 1

type slot struct {
	list  string
	index int
}

type issuedCred struct {
	doc                 json.RawMessage
	id                  string
	slot                slot
	issuer              iamflow.Subject
	revoked             bool
	issuedAt, revokedAt time.Time // harness clock around the issue / revoke calls (only used to choose validation times)
}

func entryOf(doc json.RawMessage) (slot, error) {
	var m map[string]any
	var s string
	if json.Unmarshal(doc, &s) == nil {
		parts := strings.Split(s, ".")
		if len(parts) != 3 {
			return slot{}, fmt.Errorf("not a JWT")
		}
		b, _ := base64.RawURLEncoding.DecodeString(parts[1])
		var claims map[string]any
		_ = json.Unmarshal(b, &claims)
		m, _ = claims["vc"].(map[string]any)
	} else if err := json.Unmarshal(doc, &m); err != nil {
		return slot{}, err
	}
	cs, ok := m["credentialStatus"].(map[string]any)
	if !ok {
		if arr, isArr := m["credentialStatus"].([]any); isArr && len(arr) == 1 {
			cs, ok = arr[0].(map[string]any)
		}
	}
	if !ok {
		return slot{}, fmt.Errorf("no credentialStatus in %.200s", doc)
	}
	idx, err := strconv.Atoi(fmt.Sprint(cs["statusListIndex"]))
	if err != nil {
		return slot{}, err
	}
	return slot{fmt.Sprint(cs["statusListCredential"]), idx}, nil
}

func decodeList(encoded string) ([]byte, error) {
	raw, err := base64.RawURLEncoding.DecodeString(strings.TrimRight(encoded, "="))
	if err != nil {
		return nil, err
	}
	zr, err := gzip.NewReader(bytes.NewReader(raw))
	if err != nil {
		return nil, err
	}
	return io.ReadAll(zr)
}

func encodeList(bits []byte) string {
	var buf bytes.Buffer
	zw := gzip.NewWriter(&buf)
	_, _ = zw.Write(bits)
	_ = zw.Close()
	return base64.RawURLEncoding.EncodeToString(buf.Bytes())
}

func bitSet(bits []byte, i int) bool { return bits[i/8]>>(7-uint(i%8))&1 == 1 }

func setBits(bits []byte) []int {
	var out []int
	for i := 0; i < len(bits)*8; i++ {
		if bits[i/8] != 0 && bitSet(bits, i) {
			out = append(out, i)
		}
	}
	return out
}

type servedList struct {
	raw     json.RawMessage
	bits    []byte
	expires time.Time
	id      string
	purpose string
}

func fetchList(u string) (*servedList, error) {
	resp, err := node.Do("GET", u, nil, nil)
	if err != nil {
		return nil, err
	}
	if resp.Status != 200 {
		return nil, fmt.Errorf("GET %s: %s", u, resp)
	}
	var m map[string]any
	if err := json.Unmarshal(resp.Body, &m); err != nil {
		return nil, fmt.Errorf("list is not a JSON object: %.200s", resp.Body)
	}
	cs, _ := m["credentialSubject"].(map[string]any)
	if cs == nil {
		if arr, ok := m["credentialSubject"].([]any); ok && len(arr) == 1 {
			cs, _ = arr[0].(map[string]any)
		}
	}
	if cs == nil {
		return nil, fmt.Errorf("list without credentialSubject")
	}
	bits, err := decodeList(fmt.Sprint(cs["encodedList"]))
	if err != nil {
		return nil, fmt.Errorf("encodedList: %w", err)
	}
	exp, _ := time.Parse(time.RFC3339Nano, fmt.Sprint(m["expirationDate"]))
	return &servedList{raw: bytes.TrimSpace(resp.Body), bits: bits, expires: exp, id: fmt.Sprint(cs["id"]), purpose: fmt.Sprint(cs["statusPurpose"])}, nil
}

func verifyVC(n *node.Node, doc json.RawMessage) (bool, string) {
	resp, err := node.Do("POST", n.Internal+"/internal/vcr/v2/verifier/vc", map[string]any{"verifiableCredential": doc, "verificationOptions": map[string]any{"allowUntrustedIssuer": true}}, nil)
	if err != nil {
		return false, "transport: " + err.Error()
	}
	var out struct {
		Validity bool   `json:"validity"`
		Message  string `json:"message"`
	}
	if resp.Status != 200 || resp.JSON(&out) != nil {
		return false, resp.String()
	}
	return out.Validity, out.Message
}

func TestCheck(t *testing.T) {
	r := ev.Start(t, "C11", "exploration")
	defer r.Finish()
	r.SetRule("cases: (a) every status-list slot handed out by the node (sequential, 8-32 concurrent issuers' goroutines, across a page roll-over) checked pairwise-distinct and in range; " +
		"(b) every served list after every revoke/issue step compared with the reference bit set (exactly the revoked slots), signature verified by the node's verifier, expiry margin; " +
		"(c) every verification verdict of revoked and unrevoked credentials, repeated after unrelated operations, re-signing of the list and a restart of the node; " +
		"(d) verifier-side cases with harness-served lists: refresh, foreign list id, wrong purpose, bad signature, garbage; credentials with 2-4 credentialStatus entries, the revoked one at every position " +
		"(list cached / downloaded in that verification), the others clear, missing, 5xx, not JSON, not a credential, bad signature, other subject id, expired, host down, other purpose, other type, index outside the list; " +
		"(e) fault enumeration under the node's status-list store: for revoke, issue, issue across a roll-over, serve-list (stored / re-issued) a reference run records the SQL statements on status_list*, " +
		"then each statement fails in turn (gorm callback on the node's DB) and SQLite refuses each kind of write (trigger RAISE(ABORT)); after the fault is cleared: what the node reported (revoked, or after a reported failure the retry) " +
		"must show in the served list and in verdicts, slots stay unique, lists served under the fault are valid. Distinct by (scenario, issuer/page, step).")
	r.Require(200, 40)
	r.Assume("SQLite with a single connection (the only SQL engine in the sandbox): database transactions are serialised, so row-lock behaviour of other engines is not exercised")
	r.Assume("signed revocation documents are registered through the verifier's RegisterRevocation (the entry the network ambassador calls) with hosted did:web parties; the did:nuts DAG transport of revocations is not exercised")

	host, restore := iamflow.InstallDIDHost() // hosted did:web identities for the signed-revocation cases
	defer restore()
	w := iamflow.NewWorld(t, iamflow.Options{})
	n := w.N
	issuers := []iamflow.Subject{w.Verifier, w.Client}
	for i := 0; i < r.Pick(1, 2); i++ {
		d, err := n.CreateSubject(fmt.Sprintf("issuer%d", i))
		if err != nil {
			r.Fatalf("subject: %v", err)
		}
		issuers = append(issuers, iamflow.Subject{Name: fmt.Sprintf("issuer%d", i), DID: d[0]})
	}
	holder := iamflow.NewHolder()
	rnd := r.Rand("c11")

	var mu sync.Mutex
	slots := map[slot]string{} // slot -> credential id
	var creds []*issuedCred
	model := map[string]map[int]bool{} // list -> revoked indices

	record := func(iss iamflow.Subject, doc json.RawMessage, scenario string) *issuedCred {
		s, err := entryOf(doc)
		if err != nil {
			r.Fatalf("credential without status entry: %v", err)
		}
		id := iamflow.CredentialID(doc)
		mu.Lock()
		defer mu.Unlock()
		r.Case(fmt.Sprintf("slot/%s/%s#%d", scenario, s.list[strings.LastIndex(s.list, ":")+1:], s.index), true)
		r.Count("slots_handed_out", 1)
		if s.index < 0 || s.index > maxIndex {
			r.Violation("C11/slot/out-of-range", fmt.Sprintf("status list index %d outside [0,%d] (%s)", s.index, maxIndex, scenario), map[string]any{"credential": id, "list": s.list})
		}
		if other, dup := slots[s]; dup {
			r.Violation("C11/slot/shared", fmt.Sprintf("status-list position %s#%d handed to two credentials (%s)", s.list, s.index, scenario), map[string]any{"first": other, "second": id})
		}
		if !strings.Contains(s.list, url.PathEscape(iss.DID)) && !strings.Contains(s.list, iss.DID) {
			r.Violation("C11/slot/foreign-list", "credential of issuer "+iss.DID+" points at list "+s.list, nil)
		}
		slots[s] = id
		c := &issuedCred{doc: doc, id: id, slot: s, issuer: iss, issuedAt: time.Now()}
		creds = append(creds, c)
		if model[s.list] == nil {
			model[s.list] = map[int]bool{}
		}
		return c
	}
	tryIssue := func(iss iamflow.Subject, format, scenario string) (*issuedCred, error) {
		doc, err := w.IssueTo(iss, holder.DID, iamflow.IssueOpts{Format: format, StatusList: true})
		if err != nil {
			return nil, err
		}
		return record(iss, doc, scenario), nil
	}
	issueOne := func(iss iamflow.Subject, format, scenario string) *issuedCred {
		c, err := tryIssue(iss, format, scenario)
		if err != nil {
			r.Fatalf("issue (%s): %v", scenario, err)
		}
		return c
	}

	// (a1) sequential issuance over all issuers and both formats
	for i := 0; i < r.Pick(12, 60); i++ {
		issueOne(issuers[i%len(issuers)], []string{"ldp_vc", "jwt_vc"}[i%2], "sequential")
	}
	// (a2) concurrent issuance
	conc := func(scenario string, goroutines, each int, pick func(g int) iamflow.Subject) {
		var wg sync.WaitGroup
		for g := 0; g < goroutines; g++ {
			wg.Add(1)
			go func(g int) {
				defer wg.Done()
				for k := 0; k < each; k++ {
					issueOne(pick(g), "jwt_vc", scenario)
				}
			}(g)
		}
		wg.Wait()
	}
	conc("concurrent-one-issuer", r.Pick(8, 32), r.Pick(3, 8), func(int) iamflow.Subject { return issuers[0] })
	conc("concurrent-many-issuers", r.Pick(8, 32), r.Pick(3, 8), func(g int) iamflow.Subject { return issuers[g%len(issuers)] })

	// (a3) page roll-over: age the page counter of an issuer to 3 before the end (the state after 131 069 issuances)
	eng := node.Engine[storage.Engine](n)
	if eng == nil {
		r.Fatalf("storage engine not found")
	}
	db := eng.GetSQLDatabase()
	flt := &sqlFault{}
	if err := flt.install(db); err != nil { // passive until a fault window is opened in faultMatrix
		r.Fatalf("installing the SQL fault seam: %v", err)
	}
	for round := 0; round < r.Pick(2, 5); round++ {
		iss := issuers[(round/2)%len(issuers)] // two roll-overs per issuer: the second one starts from a three-page history
		res := db.Exec("UPDATE status_list SET last_issued_index = ? WHERE issuer = ? AND page = (SELECT MAX(page) FROM status_list WHERE issuer = ?)", maxIndex-3, iss.DID, iss.DID)
		if res.Error != nil || res.RowsAffected != 1 {
			r.Fatalf("ageing page counter: %v rows=%d", res.Error, res.RowsAffected)
		}
		before := len(creds)
		conc("roll-over", 6, 2, func(int) iamflow.Subject { return iss })
		pages := map[string]int{}
		for _, c := range creds[before:] {
			pages[c.slot.list]++
		}
		if len(pages) < 2 {
			r.Fatalf("roll-over did not reach a second page: %v", pages)
		}
		r.Count("roll_overs", 1)
		r.Sample(map[string]any{"scenario": "roll-over", "issuer": iss.Name, "slots_per_page": pages})
	}

	// (b)+(c) revoke / serve / verify steps against the model
	lastBits := map[string][]byte{}
	evalList := func(step, l string, sl *servedList) {
		if sl.id != l {
			r.Violation("C11/list/wrong-id", fmt.Sprintf("list served at %s says it is %s", l, sl.id), nil)
		}
		if sl.purpose != "revocation" {
			r.Violation("C11/list/wrong-purpose", "served list has purpose "+sl.purpose, nil)
		}
		if ok, msg := verifyVC(n, sl.raw); !ok {
			r.Violation("C11/list/not-valid", "served status list does not verify: "+msg, map[string]any{"list": l, "step": step})
		}
		if sl.expires.Before(time.Now().Add(time.Hour)) {
			r.Violation("C11/list/about-to-expire", fmt.Sprintf("served list expires at %s", sl.expires), map[string]any{"list": l, "step": step})
		}
		got := setBits(sl.bits)
		var want []int
		for i := range model[l] {
			want = append(want, i)
		}
		sort.Ints(want)
		if fmt.Sprint(got) != fmt.Sprint(want) {
			key := "C11/list/bits-differ"
			for _, i := range want {
				if !bitSet(sl.bits, i) {
					key = "C11/list/revoked-bit-missing"
				}
			}
			r.Violation(key, fmt.Sprintf("list %s has bits %v set, revoked slots are %v (%s)", l, got, want, step), nil)
		}
		if prev, ok := lastBits[l]; ok {
			for _, i := range setBits(prev) {
				if !bitSet(sl.bits, i) {
					r.Violation("C11/list/bit-cleared", fmt.Sprintf("bit %d of %s was set in an earlier fetch and is clear now (%s)", i, l, step), nil)
				}
			}
		}
		lastBits[l] = sl.bits
	}
	checkListSet := func(step string, lists []string) {
		for _, l := range lists {
			sl, err := fetchList(l)
			r.Case("list/"+step+"/"+l[strings.LastIndex(l, ":")+1:], true)
			r.Count("lists_fetched", 1)
			if err != nil {
				r.Violation("C11/list/unavailable", "status list the node itself named cannot be served: "+err.Error(), map[string]any{"list": l, "step": step})
				continue
			}
			evalList(step, l, sl)
		}
	}
	allLists := func() []string {
		lists := make([]string, 0, len(model))
		for l := range model {
			lists = append(lists, l)
		}
		sort.Strings(lists)
		return lists
	}
	checkLists := func(step string) { checkListSet(step, allLists()) }
	checkVerdicts := func(step string, sample int) {
		idx := rnd.Perm(len(creds))
		if sample < len(idx) {
			idx = idx[:sample]
		}
		// always include every revoked credential
		seen := map[int]bool{}
		for _, i := range idx {
			seen[i] = true
		}
		for i, c := range creds {
			if c.revoked && !seen[i] {
				idx = append(idx, i)
			}
		}
		for _, i := range idx {
			c := creds[i]
			ok, msg := verifyVC(n, c.doc)
			r.Case(fmt.Sprintf("verdict/%s/%v", step, c.revoked), true)
			r.Count("verdicts", 1)
			if c.revoked && ok {
				r.Violation("C11/verdict/revoked-verifies", fmt.Sprintf("revoked credential verifies (%s)", step), map[string]any{"credential": c.id, "slot": c.slot})
			}
			if !c.revoked && !ok {
				r.Violation("C11/verdict/unrevoked-fails", fmt.Sprintf("credential that was never revoked does not verify (%s): %s", step, msg), map[string]any{"credential": c.id, "slot": c.slot})
			}
			if c.revoked && !ok && !strings.Contains(msg, "revoked") {
				r.Count("revoked_but_other_reason", 1)
			}
		}
	}
	revoke := func(c *issuedCred) {
		resp, err := node.Do("DELETE", n.Internal+"/internal/vcr/v2/issuer/vc/"+url.QueryEscape(c.id), nil, nil)
		if err != nil || resp.Status/100 != 2 {
			r.Violation("C11/revoke/refused", fmt.Sprintf("issuer cannot revoke its own credential: %v %s", err, resp), map[string]any{"credential": c.id})
			return
		}
		mu.Lock() // revocations run concurrently in the steps below
		c.revoked, c.revokedAt = true, time.Now()
		model[c.slot.list][c.slot.index] = true
		mu.Unlock()
		r.Count("revocations", 1)
	}
	checkLists("initial")
	checkVerdicts("initial", 10)
	steps := r.Pick(10, 60)
	for s := 0; s < steps; s++ {
		// revoke 1-3 random unrevoked credentials, some concurrently with issuance on the same list
		var victims []*issuedCred
		for _, i := range rnd.Perm(len(creds)) {
			if !creds[i].revoked && len(victims) < 1+s%3 {
				victims = append(victims, creds[i])
			}
		}
		var wg sync.WaitGroup
		for _, v := range victims {
			wg.Add(1)
			go func(v *issuedCred) { defer wg.Done(); revoke(v) }(v)
		}
		if s%2 == 0 {
			wg.Add(1)
			go func() { defer wg.Done(); issueOne(victims[0].issuer, "ldp_vc", "issue-while-revoking") }()
		}
		wg.Wait()
		step := fmt.Sprintf("step%d", s)
		checkLists(step)
		checkVerdicts(step, 6)
		if s == steps/2 {
			// second revocation of the same credential must not change anything
			v := victims[0]
			resp, _ := node.Do("DELETE", n.Internal+"/internal/vcr/v2/issuer/vc/"+url.QueryEscape(v.id), nil, nil)
			r.Count("double_revocations", 1)
			_ = resp
			checkLists(step + "-after-double-revoke")
		}
	}
	// list re-issue racing revocations: the stored lists are made to look close to expiry (so that serving them re-signs them)
	// while credentials on the same lists are being revoked and the lists fetched from several goroutines
	for round := 0; round < r.Pick(12, 60); round++ {
		if res := db.Exec("UPDATE status_list_credential SET expires = ?", time.Now().Add(30*time.Minute).Unix()); res.Error != nil {
			r.Fatalf("ageing lists: %v", res.Error)
		}
		var victims []*issuedCred
		for _, i := range rnd.Perm(len(creds)) {
			if !creds[i].revoked && len(victims) < 2 {
				victims = append(victims, creds[i])
			}
		}
		if len(victims) == 0 {
			break
		}
		var wg sync.WaitGroup
		for _, v := range victims {
			for k := 0; k < 3; k++ {
				wg.Add(1)
				go func(l string) { defer wg.Done(); _, _ = fetchList(l) }(v.slot.list)
			}
			wg.Add(1)
			go func(v *issuedCred) { defer wg.Done(); revoke(v) }(v)
		}
		wg.Wait()
		r.Count("reissue_vs_revoke_rounds", 1)
		step := fmt.Sprintf("reissue-race%d", round)
		checkLists(step)
		for _, v := range victims {
			ok, _ := verifyVC(n, v.doc)
			r.Case("verdict/"+step, true)
			r.Count("verdicts", 1)
			if ok {
				r.Violation("C11/verdict/revoked-verifies", "credential revoked while its list was being re-issued still verifies ("+step+")", map[string]any{"credential": v.id, "slot": v.slot})
			}
		}
	}

	// re-signing: make the stored list credentials look close to expiry so that the next request re-issues them
	if res := db.Exec("UPDATE status_list_credential SET expires = ?", time.Now().Add(30*time.Minute).Unix()); res.Error != nil {
		r.Fatalf("ageing lists: %v", res.Error)
	}
	checkLists("after-resign")
	checkVerdicts("after-resign", 20)

	// aged lists: the stored list credentials (document AND expiry column) are made to look like what a quiet page holds
	// after 23 h 40 min, 25 h and 29 h without a revocation. What the node then serves must be a fresh, valid list
	// (the rewritten stored document no longer carries a valid proof, so serving it shows up twice: not valid, about to expire).
	for _, remaining := range []time.Duration{20 * time.Minute, -time.Hour, -5 * time.Hour} {
		type row struct {
			SubjectID string
			Raw       string
		}
		var rows []row
		if err := db.Raw("SELECT subject_id, raw FROM status_list_credential").Scan(&rows).Error; err != nil {
			r.Fatalf("reading stored lists: %v", err)
		}
		aged := 0
		for _, rw := range rows {
			if _, mine := model[rw.SubjectID]; !mine {
				continue
			}
			var doc map[string]any
			if err := json.Unmarshal([]byte(rw.Raw), &doc); err != nil {
				r.Fatalf("stored list is not JSON: %v", err)
			}
			exp := time.Now().Add(remaining).UTC().Truncate(time.Second)
			doc["expirationDate"] = exp.Format(time.RFC3339)
			doc["issuanceDate"] = exp.Add(-24 * time.Hour).Format(time.RFC3339)
			raw, _ := json.Marshal(doc)
			if res := db.Exec("UPDATE status_list_credential SET expires = ?, raw = ? WHERE subject_id = ?", exp.Unix(), string(raw), rw.SubjectID); res.Error != nil || res.RowsAffected != 1 {
				r.Fatalf("ageing stored list: %v rows=%d", res.Error, res.RowsAffected)
			}
			aged++
		}
		if aged == 0 {
			r.Fatalf("no stored list found to age")
		}
		r.Count("lists_aged", aged)
		step := "aged-" + remaining.String()
		checkLists(step)
		checkVerdicts(step, 6)
	}

	// (e) faults under the status-list store: every SQL statement of revoke / issue / roll-over / serve-list fails in turn
	faultMatrix(&faultEnv{r: r, n: n, db: db, f: flt, issuers: issuers, tryIssue: tryIssue, revoke: revoke,
		markRevoked: func(c *issuedCred) {
			c.revoked, c.revokedAt = true, time.Now()
			model[c.slot.list][c.slot.index] = true
			r.Count("revocations", 1)
		},
		evalList: evalList, checkListSet: checkListSet, lists: allLists,
		verdictOf: func(step string, c *issuedCred) {
			ok, msg := verifyVC(n, c.doc)
			r.Case(fmt.Sprintf("verdict/%s/%v", step, c.revoked), true)
			r.Count("verdicts", 1)
			if c.revoked && ok {
				r.Violation("C11/verdict/revoked-verifies", fmt.Sprintf("revoked credential verifies (%s)", step), map[string]any{"credential": c.id, "slot": c.slot})
			}
			if !c.revoked && !ok {
				r.Violation("C11/verdict/unrevoked-fails", fmt.Sprintf("credential that was never revoked does not verify (%s): %s", step, msg), map[string]any{"credential": c.id, "slot": c.slot})
			}
		},
		credsOn: func(list string) (rev, unrev *issuedCred) {
			for _, c := range creds {
				if c.slot.list != list {
					continue
				}
				if c.revoked && rev == nil {
					rev = c
				}
				if !c.revoked {
					unrev = c // the latest one
				}
			}
			return
		}})
	checkLists("after-faults")
	checkVerdicts("after-faults", 10)

	// (f) validation time: revoked credentials asked for at times before / at / after their revocation, over every route that takes a time
	tp := &timeProbe{r: r, n: n, v: node.Engine[vcr.VCR](n)}
	if tp.v == nil {
		r.Fatalf("VCR engine not found")
	}
	{
		probed := map[bool]int{}
		for _, i := range rnd.Perm(len(creds)) {
			c := creds[i]
			if probed[c.revoked] >= map[bool]int{true: r.Pick(4, 24), false: r.Pick(2, 6)}[c.revoked] {
				continue
			}
			probed[c.revoked]++
			rev := c.revokedAt
			if !c.revoked {
				rev = time.Now()
			}
			tp.probe("status-list", "after-faults", c.doc, holder, c.revoked, validationTimes(c.issuedAt, rev), "")
		}
		if probed[true] == 0 {
			r.Fatalf("no revoked credential to probe at validation times")
		}
	}

	// signed revocation documents (the did:nuts network form), with hosted did:web parties so that every forgery can be signed for real
	signedRevocations(r, n, host, tp)

	// restart of the node on the same data directory: revocations are permanent
	dataDir := n.DataDir
	pubPort := strings.TrimPrefix(n.Public, "http://")
	inPort := strings.TrimPrefix(n.Internal, "http://")
	n.Stop()
	n2 := node.Start(t, node.Options{DIDMethods: []string{"web"}, DataDir: dataDir, Env: map[string]string{
		"NUTS_URL": w.Proxy.URL, "NUTS_HTTP_PUBLIC_ADDRESS": pubPort, "NUTS_HTTP_INTERNAL_ADDRESS": inPort, "NUTS_AUTH_AUTHORIZATIONENDPOINT_ENABLED": "true"}})
	n = n2
	w.N = n2
	checkLists("after-restart")
	checkVerdicts("after-restart", 1000)

	// (d) verifier side with harness-served lists
	externalLists(t, r, n2)

	r.Extra("issuers", len(issuers))
	r.Extra("lists", len(model))
	r.Extra("credentials", len(creds))
}

// ---- verifier side: a did:jwk issuer and its list server owned by the harness ---------------------------

type listServer struct {
	mu    sync.Mutex
	lists map[string]func() string // path -> body
	hits  map[string]int
	codes map[string]int // path -> HTTP status other than 200
	url   string
}

func (s *listServer) ServeHTTP(w http.ResponseWriter, r *http.Request) {
	s.mu.Lock()
	f := s.lists[r.URL.Path]
	s.hits[r.URL.Path]++
	code := s.codes[r.URL.Path]
	s.mu.Unlock()
	if f == nil {
		http.NotFound(w, r)
		return
	}
	w.Header().Set("Content-Type", "application/json")
	if code != 0 {
		w.WriteHeader(code)
	}
	_, _ = w.Write([]byte(f()))
}

func externalLists(t *testing.T, r *ev.Run, n *node.Node) {
	ln, err := net.Listen("tcp", "127.0.0.1:0")
	if err != nil {
		r.Fatalf("listen: %v", err)
	}
	srv := &listServer{lists: map[string]func() string{}, hits: map[string]int{}, codes: map[string]int{}, url: "http://" + ln.Addr().String()}
	hs := &http.Server{Handler: srv}
	go hs.Serve(ln)
	t.Cleanup(func() { hs.Close() })
	eng := node.Engine[storage.Engine](n)
	db := eng.GetSQLDatabase()

	issuer := iamflow.NewHolder()
	other := iamflow.NewHolder()
	subject := iamflow.NewHolder()
	now := time.Now()
	mkList := func(signer *iamflow.Holder, id, purpose string, bits []byte, exp time.Time) string {
		claims := map[string]any{"iss": signer.DID, "sub": id, "jti": signer.DID + "#list-" + strconv.FormatInt(time.Now().UnixNano(), 36), "nbf": now.Add(-time.Minute).Unix(), "exp": exp.Unix(),
			"vc": map[string]any{"@context": []string{"https://www.w3.org/2018/credentials/v1", "https://w3id.org/vc/status-list/2021/v1"},
				"type":              []string{"VerifiableCredential", "StatusList2021Credential"},
				"credentialSubject": map[string]any{"id": id, "type": "StatusList2021", "statusPurpose": purpose, "encodedList": encodeList(bits)}}}
		b, _ := json.Marshal(signer.SignJWT(map[string]any{"alg": "ES256", "typ": "JWT", "kid": signer.KID}, claims))
		return string(b)
	}
	mkCred := func(listURL string, index int, n int) json.RawMessage {
		claims := map[string]any{"iss": issuer.DID, "sub": subject.DID, "jti": fmt.Sprintf("%s#cred-%d", issuer.DID, n), "nbf": now.Add(-time.Minute).Unix(),
			"vc": map[string]any{"@context": []string{"https://www.w3.org/2018/credentials/v1", "https://nuts.nl/credentials/v1", "https://w3id.org/vc/status-list/2021/v1"},
				"type":              []string{"VerifiableCredential", "NutsOrganizationCredential"},
				"credentialSubject": map[string]any{"id": subject.DID, "organization": map[string]any{"name": "Ext", "city": "Ext"}},
				"credentialStatus": map[string]any{"id": fmt.Sprintf("%s#%d", listURL, index), "type": "StatusList2021Entry", "statusPurpose": "revocation",
					"statusListIndex": strconv.Itoa(index), "statusListCredential": listURL}}}
		b, _ := json.Marshal(issuer.SignJWT(map[string]any{"alg": "ES256", "typ": "JWT", "kid": issuer.KID}, claims))
		return b
	}
	bitsWith := func(idx ...int) []byte {
		b := make([]byte, 16*1024)
		for _, i := range idx {
			b[i/8] |= 1 << (7 - uint(i%8))
		}
		return b
	}
	age := func(listURL string) {
		// make the cached copy look older than the refresh interval (virtual time)
		db.Exec("UPDATE status_list_credential SET created_at = ? WHERE subject_id = ?", time.Now().Add(-2*time.Hour).Unix(), listURL)
	}
	serve := func(path string, f func() string) string {
		srv.mu.Lock()
		srv.lists[path] = f
		srv.mu.Unlock()
		return srv.url + path
	}
	verdict := func(name string, doc json.RawMessage, wantValid bool, hard bool) {
		ok, msg := verifyVC(n, doc)
		r.Case("external/"+name, true)
		r.Count("external_list_cases", 1)
		if ok != wantValid {
			if !hard {
				r.Unspecified("external/" + name)
				return
			}
			r.Violation("C11/external/"+name, fmt.Sprintf("verdict valid=%v, reference valid=%v: %s", ok, wantValid, msg), map[string]any{"credential": string(doc)})
		}
	}
	far := now.Add(24 * time.Hour)

	// calibration: a credential without status entry by the same issuer verifies (otherwise nothing below means anything)
	{
		claims := map[string]any{"iss": issuer.DID, "sub": subject.DID, "jti": issuer.DID + "#plain", "nbf": now.Add(-time.Minute).Unix(),
			"vc": map[string]any{"@context": []string{"https://www.w3.org/2018/credentials/v1", "https://nuts.nl/credentials/v1"},
				"type":              []string{"VerifiableCredential", "NutsOrganizationCredential"},
				"credentialSubject": map[string]any{"id": subject.DID, "organization": map[string]any{"name": "Ext", "city": "Ext"}}}}
		b, _ := json.Marshal(issuer.SignJWT(map[string]any{"alg": "ES256", "typ": "JWT", "kid": issuer.KID}, claims))
		if ok, msg := verifyVC(n, b); !ok {
			r.Fatalf("calibration: harness-issued did:jwk credential does not verify: %s", msg)
		}
	}

	// 1. refresh: clear -> valid; issuer sets the bit; cached -> (still valid, allowed); after the cache aged -> revoked, and stays revoked
	var cur []byte = bitsWith()
	u1 := serve("/lists/1", func() string { return mkList(issuer, srv.url+"/lists/1", "revocation", cur, far) })
	c1 := mkCred(u1, 7, 1)
	c1b := mkCred(u1, 8, 2)
	verdict("clear-bit", c1, true, true)
	cur = bitsWith(7)
	ok, _ := verifyVC(n, c1)
	r.Count("external_list_cases", 1)
	if ok {
		r.Count("stale_cache_still_valid", 1) // not refreshed yet: allowed by the statement
	}
	age(u1)
	verdict("revoked-after-refresh", c1, false, true)
	verdict("revoked-after-refresh-repeat", c1, false, true)
	verdict("neighbour-slot-unaffected", c1b, true, true)

	// 2. the list served at the named URL is another list (its credentialSubject.id differs): its bit must not be honoured
	u2 := serve("/lists/2", func() string { return mkList(issuer, srv.url+"/lists/other", "revocation", bitsWith(3), far) })
	verdict("foreign-list-id-bit-set", mkCred(u2, 3, 3), true, true)
	// 3. list with another purpose
	u3 := serve("/lists/3", func() string { return mkList(issuer, srv.url+"/lists/3", "suspension", bitsWith(3), far) })
	verdict("wrong-purpose-bit-set", mkCred(u3, 3, 4), true, true)
	// 4. list whose signature is broken / garbage / missing
	u4 := serve("/lists/4", func() string {
		l := mkList(issuer, srv.url+"/lists/4", "revocation", bitsWith(3), far)
		return l[:len(l)-8] + `AAAAAAA"`
	})
	verdict("bad-list-signature-bit-set", mkCred(u4, 3, 5), true, true)
	u5 := serve("/lists/5", func() string { return `{"not":"a credential"}` })
	verdict("garbage-list", mkCred(u5, 3, 6), true, false)
	verdict("missing-list", mkCred(srv.url+"/lists/none", 3, 7), true, false)
	// 5. list signed by a third party (the statement binds the list by URL, not its signer): observed only
	u6 := serve("/lists/6", func() string { return mkList(other, srv.url+"/lists/6", "revocation", bitsWith(3), far) })
	verdict("list-signed-by-third-party-bit-set", mkCred(u6, 3, 8), false, false)
	// 6. index outside the list
	u7 := serve("/lists/7", func() string { return mkList(issuer, srv.url+"/lists/7", "revocation", bitsWith(), far) })
	verdict("index-out-of-range", mkCred(u7, 16*1024*8+5, 9), true, false)

	// 7. several credentialStatus entries: the revoked one at every position, its neighbours unavailable / malformed / of another kind
	multiEntry(r, n, srv, issuer, subject, mkList, bitsWith, serve)

	hits := 0
	srv.mu.Lock()
	for _, h := range srv.hits {
		hits += h
	}
	srv.mu.Unlock()
	r.Extra("external_list_fetches_observed", hits)
	if hits == 0 {
		r.Fatalf("the node never fetched a harness-served status list: verifier-side cases observed nothing")
	}
	r.Sample(map[string]any{"scenario": "external-lists", "fetches": hits, "cases": r.Get("external_list_cases")})
}

// ---- signed revocation documents ---------------------------------------------------------------------------

func signedRevocations(r *ev.Run, n *node.Node, host *iamflow.DIDHost, tp *timeProbe) {
	vcrEngine := node.Engine[vcr.VCR](n)
	if vcrEngine == nil {
		r.Fatalf("VCR engine not found")
	}
	alice := host.Identity("did:web:revoker.example:iam:alice")
	root := host.Identity("did:web:revoker.example") // its DID is a textual prefix of alice's
	alic := host.Identity("did:web:revoker.example:iam:alic")
	mallory := host.Identity("did:web:elsewhere.example:mallory")
	subject := iamflow.NewHolder()
	now := time.Now()
	mkCred := func(k int) (json.RawMessage, string) {
		id := fmt.Sprintf("%s#%08d-0000-4000-8000-000000000000", alice.DID, k)
		claims := map[string]any{"iss": alice.DID, "sub": subject.DID, "jti": id, "nbf": now.Add(-time.Minute).Unix(),
			"vc": map[string]any{"@context": []string{"https://www.w3.org/2018/credentials/v1", "https://nuts.nl/credentials/v1"},
				"type":              []string{"VerifiableCredential", "NutsOrganizationCredential"},
				"credentialSubject": map[string]any{"id": subject.DID, "organization": map[string]any{"name": "Rev", "city": "Rev"}}}}
		b, _ := json.Marshal(alice.SignJWT(map[string]any{"alg": "ES256", "typ": "JWT", "kid": alice.KID}, claims))
		return b, id
	}
	revocation := func(signer *iamflow.Holder, issuer, subjectID string) credential.Revocation {
		doc := map[string]any{"@context": []string{"https://nuts.nl/credentials/v1"}, "type": []string{"CredentialRevocation"},
			"issuer": issuer, "subject": subjectID, "date": time.Now().UTC().Format(time.RFC3339)}
		signed, err := signer.SignLDDoc(n, doc, proof.ProofOptions{Created: time.Now()})
		if err != nil {
			r.Fatalf("sign revocation: %v", err)
		}
		var rev credential.Revocation
		if err := json.Unmarshal(signed, &rev); err != nil {
			r.Fatalf("revocation does not parse: %v", err)
		}
		return rev
	}
	register := func(rev credential.Revocation) (err error) {
		defer func() {
			if p := recover(); p != nil {
				err = fmt.Errorf("panic: %v", p)
			}
		}()
		return vcrEngine.Verifier().RegisterRevocation(rev)
	}
	c1, id1 := mkCred(1)
	c2, id2 := mkCred(2)
	c3, _ := mkCred(3)
	if ok, msg := verifyVC(n, c1); !ok {
		r.Fatalf("calibration: credential of a hosted did:web issuer does not verify: %s", msg)
	}
	forged := func(name string, rev credential.Revocation, target json.RawMessage) {
		err := register(rev)
		r.Case("signed-revocation/forged/"+name, true)
		r.Count("forged_revocations", 1)
		if err == nil {
			r.Violation("C11/revocation/forged-accepted/"+name, "a revocation that is not the credential issuer's was accepted ("+name+")", map[string]any{"revocation": rev})
		}
		if ok, msg := verifyVC(n, target); !ok {
			r.Violation("C11/revocation/forged-effective/"+name, "credential no longer verifies after a forged revocation ("+name+"): "+msg, map[string]any{"revocation": rev})
		}
	}
	forged("by-unrelated-party", revocation(mallory, mallory.DID, id1), c1)
	forged("by-party-whose-did-is-a-prefix-of-the-issuers", revocation(root, root.DID, id1), c1)
	forged("by-party-whose-did-is-a-text-prefix-without-boundary", revocation(alic, alic.DID, id1), c1)
	forged("names-issuer-but-signed-by-and-pointing-at-other-key", func() credential.Revocation {
		rv := revocation(mallory, alice.DID, id1)
		return rv
	}(), c1)
	forged("names-issuer-and-its-key-but-signed-by-other-key", func() credential.Revocation {
		rv := revocation(mallory, alice.DID, id1)
		rv.Proof.VerificationMethod = ssi.MustParseURI(alice.KID)
		return rv
	}(), c1)
	forged("subject-changed-after-signing", func() credential.Revocation {
		rv := revocation(alice, alice.DID, id2)
		rv.Subject = ssi.MustParseURI(id1)
		return rv
	}(), c1)
	forged("proof-removed", func() credential.Revocation {
		rv := revocation(alice, alice.DID, id1)
		rv.Proof = nil
		return rv
	}(), c1)
	// a JSON-LD credential of the same issuer is put into the node's credential store (and its issuer trusted) so that
	// VCR.Resolve(id, resolveTime) can be asked as well (the store finds JSON-LD credentials only)
	resolveID := ""
	var cLD json.RawMessage
	idLD := alice.DID + "#00000004-0000-4000-8000-000000000000"
	if err := func() error {
		doc := map[string]any{"@context": []string{"https://www.w3.org/2018/credentials/v1", "https://nuts.nl/credentials/v1", "https://w3c-ccg.github.io/lds-jws2020/contexts/lds-jws2020-v1.json"},
			"id": idLD, "type": []string{"VerifiableCredential", "NutsOrganizationCredential"}, "issuer": alice.DID,
			"issuanceDate":      now.Add(-time.Minute).UTC().Format(time.RFC3339),
			"credentialSubject": map[string]any{"id": subject.DID, "organization": map[string]any{"name": "Rev", "city": "Rev"}}}
		signed, err := alice.SignLDDoc(n, doc, proof.ProofOptions{Created: now.Add(-time.Minute)})
		if err != nil {
			return err
		}
		parsed, err := vc.ParseVerifiableCredential(string(signed))
		if err != nil {
			return err
		}
		if ok, msg := verifyVC(n, signed); !ok {
			return fmt.Errorf("JSON-LD credential of the hosted issuer does not verify: %s", msg)
		}
		if err := vcrEngine.StoreCredential(*parsed, nil); err != nil {
			return err
		}
		if err := vcrEngine.Trust(ssi.MustParseURI("NutsOrganizationCredential"), ssi.MustParseURI(alice.DID)); err != nil {
			return err
		}
		at := time.Now()
		if _, err = vcrEngine.Resolve(ssi.MustParseURI(idLD), &at); err != nil {
			return err
		}
		cLD = signed
		return nil
	}(); err == nil {
		resolveID = idLD
	} else {
		r.Count("resolve_route_unavailable", 1)
		r.Extra("resolve_route_unavailable_reason", err.Error())
	}
	genuine := revocation(alice, alice.DID, id1)
	// genuine revocation: effective and permanent; arriving before the credential was ever seen
	if err := register(genuine); err != nil {
		r.Violation("C11/revocation/genuine-refused", "revocation by the credential's issuer refused: "+err.Error(), nil)
	}
	if err := register(revocation(alice, alice.DID, id2)); err != nil { // c2 has not been presented to the node yet
		r.Violation("C11/revocation/genuine-refused", "revocation by the credential's issuer refused: "+err.Error(), nil)
	}
	for rep := 0; rep < 2; rep++ {
		for name, c := range map[string]json.RawMessage{"seen-before": c1, "revocation-arrived-first": c2} {
			ok, _ := verifyVC(n, c)
			r.Case("signed-revocation/effective/"+name, true)
			r.Count("verdicts", 1)
			if ok {
				r.Violation("C11/revocation/not-effective/"+name, "credential verifies although its issuer's revocation was registered ("+name+")", nil)
			}
		}
	}
	if ok, msg := verifyVC(n, c3); !ok {
		r.Violation("C11/verdict/unrevoked-fails", "credential of the same issuer that was never revoked does not verify: "+msg, nil)
	}
	// the same verdicts asked for at explicit validation times around the revocation's own date
	times := validationTimes(now.Add(-time.Minute), genuine.Date)
	tp.probe("signed-revocation", "seen-before", c1, subject, true, times, "")
	if cLD != nil {
		if err := register(revocation(alice, alice.DID, idLD)); err != nil {
			r.Violation("C11/revocation/genuine-refused", "revocation by the credential's issuer refused: "+err.Error(), nil)
		}
		tp.probe("signed-revocation", "stored-json-ld", cLD, subject, true, validationTimes(now.Add(-time.Minute), time.Now()), resolveID)
	}
	tp.probe("signed-revocation", "revocation-arrived-first", c2, subject, true, times, "")
	tp.probe("signed-revocation", "never-revoked", c3, subject, false, times, "")
	r.Count("hosted_did_documents_served", host.Served())
	r.Sample(map[string]any{"scenario": "signed-revocations", "forged": r.Get("forged_revocations"), "did_documents_served": host.Served()})
}
