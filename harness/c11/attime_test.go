// Validation-time dimension of "revoked must fail" (C11): once the node has received a revocation, a verification is refused
// whatever validation time the caller asks for (before the revocation's date, at the credential's issuance, in between, after).
// Routes: Verifier.Verify (with and without signature check), Verifier.VerifyVP, POST /internal/vcr/v2/verifier/vp with validAt,
// VCR.Resolve with a resolve time (for credentials in the node's store). Only "reported valid" refutes; a refusal for any other
// reason (not valid at that time, key not valid then, untrusted) does not.
package c11

import (
	"encoding/json"
	"errors"
	"fmt"
	"sort"
	"strings"
	"time"

	ssi "github.com/nuts-foundation/go-did"
	"github.com/nuts-foundation/go-did/vc"
	"github.com/nuts-foundation/nuts-node/vcr"
	"github.com/nuts-foundation/nuts-node/vcr/types"
	"verif/lib/ev"
	"verif/lib/iamflow"
	"verif/lib/node"
)

type timeProbe struct {
	r *ev.Run
	n *node.Node
	v vcr.VCR
}

// validationTimes are the instants asked for, relative to the credential's issuance and the moment/date of the revocation.
func validationTimes(issued, revoked time.Time) map[string]time.Time {
	return map[string]time.Time{
		"before-issuance":             issued.Add(-time.Hour),
		"at-issuance":                 issued.Add(time.Second),
		"between-issuance-revocation": issued.Add(revoked.Sub(issued) / 2),
		"minute-before-revocation":    revoked.Add(-time.Minute),
		"just-before-revocation":      revoked.Add(-time.Second),
		"at-revocation":               revoked,
		"just-after-revocation":       revoked.Add(time.Second),
		"hour-after-revocation":       revoked.Add(time.Hour),
	}
}

func guard(f func() error) (err error) {
	defer func() {
		if p := recover(); p != nil {
			err = fmt.Errorf("panic: %v", p)
		}
	}()
	return f()
}

// probe asks every route at every time. kind names the form of revocation; resolveID != "" adds the VCR.Resolve route.
func (p *timeProbe) probe(kind, step string, doc json.RawMessage, presenter *iamflow.Holder, revoked bool, times map[string]time.Time, resolveID string) {
	r := p.r
	cred, err := vc.ParseVerifiableCredential(string(unquote(doc)))
	if err != nil {
		r.Fatalf("credential does not parse: %v", err)
	}
	names := make([]string, 0, len(times))
	for name := range times {
		names = append(names, name)
	}
	sort.Strings(names)
	for _, name := range names {
		at := times[name]
		routes := map[string]func() error{
			"go-verify":              func() error { return p.v.Verifier().Verify(*cred, true, true, &at) },
			"go-verify-no-signature": func() error { return p.v.Verifier().Verify(*cred, true, false, &at) },
		}
		if presenter != nil {
			vpJWT := presenter.SignVP(iamflow.VP{Credentials: []json.RawMessage{doc}})
			routes["go-verify-vp"] = func() error {
				vp, err := vc.ParseVerifiablePresentation(vpJWT)
				if err != nil {
					return err
				}
				_, err = p.v.Verifier().VerifyVP(*vp, true, true, &at)
				return err
			}
			routes["http-vp-validAt"] = func() error {
				resp, err := node.Do("POST", p.n.Internal+"/internal/vcr/v2/verifier/vp", map[string]any{"verifiablePresentation": vpJWT, "validAt": at.UTC().Format(time.RFC3339), "verifyCredentials": true}, nil)
				if err != nil {
					return err
				}
				var out struct {
					Validity bool   `json:"validity"`
					Message  string `json:"message"`
				}
				if resp.Status != 200 || resp.JSON(&out) != nil {
					return errors.New(resp.String())
				}
				if !out.Validity {
					return errors.New(out.Message)
				}
				return nil
			}
		}
		if resolveID != "" {
			routes["go-resolve"] = func() error {
				_, err := p.v.Resolve(ssi.MustParseURI(resolveID), &at)
				return err
			}
		}
		rn := make([]string, 0, len(routes))
		for route := range routes {
			rn = append(rn, route)
		}
		sort.Strings(rn)
		for _, route := range rn {
			err := guard(routes[route])
			r.Case(fmt.Sprintf("verdict-at-time/%s/%s/%s/%v", kind, route, name, revoked), true)
			r.Count("verdicts_at_time", 1)
			switch {
			case !revoked:
				if err == nil {
					r.Count("unrevoked_valid_at_time", 1)
				} else {
					r.Count("unrevoked_refused_at_time", 1)
				}
			case err == nil:
				r.Violation("C11/verdict/revoked-verifies-at-time/"+kind+"/"+route, fmt.Sprintf("revoked credential is reported valid when validated at %s (%s, %s)", name, at.UTC().Format(time.RFC3339), step),
					map[string]any{"credential": cred.ID, "validation_time": name, "route": route})
			case containsRevoked(err):
				r.Count("revoked_refused_as_revoked_at_time", 1)
			default:
				r.Count("revoked_refused_for_other_reason_at_time", 1)
			}
		}
	}
}

func containsRevoked(err error) bool {
	return err != nil && (errors.Is(err, types.ErrRevoked) || strings.Contains(err.Error(), "revoked"))
}

// unquote turns a JSON string (JWT credential) into its text; JSON objects are returned unchanged.
func unquote(doc json.RawMessage) []byte {
	var s string
	if json.Unmarshal(doc, &s) == nil {
		return []byte(s)
	}
	return doc
}
