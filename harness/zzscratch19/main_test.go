package zz

import (
	"crypto"
	"encoding/base64"
	"fmt"
	"testing"

	"github.com/lestrrat-go/jwx/v2/jwa"
	"github.com/lestrrat-go/jwx/v2/jwk"
	"github.com/lestrrat-go/jwx/v2/jws"
	"github.com/nuts-foundation/go-did/did"
	nutsCrypto "github.com/nuts-foundation/nuts-node/crypto"
	"github.com/nuts-foundation/nuts-node/vdr/didjwk"
	"github.com/nuts-foundation/nuts-node/vdr/resolver"
)

func try(name string, fn func() error) {
	defer func() {
		if p := recover(); p != nil {
			fmt.Printf("%s: PANIC %v\n", name, p)
		}
	}()
	fmt.Printf("%s: err=%v\n", name, fn())
}

func TestX(t *testing.T) {
	for _, n := range []int{0, 1, 31, 32, 33, 64} {
		x := base64.RawURLEncoding.EncodeToString(make([]byte, n))
		for _, crv := range []string{"Ed25519", "X25519"} {
			js := fmt.Sprintf(`{"kty":"OKP","crv":%q,"x":%q}`, crv, x)
			id := did.MustParseDID("did:jwk:" + base64.RawStdEncoding.EncodeToString([]byte(js)))
			r := didjwk.NewResolver()
			try(fmt.Sprintf("%s/%d resolve+verify", crv, n), func() error {
				kr := resolver.DIDKeyResolver{Resolver: r}
				hdr := base64.RawURLEncoding.EncodeToString([]byte(`{"alg":"EdDSA","kid":"` + id.String() + `#0"}`))
				tok := hdr + "." + base64.RawURLEncoding.EncodeToString([]byte(`{"iss":"x"}`)) + "." + base64.RawURLEncoding.EncodeToString(make([]byte, 64))
				_, err := nutsCrypto.ParseJWT(tok, func(kid string) (crypto.PublicKey, error) {
					return kr.ResolveKeyByID(kid, nil, resolver.AssertionMethod)
				})
				return err
			})
			try(fmt.Sprintf("%s/%d jwk-embedded jws.Verify", crv, n), func() error {
				k, err := jwk.ParseKey([]byte(js))
				if err != nil {
					return err
				}
				hdr := base64.RawURLEncoding.EncodeToString([]byte(`{"alg":"EdDSA"}`))
				tok := hdr + "." + base64.RawURLEncoding.EncodeToString([]byte(`{"iss":"x"}`)) + "." + base64.RawURLEncoding.EncodeToString(make([]byte, 64))
				_, err = jws.Verify([]byte(tok), jws.WithKey(jwa.EdDSA, k))
				return err
			})
		}
	}
}
