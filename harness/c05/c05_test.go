// Check C05: one-time secrets are honoured at most once under every interleaving.
// A complete in-process node runs the real RFC021 s2s and OpenID4VP authorization-code flows; the
// harness' proxy withholds the hop that would redeem a secret, which yields a fresh, valid,
// never-presented secret plus the exact redeeming request. That request is then presented by 2–3
// concurrent actors whose session-store operations are steered by the verifhook scheduler
// (and by 8–16 unsteered actors for natural schedules + the race detector), followed by
// sequential replays. Oracle: per secret value at most one presentation succeeds; an
// authorization code presented in a failing request is dead afterwards.
package c05

import (
	"encoding/base64"
	"encoding/json"
	"fmt"
	"net/url"
	"strings"
	"sync"
	"testing"
	"time"

	"github.com/nuts-foundation/nuts-node/storage"

	"verif/lib/ev"
	"verif/lib/iamflow"
	"verif/lib/node"
	"verif/lib/sched"
)

type redeemFn func(actor int) (ok bool, detail string)

type fresh struct {
	secret string   // the value that keys the session-store entry
	redeem redeemFn // presents the secret once
	// spoil presents the secret in a request that must fail (authorization codes only)
	spoil map[string]redeemFn
}

type class struct {
	name   string
	make   func(w *iamflow.World, i int) (*fresh, error)
	points string // store ops per redemption, for the evidence
}

func TestCheck(t *testing.T) {
	r := ev.Start(t, "C05", "exploration")
	defer r.Finish()
	r.SetRule("case = (secret class, fresh secret, mode, interleaving): one fresh valid secret obtained by withholding the redeeming hop of a real flow, then presented by " +
		"2-3 actors steered at session-store operation hooks (seeded random schedules), or 8-16 unsteered actors, or sequentially; plus spoil-then-redeem for codes. " +
		"Store faults: per class every (presentation of a 3-4 step sequential history, backend operation on the value's key) x {request lost, reply lost} x {single operation, rest of the request} is injected underneath the session store (fault points sessiondb.*), plus seeded plans on two steered concurrent presentations. " +
		"Volume: s2s nonce / DPoP proof honoured, session database grown past N entries (fixed ascending list up to 100 000 quick / 262 144 thorough), replay; earlier DPoP proofs replayed at every later stage. " +
		"Non-trivial when >=2 presentations of the same value completed; distinct by (class, mode, interleaving string / fault plan / N).")
	r.Require(40, 12)
	r.Assume("in-memory session store (the sandbox has no redis/memcached); at-most-once across several nodes sharing a remote session store is not exercised")
	w := iamflow.NewWorld(t, iamflow.Options{})
	// backend fault points underneath the session stores (transparent while no handler injects anything)
	if !storage.VerifInstrumentSessionDatabase(sessionDatabase(r, w)) {
		r.Fatalf("the node's session database is not the in-memory one: cannot instrument its backend")
	}

	classes := []class{
		{name: "s2s-nonce", make: mkS2S, points: "Get,Put"},
		{name: "oauth-code", make: mkCode, points: "Get,Delete(between),Delete(deferred)"},
		{name: "openid4vp-nonce", make: mkNonce, points: "Get,Delete(between)"},
		{name: "request-object", make: mkRequestObject, points: "Get,Delete(between)"},
		{name: "dpop-jti", make: mkDPoP, points: "Get,Put"},
	}
	steered := r.Pick(14, 160)
	unsteered := r.Pick(3, 30)
	for _, c := range classes {
		c := c
		// steered episodes
		for i := 0; i < steered; i++ {
			actors := 2
			if i%4 == 3 {
				actors = 3
			}
			f, err := c.make(w, i)
			if err != nil {
				r.Fatalf("%s: cannot obtain a fresh secret: %v", c.name, err)
			}
			ep := sched.Begin(sched.Options{Actors: actors, Rand: r.Rand(fmt.Sprintf("%s-%d", c.name, i)),
				Watch: func(p string, args []any) bool {
					if !strings.HasPrefix(p, "session.") || len(args) == 0 {
						return false
					}
					k, _ := args[0].(string)
					return strings.Contains(k, f.secret)
				}})
			results := present(f.redeem, actors, ep)
			inter := ep.End()
			r.Count("scheduler_stalls", ep.Stalls)
			r.Count("store_ops_steered", len(strings.Fields(inter)))
			judge(r, c.name, "steered", inter, f, results)
			// sequential replays afterwards: always refused
			for k := 0; k < 2; k++ {
				ok, d := f.redeem(100 + k)
				r.Count("presentations", 1)
				if ok {
					r.Violation("C05/replay/"+c.name, "sequential replay of an already honoured "+c.name+" succeeded: "+d, map[string]any{"class": c.name, "interleaving": inter})
				}
			}
			if i == 0 {
				r.Sample(map[string]any{"class": c.name, "mode": "steered", "actors": actors, "interleaving": inter, "results": summarize(results), "store_ops": c.points})
			}
		}
		// unsteered stress
		for i := 0; i < unsteered; i++ {
			f, err := c.make(w, 1000+i)
			if err != nil {
				r.Fatalf("%s: cannot obtain a fresh secret: %v", c.name, err)
			}
			n := 8 + 8*(i%2)
			results := present(f.redeem, n, nil)
			judge(r, c.name, "unsteered", fmt.Sprintf("n=%d", n), f, results)
		}
	}

	// authorization code: dead after any failed redemption attempt
	spoilRounds := r.Pick(2, 12)
	for i := 0; i < spoilRounds; i++ {
		probe, err := mkCode(w, 5000+i)
		if err != nil {
			r.Fatalf("code: %v", err)
		}
		for kind := range probe.spoil {
			f, err := mkCode(w, 6000+i)
			if err != nil {
				r.Fatalf("code: %v", err)
			}
			ok, d := f.spoil[kind](0)
			r.Count("presentations", 1)
			if ok {
				r.Violation("C05/code-spoil/accepted/"+kind, "defective authorization-code redemption succeeded: "+d, nil)
			}
			ok2, d2 := f.redeem(1)
			r.Count("presentations", 1)
			r.Case("oauth-code/spoil-then-redeem/"+kind, true)
			if ok2 {
				r.Violation("C05/code-spoil/still-alive/"+kind, "authorization code honoured after a failed redemption attempt ("+kind+"): "+d2, map[string]any{"spoil": kind, "first": d})
			}
			if i == 0 {
				r.Sample(map[string]any{"class": "oauth-code", "mode": "spoil-then-redeem", "spoil": kind, "spoil_result": d, "redeem_result": d2})
			}
		}
	}

	// user redirect token: not named by the property statement; observed only
	for i := 0; i < r.Pick(3, 20); i++ {
		redir, _, err := w.UserFlowStart(fmt.Sprintf("ur%d", i))
		if err != nil {
			r.Fatalf("user flow start: %v", err)
		}
		u, _ := url.Parse(redir)
		tok := u.Query().Get("token")
		ep := sched.Begin(sched.Options{Actors: 2, Rand: r.Rand(fmt.Sprintf("ur-%d", i)), Watch: func(p string, args []any) bool {
			k, _ := args[0].(string)
			return strings.HasPrefix(p, "session.") && strings.Contains(k, tok)
		}})
		res := present(func(int) (bool, string) {
			h, err := iamflow.NewBrowser().Get(redir)
			return err == nil && h.Status == 302, fmt.Sprint(h.Status)
		}, 2, ep)
		ep.End()
		if succ(res) > 1 {
			r.Unspecified("user-redirect-token-honoured-twice")
		}
	}
	// the after-window replay mostly waits (real time): the store-fault and volume explorations run meanwhile (they touch other keys)
	var bg sync.WaitGroup
	bg.Add(1)
	go func() {
		defer bg.Done()
		afterWindowReplay(r, w)
	}()
	// the volume exploration has a node of its own (fresh session database, nothing else going on)
	w2 := iamflow.NewWorld(t, iamflow.Options{})
	bg.Add(1)
	go func() {
		defer bg.Done()
		volume(r, w2)
	}()
	t0 := time.Now()
	storeFaults(r, w, classes)
	r.Extra("store_fault_wall_s", time.Since(t0).Seconds())
	bg.Wait()
	r.Extra("distinct_interleavings_observed", r.DistinctN("interleavings"))
}

// afterWindowReplay: sequential replay of an s2s presentation after the nonce's retention has elapsed but while the
// presentation itself is still inside its acceptance window. The presentation is signed by a harness-owned did:jwk holder
// and dated a few seconds into the future (within the allowed clock skew), which is what makes its acceptance window
// outlast the retention of its nonce. Real waiting (about 11 s); a stopwatch decides whether the replay was in time.
func afterWindowReplay(r *ev.Run, w *iamflow.World) {
	h := iamflow.NewHolder()
	cred, err := w.IssueTo(w.Client, h.DID, iamflow.IssueOpts{})
	if err != nil {
		r.Fatalf("issue: %v", err)
	}
	rounds := r.Pick(1, 3)
	for i := 0; i < rounds; i++ {
		start := time.Now()
		nbf := start.Add(4 * time.Second)
		// JSON-LD presentation: proof.created may lie up to the allowed skew in the future (JWT presentations with a future nbf are refused outright)
		vpDoc, err := h.SignLDVP(w.N, iamflow.LDVP{Created: nbf, Expires: nbf.Add(5 * time.Second), Domain: w.Verifier.URL, Nonce: fmt.Sprintf("late-%d-%d", start.UnixNano(), i), Credentials: []json.RawMessage{cred}})
		if err != nil {
			r.Fatalf("sign JSON-LD presentation: %v", err)
		}
		vp := string(vpDoc)
		sub, _ := json.Marshal(map[string]any{"id": "s", "definition_id": "pd_org", "descriptor_map": []any{map[string]any{"id": "id_org", "format": "ldp_vc", "path": "$.verifiableCredential[0]"}}})
		form := url.Values{"grant_type": {"vp_token-bearer"}, "assertion": {vp}, "presentation_submission": {string(sub)}, "scope": {"test"}, "client_id": {"https://client.example/oauth2/h"}}
		post := func() (bool, string) {
			return tokenOK(node.Do("POST", w.N.Public+"/oauth2/"+w.Verifier.Name+"/token", form.Encode(), map[string]string{"Content-Type": "application/x-www-form-urlencoded"}))
		}
		ok1, d1 := post()
		r.Count("presentations", 1)
		if !ok1 {
			// a node that refuses presentations dated into the future has no such window: nothing to observe
			r.Unspecified("future-dated-presentation-refused")
			r.Case("s2s-nonce/after-retention/refused-upfront", false)
			fmt.Printf("NOTE: property=C05 future-dated presentation refused up front: %.160s\n", d1)
			return
		}
		ok2, _ := post() // immediate replay: refused
		r.Count("presentations", 1)
		if ok2 {
			r.Violation("C05/replay/s2s-nonce", "immediate replay of a future-dated presentation succeeded", nil)
		}
		// nonce retention is 10 s from first use; the presentation is acceptable until nbf+5 s+5 s skew = start+14 s
		time.Sleep(time.Until(start.Add(11500 * time.Millisecond)))
		ok3, d3 := post()
		elapsed := time.Since(start)
		r.Count("presentations", 1)
		r.Case("s2s-nonce/after-retention", true)
		if elapsed > 13500*time.Millisecond {
			r.Inconclusive(fmt.Sprintf("after-retention replay came too late (%.1fs after start)", elapsed.Seconds()))
			continue
		}
		if ok3 {
			r.Violation("C05/retention/s2s-nonce", fmt.Sprintf("a presentation honoured at t=0 was honoured again %.1f s later: its nonce was forgotten while the presentation was still acceptable", elapsed.Seconds()),
				map[string]any{"first": d1, "replay": d3, "nbf_offset_s": 4, "elapsed_s": elapsed.Seconds()})
		}
		if i == 0 {
			r.Sample(map[string]any{"class": "s2s-nonce", "mode": "after-retention-replay", "first": ok1, "immediate_replay": ok2, "replay_after_s": elapsed.Seconds(), "replay_honoured": ok3})
		}
	}
}

type result struct {
	ok     bool
	detail string
}

func present(redeem redeemFn, n int, ep *sched.Episode) []result {
	res := make([]result, n)
	var wg sync.WaitGroup
	for a := 0; a < n; a++ {
		wg.Add(1)
		go func(a int) {
			defer wg.Done()
			ok, d := redeem(a)
			res[a] = result{ok, d}
			if ep != nil {
				ep.ActorDone()
			}
		}(a)
	}
	wg.Wait()
	return res
}

func succ(res []result) int {
	n := 0
	for _, x := range res {
		if x.ok {
			n++
		}
	}
	return n
}

func summarize(res []result) []string {
	var out []string
	for _, x := range res {
		d := x.detail
		if len(d) > 90 {
			d = d[:90]
		}
		out = append(out, fmt.Sprintf("%v %s", x.ok, d))
	}
	return out
}

func judge(r *ev.Run, class, mode, inter string, f *fresh, res []result) {
	r.Count("presentations", len(res))
	r.Count("episodes", 1)
	r.Distinct("interleavings", class+" "+inter)
	r.Case(class+"/"+mode+"/"+inter, len(res) >= 2)
	n := succ(res)
	r.Count("honoured", n)
	if n == 0 {
		// a fresh valid secret that nobody can redeem is not a C05 violation, but the harness would be blind: count it
		r.Count("episodes_without_success", 1)
		r.Distinct("no_success_classes", class+"/"+mode)
		if r.Get("episodes_without_success") <= 5 {
			fmt.Printf("NOTE: property=C05 no presentation of a fresh %s was honoured (%s %s): %v\n", class, mode, inter, summarize(res))
		}
	}
	if n > 1 {
		r.Violation("C05/atomicity/"+class, fmt.Sprintf("%d of %d concurrent presentations of one %s were honoured (%s)", n, len(res), class, mode),
			map[string]any{"class": class, "mode": mode, "interleaving": inter, "results": summarize(res)})
	}
}

// ---- secret classes -----------------------------------------------------------------------------

func jwtClaims(tok string) map[string]any {
	parts := strings.Split(tok, ".")
	if len(parts) < 2 {
		return nil
	}
	b, err := base64.RawURLEncoding.DecodeString(parts[1])
	if err != nil {
		return nil
	}
	var m map[string]any
	_ = json.Unmarshal(b, &m)
	return m
}

func tokenOK(resp node.Resp, err error) (bool, string) {
	if err != nil {
		return false, err.Error()
	}
	var m map[string]any
	_ = resp.JSON(&m)
	at, _ := m["access_token"].(string)
	return resp.Status == 200 && at != "", resp.String()
}

func mkS2S(w *iamflow.World, _ int) (*fresh, error) {
	c, err := w.CaptureS2STokenRequest()
	if err != nil {
		return nil, err
	}
	assertion := c.Form().Get("assertion")
	nonce, _ := jwtClaims(assertion)["nonce"].(string)
	if nonce == "" {
		// JSON-LD presentation: nonce in the proof
		var vp struct {
			Proof json.RawMessage `json:"proof"`
		}
		_ = json.Unmarshal([]byte(assertion), &vp)
		var p map[string]any
		if json.Unmarshal(vp.Proof, &p) != nil {
			var ps []map[string]any
			_ = json.Unmarshal(vp.Proof, &ps)
			if len(ps) > 0 {
				p = ps[0]
			}
		}
		nonce, _ = p["nonce"].(string)
	}
	if nonce == "" {
		return nil, fmt.Errorf("no nonce found in captured presentation")
	}
	// the presentation is what carries the nonce; request parameters that the flow does not bind to it (client_id is a free form
	// parameter here) vary between presenters: every odd presenter names another client
	return &fresh{secret: nonce, redeem: func(i int) (bool, string) {
		if i%2 == 0 {
			return tokenOK(w.Replay(c))
		}
		f := c.Form()
		f.Set("client_id", fmt.Sprintf("https://other-client-%d.example/oauth2/x", i))
		c2 := *c
		c2.Body = []byte(f.Encode())
		return tokenOK(w.Replay(&c2))
	}}, nil
}

func mkCode(w *iamflow.World, i int) (*fresh, error) {
	c, _, _, err := w.RunUserFlow(fmt.Sprintf("code%d", i), w.IsCodeTokenRequest)
	if c == nil {
		return nil, err
	}
	form := c.Form()
	code := form.Get("code")
	if code == "" {
		return nil, fmt.Errorf("no code in token request")
	}
	mod := func(edit func(url.Values)) redeemFn {
		return func(int) (bool, string) {
			f := c.Form()
			edit(f)
			c2 := *c
			c2.Body = []byte(f.Encode())
			return tokenOK(w.Replay(&c2))
		}
	}
	return &fresh{secret: code, redeem: func(int) (bool, string) { return tokenOK(w.Replay(c)) },
		spoil: map[string]redeemFn{
			"wrong-code_verifier":   mod(func(f url.Values) { f.Set("code_verifier", "AAAAAAAAAAAAAAAAAAAAAAAAAAAAAAAAAAAAAAAAAAAAAAAA") }),
			"missing-code_verifier": mod(func(f url.Values) { f.Del("code_verifier") }),
			"wrong-client_id":       mod(func(f url.Values) { f.Set("client_id", "https://attacker.example/oauth2/x") }),
			"missing-client_id":     mod(func(f url.Values) { f.Del("client_id") }),
		}}, nil
}

func mkNonce(w *iamflow.World, i int) (*fresh, error) {
	c, _, _, err := w.RunUserFlow(fmt.Sprintf("nonce%d", i), w.IsResponse)
	if c == nil {
		return nil, err
	}
	vp := c.Form().Get("vp_token")
	nonce, _ := jwtClaims(vp)["nonce"].(string)
	if nonce == "" {
		if i := strings.Index(vp, `"challenge":"`); i >= 0 {
			rest := vp[i+len(`"challenge":"`):]
			nonce = rest[:strings.IndexByte(rest, '"')]
		}
	}
	if nonce == "" {
		return nil, fmt.Errorf("no nonce in vp_token: %.200s", vp)
	}
	return &fresh{secret: nonce, redeem: func(int) (bool, string) {
		resp, err := w.Replay(c)
		if err != nil {
			return false, err.Error()
		}
		var m map[string]any
		_ = resp.JSON(&m)
		ru, _ := m["redirect_uri"].(string)
		u, _ := url.Parse(ru)
		return resp.Status == 200 && u != nil && u.Query().Get("code") != "", resp.String()
	}}, nil
}

func mkRequestObject(w *iamflow.World, i int) (*fresh, error) {
	match := w.IsClientRequestObject
	if i%2 == 1 {
		match = w.IsVerifierRequestObject
	}
	c, _, _, err := w.RunUserFlow(fmt.Sprintf("ro%d", i), match)
	if c == nil {
		return nil, err
	}
	id := c.Path[strings.LastIndex(c.Path, "/")+1:]
	return &fresh{secret: id, redeem: func(a int) (bool, string) {
		c2 := *c
		if a%2 == 1 && match(c) && i%4 >= 2 {
			c2.Method = "POST" // request_uri_method=post variant of the same stored object
		}
		resp, err := w.Replay(&c2)
		if err != nil {
			return false, err.Error()
		}
		return resp.Status == 200 && strings.Count(string(resp.Body), ".") == 2, fmt.Sprintf("%d %.60s", resp.Status, resp.Body)
	}}, nil
}

type dpopSt struct {
	once       sync.Once
	token, kid string
	jkt        string
	err        error
}

// one DPoP-bound access token per world
var dpopStates sync.Map // *iamflow.World -> *dpopSt

func mkDPoP(w *iamflow.World, i int) (*fresh, error) {
	st, _ := dpopStates.LoadOrStore(w, &dpopSt{})
	dpopState := st.(*dpopSt)
	dpopState.once.Do(func() {
		resp, err := w.RequestServiceAccessToken("DPoP")
		if err != nil || resp.Status != 200 {
			dpopState.err = fmt.Errorf("DPoP token: %v %s", err, resp)
			return
		}
		var m map[string]any
		_ = resp.JSON(&m)
		dpopState.token, _ = m["access_token"].(string)
		dpopState.kid, _ = m["dpop_kid"].(string)
		intro, err := w.Introspect(dpopState.token)
		if err != nil {
			dpopState.err = err
			return
		}
		if cnf, ok := intro["cnf"].(map[string]any); ok {
			dpopState.jkt, _ = cnf["jkt"].(string)
		}
		if dpopState.jkt == "" || dpopState.kid == "" {
			dpopState.err = fmt.Errorf("no cnf.jkt/dpop_kid: %v %v", intro, m)
		}
	})
	if dpopState.err != nil {
		return nil, dpopState.err
	}
	htu := fmt.Sprintf("https://resource.example/r/%d", i)
	resp, err := node.Do("POST", w.N.Internal+"/internal/auth/v2/dpop/"+url.QueryEscape(dpopState.kid), map[string]any{"htm": "GET", "htu": htu, "token": dpopState.token}, nil)
	if err != nil || resp.Status != 200 {
		return nil, fmt.Errorf("create DPoP proof: %v %s", err, resp)
	}
	var pr struct {
		Dpop string `json:"dpop"`
	}
	_ = resp.JSON(&pr)
	jti, _ := jwtClaims(pr.Dpop)["jti"].(string)
	if jti == "" {
		return nil, fmt.Errorf("no jti in DPoP proof")
	}
	return &fresh{secret: jti, redeem: func(int) (bool, string) {
		resp, err := node.Do("POST", w.N.Internal+"/internal/auth/v2/dpop/validate", map[string]any{
			"dpop_proof": pr.Dpop, "method": "GET", "url": htu, "thumbprint": dpopState.jkt, "token": dpopState.token}, nil)
		if err != nil {
			return false, err.Error()
		}
		var v struct {
			Valid bool `json:"valid"`
		}
		_ = resp.JSON(&v)
		return resp.Status == 200 && v.Valid, resp.String()
	}}, nil
}
