// Store-fault exploration for C05: the session database's backend (which is a remote service in production: Redis,
// memcached) lets ONE operation of a presentation fail — either the request is lost (operation not performed, error) or the
// reply is lost (operation performed, error reported) — optionally together with every later operation of the same request
// (an outage spanning the request). The faulted presentation is one of a sequence of presentations of the same value
// (first use or a replay), or one of two concurrent, steered ones. Reference, computed by the harness alone: whatever fails
// in the store, at most one presentation of the value is honoured (a refused presentation and a later honoured one is fine).
package c05

import (
	"errors"
	"fmt"
	"net/url"
	"strings"
	"sync"

	"verif/lib/ev"
	"verif/lib/iamflow"
	"verif/lib/sched"
)

var errInjected = errors.New("verif: injected session backend failure (connection reset by peer)")

type faultPlan struct {
	pres int    // presentation of the history that is hit: 0 = first use, 1.. = replays (concurrent mode: always 0)
	op   int    // index of the backend operation on the value's key within that presentation (concurrent mode: among both actors, in schedule order)
	kind string // "lost" = not performed, error returned; "lost-ack" = performed, error returned
	rest bool   // every later backend operation on the key within the same presentation fails the same way
}

func (p *faultPlan) String() string {
	if p == nil {
		return "none"
	}
	span := "single"
	if p.rest {
		span = "rest"
	}
	return fmt.Sprintf("p%d.op%d.%s.%s", p.pres, p.op, p.kind, span)
}

// faultMonitor records the backend operations on the key of one value and injects the planned fault.
type faultMonitor struct {
	mu         sync.Mutex
	secret     string
	plan       *faultPlan
	cur        int
	n          int
	pendingAck map[int64]bool // goroutine -> reply of the operation in flight is to be lost
	trace      [][]string
	hitOps     []string
}

func newFaultMonitor(secret string, plan *faultPlan, presentations int) *faultMonitor {
	return &faultMonitor{secret: secret, plan: plan, trace: make([][]string, presentations), pendingAck: map[int64]bool{}}
}

func (m *faultMonitor) watch(name string, args []any) bool {
	if !strings.HasPrefix(name, "sessiondb.") || len(args) == 0 {
		return false
	}
	k, _ := args[0].(string)
	return strings.Contains(k, m.secret)
}

func (m *faultMonitor) begin(pres int) {
	m.mu.Lock()
	m.cur, m.n = pres, 0
	m.mu.Unlock()
}

// at is called at a backend fault point on the value's key; who tags the trace entry (actor letter in concurrent mode).
func (m *faultMonitor) at(name string, args []any, who string) error {
	op := strings.TrimPrefix(name, "sessiondb.")
	k, _ := args[0].(string)
	store := strings.TrimSuffix(k[:strings.Index(k, m.secret)], "/")
	g := sched.GoID()
	m.mu.Lock()
	defer m.mu.Unlock()
	if strings.HasSuffix(op, ".ack") {
		if m.pendingAck[g] {
			delete(m.pendingAck, g)
			return errInjected
		}
		return nil
	}
	idx := m.n
	m.n++
	entry := who + store + ":" + op
	var err error
	if p := m.plan; p != nil && p.pres == m.cur && (idx == p.op || p.rest && idx > p.op) {
		entry += "!" + p.kind
		if p.kind == "lost" {
			err = errInjected
		} else {
			m.pendingAck[g] = true
		}
		m.hitOps = append(m.hitOps, op)
	}
	m.trace[m.cur] = append(m.trace[m.cur], entry)
	return err
}

func (m *faultMonitor) snapshot() (trace []string, hit []string) {
	m.mu.Lock()
	defer m.mu.Unlock()
	for i, t := range m.trace {
		trace = append(trace, fmt.Sprintf("p%d[%s]", i, strings.Join(t, " ")))
	}
	return trace, append([]string{}, m.hitOps...)
}

func (m *faultMonitor) opsOf(pres int) int {
	m.mu.Lock()
	defer m.mu.Unlock()
	return len(m.trace[pres])
}

// faultHistory presents one fresh value `presentations` times in a row, the planned fault hitting one of the presentations.
func faultHistory(c class, f *fresh, plan *faultPlan, presentations int) (*faultMonitor, []result) {
	m := newFaultMonitor(f.secret, plan, presentations)
	rec := &sched.Recorder{OnHook: func(name string, args []any) error {
		if !m.watch(name, args) {
			return nil
		}
		return m.at(name, args, "")
	}}
	uninstall := rec.Install()
	defer uninstall()
	res := make([]result, presentations)
	for i := range res {
		m.begin(i)
		ok, d := f.redeem(i)
		res[i] = result{ok, d}
	}
	return m, res
}

// faultConcurrent lets two steered actors present one fresh value concurrently, the g-th backend operation on the key (in
// schedule order, whichever actor performs it) failing; then one undisturbed sequential replay.
func faultConcurrent(r *ev.Run, c class, f *fresh, plan *faultPlan, stream string) (*faultMonitor, []result, string) {
	m := newFaultMonitor(f.secret, plan, 2)
	ep := sched.Begin(sched.Options{Actors: 2, Rand: r.Rand(stream),
		Watch: func(p string, args []any) bool {
			if len(args) == 0 {
				return false
			}
			k, _ := args[0].(string)
			return (strings.HasPrefix(p, "session.") || strings.HasPrefix(p, "sessiondb.")) && strings.Contains(k, f.secret)
		},
		OnPoint: func(actor int, p string, args []any) error {
			if !strings.HasPrefix(p, "sessiondb.") {
				return nil
			}
			return m.at(p, args, string(rune('a'+actor))+".")
		}})
	res := present(f.redeem, 2, ep)
	inter := ep.End()
	r.Count("scheduler_stalls", ep.Stalls)
	m.begin(1)
	ok, d := f.redeem(100)
	res = append(res, result{ok, d})
	return m, res, inter
}

func judgeFault(r *ev.Run, c class, mode string, plan *faultPlan, m *faultMonitor, res []result, observedOnly bool) {
	trace, hit := m.snapshot()
	n := succ(res)
	r.Count("presentations", len(res))
	r.Count("fault_histories", 1)
	r.Count("honoured", n)
	r.Count("backend_faults_injected", len(hit))
	fp := fmt.Sprintf("%s/store-fault/%s/%s", c.name, mode, plan)
	if len(hit) == 0 {
		// the presentation performed fewer operations on the key than the plan assumed: nothing was injected
		r.Count("fault_plans_not_reached", 1)
		r.Case(fp+"/not-reached", false)
		return
	}
	r.Case(fp, true)
	r.Distinct("fault_sites", fmt.Sprintf("%s %s %d %s %s", c.name, mode, plan.pres, hit[0], plan.kind))
	if n <= 1 {
		if c.name == "oauth-code" && n == 1 && !res[0].ok {
			// "dead after any failed redemption attempt" cannot be met by any implementation while the store refuses the delete
			r.Unspecified("oauth-code-honoured-after-an-attempt-refused-during-store-failure")
		}
		return
	}
	when := "first"
	if plan.pres > 0 {
		when = "replay"
	}
	if mode == "concurrent" {
		when = "concurrent"
	}
	if observedOnly {
		r.Unspecified(c.name + "-honoured-twice-after-store-failure")
		return
	}
	r.Violation(fmt.Sprintf("C05/store-fault/%s/%s-%s-%s", c.name, when, hit[0], plan.kind),
		fmt.Sprintf("%d of %d presentations of one %s were honoured when a session backend operation (%s, %s) failed during the %s presentation", n, len(res), c.name, hit[0], plan.kind, when),
		map[string]any{"class": c.name, "mode": mode, "plan": plan.String(), "backend_ops_on_key": trace, "results": summarize(res)})
}

// mkRedirect: the user redirect token of the client-side user flow. Not named by the property statement: observed only.
func mkRedirect(w *iamflow.World, i int) (*fresh, error) {
	redir, _, err := w.UserFlowStart(fmt.Sprintf("fur%d", i))
	if err != nil {
		return nil, err
	}
	u, err := url.Parse(redir)
	if err != nil || u.Query().Get("token") == "" {
		return nil, fmt.Errorf("no token in %q", redir)
	}
	return &fresh{secret: u.Query().Get("token"), redeem: func(int) (bool, string) {
		h, err := iamflow.NewBrowser().Get(redir)
		return err == nil && h.Status == 302, fmt.Sprint(h.Status)
	}}, nil
}

// storeFaults enumerates the fault plans per class.
func storeFaults(r *ev.Run, w *iamflow.World, classes []class) {
	type kindSpan struct {
		kind string
		rest bool
	}
	variants := []kindSpan{{"lost", false}, {"lost", true}, {"lost-ack", false}}
	if r.Thorough() {
		variants = append(variants, kindSpan{"lost-ack", true})
	}
	presentations := r.Pick(3, 4)
	faultable := r.Pick(2, 3) // presentations of the history that may be hit
	all := append([]class{}, classes...)
	if r.Thorough() {
		// not named by the property statement, observed only: thorough tier
		all = append(all, class{name: "user-redirect", make: mkRedirect})
	}
	for _, c := range all {
		observedOnly := c.name == "user-redirect"
		// undisturbed history: tells how many backend operations each presentation performs on the key
		f, err := c.make(w, 20000)
		if err != nil {
			r.Fatalf("%s: cannot obtain a fresh secret: %v", c.name, err)
		}
		m0, res0 := faultHistory(c, f, nil, presentations)
		trace0, _ := m0.snapshot()
		r.Count("presentations", len(res0))
		r.Case(c.name+"/store-fault/sequential/none", true)
		if succ(res0) > 1 && !observedOnly {
			r.Violation("C05/replay/"+c.name, "sequential replay of an already honoured "+c.name+" succeeded", map[string]any{"backend_ops_on_key": trace0, "results": summarize(res0)})
		}
		if m0.opsOf(0) == 0 {
			r.Fatalf("%s: no backend operation on the value's key observed at the sessiondb fault points (session database not instrumented?)", c.name)
		}
		r.Sample(map[string]any{"class": c.name, "mode": "store-fault/sequential", "plan": "none", "backend_ops_on_key": trace0, "results": summarize(res0)})
		serial := 0
		for pres := 0; pres < faultable; pres++ {
			for op := 0; op < m0.opsOf(pres); op++ {
				for _, v := range variants {
					plan := &faultPlan{pres: pres, op: op, kind: v.kind, rest: v.rest}
					serial++
					f, err := c.make(w, 20000+serial)
					if err != nil {
						r.Fatalf("%s: cannot obtain a fresh secret: %v", c.name, err)
					}
					m, res := faultHistory(c, f, plan, presentations)
					judgeFault(r, c, "sequential", plan, m, res, observedOnly)
					if serial == 2 {
						tr, _ := m.snapshot()
						r.Sample(map[string]any{"class": c.name, "mode": "store-fault/sequential", "plan": plan.String(), "backend_ops_on_key": tr, "results": summarize(res)})
					}
				}
			}
		}
		// two concurrent steered presentations, one backend operation (of either) failing
		rng := r.Rand("store-fault-" + c.name)
		for i := 0; i < r.Pick(3, 24); i++ {
			v := variants[rng.Intn(len(variants))]
			plan := &faultPlan{pres: 0, op: rng.Intn(2 * m0.opsOf(0)), kind: v.kind, rest: v.rest}
			f, err := c.make(w, 21000+i)
			if err != nil {
				r.Fatalf("%s: cannot obtain a fresh secret: %v", c.name, err)
			}
			m, res, inter := faultConcurrent(r, c, f, plan, fmt.Sprintf("store-fault-%s-%d", c.name, i))
			r.Distinct("interleavings", c.name+" fault "+inter)
			judgeFault(r, c, "concurrent", plan, m, res, observedOnly)
		}
	}
}
