// Volume exploration for C05: a use-once marker (s2s presentation nonce, DPoP proof id) has to outlive whatever else happens
// to the shared session database while the value it protects is still acceptable. A value is honoured once, the session
// database then grows past N live entries (N from a fixed ascending list; the bulk is written through the node's own session
// store API, which is what every request does), and the value is presented again inside its validity window.
// Reference, computed by the harness alone: the replay is refused, however many entries the database holds.
// DPoP proofs stay acceptable for minutes, so every proof honoured at an earlier stage is replayed again at every later stage:
// a database that loses entries at ANY size up to the largest N (threshold, capacity bound, eviction) is observed.
package c05

import (
	"fmt"
	"strings"
	"time"

	"github.com/nuts-foundation/nuts-node/storage"

	"verif/lib/ev"
	"verif/lib/iamflow"
	"verif/lib/node"
)

func sessionDatabase(r *ev.Run, w *iamflow.World) storage.SessionDatabase {
	eng := node.Engine[storage.Engine](w.N)
	if eng == nil {
		r.Fatalf("storage engine not found in the node")
	}
	return eng.GetSessionDatabase()
}

func volume(r *ev.Run, w *iamflow.World) {
	db := sessionDatabase(r, w)
	stages := []int{1_000, 10_000, 50_000, 65_536, 100_000}
	if r.Thorough() {
		stages = append(stages, 131_072, 200_000, 262_144)
	}
	const margin = 256 // far more than the handful of entries the node writes by itself between two stages
	// fillers look like what requests leave behind: used nonces, proof ids, and other session data; all alive for 15 minutes
	fillerStores := [][]string{{"s2s", "nonce"}, {"nonceonce"}, {"verif", "filler"}}
	filled := 0
	start := time.Now()
	fill := func(upTo int) {
		for filled < upTo {
			// every request obtains its store from the database anew
			st := db.GetStore(15*time.Minute, fillerStores[filled%len(fillerStores)]...)
			if err := st.Put(fmt.Sprintf("verif-filler-%d", filled), true); err != nil {
				r.Fatalf("volume: filler put failed: %v", err)
			}
			filled++
		}
	}
	type used struct {
		f     *fresh
		stage int
	}
	var proofs []used // DPoP proofs honoured so far
	markers := []class{{name: "s2s-nonce", make: mkS2S}, {name: "dpop-jti", make: mkDPoP}}
	for si, stage := range stages {
		fill(stage - margin)
		var now []*fresh
		for _, c := range markers {
			f, err := c.make(w, 30000+si)
			if err != nil {
				r.Fatalf("volume: %s: cannot obtain a fresh secret: %v", c.name, err)
			}
			ok, d := f.redeem(0)
			ok2, _ := f.redeem(1)
			r.Count("presentations", 2)
			if !ok {
				r.Count("episodes_without_success", 1)
				fmt.Printf("NOTE: property=C05 volume stage %d: first use of a fresh %s was refused: %.200s\n", stage, c.name, d)
			}
			if ok && ok2 {
				r.Violation("C05/replay/"+c.name, "immediate sequential replay of an already honoured "+c.name+" succeeded", map[string]any{"stage": stage})
			}
			if !ok {
				f = nil
			}
			now = append(now, f)
		}
		fill(stage + margin)
		earlier := len(proofs)
		for ci, c := range markers {
			f := now[ci]
			if f == nil {
				r.Case(fmt.Sprintf("%s/volume/N=%d/no-first-use", c.name, stage), false)
				continue
			}
			ok, d := f.redeem(2)
			r.Count("presentations", 1)
			r.Count("volume_replays", 1)
			r.Case(fmt.Sprintf("%s/volume/N=%d", c.name, stage), true)
			if ok {
				r.Violation("C05/volume/"+c.name, fmt.Sprintf("a %s honoured before was honoured again after the session database had grown past %d entries", c.name, stage),
					map[string]any{"class": c.name, "entries_written_before_first_use": stage - margin, "entries_written_before_replay": filled, "replay": d})
			} else if c.name == "s2s-nonce" && !strings.Contains(d, "nonce has already been used") {
				// refused, but not (visibly) by the nonce check: e.g. the presentation expired because the sandbox stalled
				r.Inconclusive(fmt.Sprintf("volume stage %d: s2s replay refused for another reason than its nonce: %.200s", stage, d))
			}
			if c.name == "dpop-jti" {
				proofs = append(proofs, used{f, stage})
			}
		}
		// every DPoP proof honoured at an earlier stage is still inside its validity window
		for _, p := range proofs[:earlier] {
			ok, d := p.f.redeem(3)
			r.Count("presentations", 1)
			r.Count("volume_replays", 1)
			if ok {
				r.Violation("C05/volume/dpop-jti", fmt.Sprintf("a dpop-jti honoured when the session database held about %d entries was honoured again when it held about %d", p.stage, filled),
					map[string]any{"class": "dpop-jti", "first_use_at_entries": p.stage, "entries_written_before_replay": filled, "replay": d})
			}
		}
		r.Case(fmt.Sprintf("dpop-jti/volume/earlier-proofs/N=%d", stage), earlier > 0)
	}
	// are the fillers still there? (evidence only: entries other than one-time values are not the property's concern)
	missing := 0
	st := db.GetStore(15*time.Minute, fillerStores[2]...)
	for i := 2; i < filled; i += 3 * 997 {
		if !st.Exists(fmt.Sprintf("verif-filler-%d", i)) {
			missing++
		}
	}
	r.Count("volume_entries_written", filled)
	r.Extra("volume_stages", stages)
	r.Extra("volume_fillers_sampled_missing", missing)
	r.Extra("volume_wall_s", time.Since(start).Seconds())
}
