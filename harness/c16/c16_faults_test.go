// Entries the client cannot verify (for now or for good): registrants and credential issuers whose did:web documents
// the harness hosts, with injected outages. The server accepts the registration while the document resolves; the
// fault starts right afterwards, before the client has seen the entry, so the client stores it unvalidated and its
// background validation retries on every full pass. Transient faults end at a heal event, permanent ones never.
package c16

import (
	"bytes"
	"encoding/json"
	"errors"
	"fmt"
	"io"
	"net/http"
	"strconv"
	"strings"
	"sync"

	"verif/lib/iamflow"
)

const webSuffix = ".c16.test"

type webMode int

const (
	webUp       webMode = iota
	webNetErr           // transport error (connection refused)
	web503              // server answers 503
	web404              // document is gone
	webReplaced         // document lists another key
)

func (m webMode) String() string {
	return [...]string{"up", "connection-error", "http-503", "http-404", "key-replaced"}[m]
}

type webDoc struct {
	good, other []byte
	mode        webMode
}

// webHost answers the did:web document URLs of the harness' identities (hosts under .c16.test) and passes every other
// request on. It is what the nodes' did:web resolvers (and status list clients) are built on: set as
// client.DefaultCachingTransport before each node starts.
type webHost struct {
	mu     sync.Mutex
	docs   map[string]*webDoc
	orig   http.RoundTripper
	served int
	failed int
}

func (h *webHost) RoundTrip(req *http.Request) (*http.Response, error) {
	if !strings.HasSuffix(req.URL.Hostname(), webSuffix) {
		return h.orig.RoundTrip(req)
	}
	h.mu.Lock()
	d := h.docs[req.URL.String()]
	mode := web404
	var body []byte
	if d != nil {
		mode = d.mode
		switch mode {
		case webUp:
			body = d.good
		case webReplaced:
			body = d.other
		}
	}
	if mode == webUp {
		h.served++
	} else {
		h.failed++
	}
	h.mu.Unlock()
	resp := func(code int, b []byte) *http.Response {
		return &http.Response{StatusCode: code, Status: fmt.Sprintf("%d %s", code, http.StatusText(code)), Proto: "HTTP/1.1", ProtoMajor: 1, ProtoMinor: 1,
			Header: http.Header{"Content-Type": {"application/json"}, "Cache-Control": {"no-store"}}, Body: io.NopCloser(bytes.NewReader(b)), ContentLength: int64(len(b)), Request: req}
	}
	switch mode {
	case webNetErr:
		return nil, errors.New("c16: injected outage: connection refused")
	case web503:
		return resp(503, nil), nil
	case web404:
		return resp(404, nil), nil
	}
	return resp(200, body), nil
}

func (h *webHost) set(url string, m webMode) {
	h.mu.Lock()
	h.docs[url].mode = m
	h.mu.Unlock()
}

func didDocument(did, kid string, jwk map[string]any) []byte {
	b, _ := json.Marshal(map[string]any{
		"@context":           []string{"https://www.w3.org/ns/did/v1", "https://w3id.org/security/suites/jws-2020/v1"},
		"id":                 did,
		"verificationMethod": []any{map[string]any{"id": kid, "type": "JsonWebKey2020", "controller": did, "publicKeyJwk": jwk}},
		"assertionMethod":    []string{kid}, "authentication": []string{kid}, "capabilityInvocation": []string{kid},
	})
	return b
}

// faultDomain: one hosted document and what happens to it.
type faultDomain struct {
	url       string
	role      string // "issuer" (of the entry's credential) or "signer" (of the presentation)
	failMode  webMode
	transient bool
	down      bool
}

func (d *faultDomain) kind() string {
	if d.transient {
		return d.role + "-outage"
	}
	return d.role + "-" + d.failMode.String()
}

// newWebIdentity creates a did:web identity whose document is hosted (and resolvable) from now on.
func (w *world) newWebIdentity(role string) (*iamflow.Holder, *faultDomain) {
	h := iamflow.NewHolder()
	host := fmt.Sprintf("w%d-%s%d%s", w.id, role, w.nextID(), webSuffix)
	did := "did:web:" + host
	id := &iamflow.Holder{Key: h.Key, DID: did, KID: did + "#0", JWK: h.JWK}
	u := "https://" + host + "/.well-known/did.json"
	w.web.mu.Lock()
	w.web.docs[u] = &webDoc{good: didDocument(did, id.KID, id.JWK), other: didDocument(did, id.KID, iamflow.NewHolder().JWK)}
	w.web.mu.Unlock()
	return id, &faultDomain{url: u, role: role}
}

type plantSpec struct {
	signer    bool     // the registrant is the hosted identity (else: the issuer of its credential)
	subject   *subject // the registrant when it is not the hosted identity (nil: any)
	transient bool
	variant   int
}

func (w *world) randomPlant(transient bool, s *subject) plantSpec {
	return plantSpec{signer: w.rnd.Intn(3) == 0, subject: s, transient: transient, variant: w.rnd.Intn(2)}
}

// evPlantFault: S accepts a registration that depends on a hosted document; the document fails right afterwards.
func (w *world) evPlantFault(ps plantSpec) *entry {
	var s *subject
	var dom *faultDomain
	var p vpSpec
	if ps.signer {
		h, d := w.newWebIdentity("signer")
		s = &subject{name: "web" + strconv.Itoa(w.seq), h: h}
		s.cred = w.mkCred(h.DID, credOpts{})
		dom = d
		p = w.validSpec(s)
	} else {
		s = ps.subject
		if s == nil {
			s = w.anySubject()
		}
		iss, d := w.newWebIdentity("issuer")
		dom = d
		p = w.validSpec(s)
		p.creds = []json.RawMessage{w.mkCred(s.h.DID, credOpts{issuer: iss})}
	}
	dom.transient = ps.transient
	switch {
	case ps.transient && ps.variant == 0:
		dom.failMode = webNetErr
	case ps.transient:
		dom.failMode = web503
	case ps.variant == 0:
		dom.failMode = web404
	default:
		dom.failMode = webReplaced
	}
	e := w.register(s, p, "plant-"+dom.kind())
	if e == nil {
		return nil
	}
	w.web.set(dom.url, dom.failMode)
	dom.down = true
	e.dep = dom
	w.faults = append(w.faults, e)
	w.ctx.hadPlant = true
	w.r.Count("events_plant_client_cannot_verify", 1)
	w.r.Distinct("fault_kinds", dom.kind()+"/"+dom.failMode.String())
	w.note("fault %s: %s for %s", dom.kind(), dom.failMode, short(e.jti))
	return e
}

// healable: planted entries of the current list whose outage is still going on, in planting order.
func (w *world) healable() []*entry {
	var out []*entry
	for _, e := range w.faults {
		if e.dep.transient && e.dep.down && e.epoch == w.m.epoch {
			out = append(out, e)
		}
	}
	return out
}

func (w *world) heal(e *entry) {
	w.web.set(e.dep.url, webUp)
	e.dep.down = false
	w.r.Count("events_heal", 1)
	w.note("heal %s of %s", e.dep.kind(), short(e.jti))
}

// evHeal ends one outage (if any).
func (w *world) evHeal() bool {
	c := w.healable()
	if len(c) == 0 {
		return false
	}
	w.heal(c[w.rnd.Intn(len(c))])
	return true
}

// beforeClientPass: reference bookkeeping at the start of every pass of C. An entry that depends on a hosted document
// can have been verified by C only in a pass during which the document resolved.
func (w *world) beforeClientPass() {
	keep := w.faults[:0]
	for _, e := range w.faults {
		if !e.dep.down {
			e.seenUp = true
		}
		if e.epoch == w.m.epoch {
			keep = append(keep, e)
		}
	}
	w.faults = keep
}

// cannotHaveVerified: C had no pass in which e could be verified.
func (e *entry) cannotHaveVerified() bool {
	return e.unverifiable || (e.dep != nil && !e.seenUp)
}

// plantOnOpen: an entry on the second service of the same server that C can never verify. C's background validation
// handles the unvalidated entries of all services in one pass.
func (w *world) plantOnOpen() {
	s := w.anySubject()
	iss, dom := w.newWebIdentity("issuer")
	p := w.validSpec(s)
	p.aud = []string{w.open}
	p.creds = []json.RawMessage{w.mkCred(s.h.DID, credOpts{issuer: iss})}
	tok, jti := w.signVP(p)
	resp := w.post(w.open, tok)
	w.note("second service: register %s -> %s: %d", s.name, short(jti), resp.Status)
	if resp.Status != 201 {
		w.violation("C16/register/valid-refused/second-service", fmt.Sprintf("valid registration on the second service refused: %s", resp), map[string]any{"presentation": tok})
		return
	}
	dom.failMode = web404
	w.web.set(dom.url, web404)
	dom.down = true
	w.openBad[jti] = dom.kind()
	w.r.Count("events_plant_on_second_service", 1)
}

// checkClientOpen: C's search on the second service returns nothing C could not verify.
func (w *world) checkClientOpen(step string) {
	if len(w.openBad) == 0 {
		return
	}
	res := w.search(w.c, w.open, "")
	w.r.Count("client_searches_second_service", 1)
	for _, f := range res {
		if _, bad := w.openBad[f.id]; bad {
			w.violation("C16/client/search-returns-unverified/other-service", fmt.Sprintf("client search on the second service returns %s which the client cannot have verified (%s)", short(f.id), step), nil)
			delete(w.openBad, f.id)
		}
	}
}

// unverifiedMix: C's copy collects, in a seeded order, entries it cannot verify yet (outage) or ever (document gone,
// key replaced, credential revoked) between entries it verifies at once; then the outages end in two steps. After each
// step C's search must return exactly the entries C can have verified.
func (w *world) unverifiedMix() {
	defer track("unverifiedMix")()
	if w.rnd.Intn(2) == 0 {
		w.plantOnOpen()
		w.poll("unverified-mix/second-service", true)
	}
	n := 4 + w.rnd.Intn(3)
	kinds := []int{0, 1, 0, 1, w.rnd.Intn(4), w.rnd.Intn(4)}[:n] // 0 transient, 1 permanent, 2 revoked afterwards, 3 verifiable
	w.rnd.Shuffle(len(kinds), func(i, j int) { kinds[i], kinds[j] = kinds[j], kinds[i] })
	var order []string
	perm := w.rnd.Perm(len(w.subj)) // a subject of its own for every entry, so that none replaces another
	for i, k := range kinds {
		s := w.subj[perm[i]]
		switch k {
		case 0:
			w.evPlantFault(w.randomPlant(true, s))
			order = append(order, "outage")
		case 1:
			w.evPlantFault(w.randomPlant(false, s))
			order = append(order, "never")
		case 2:
			w.evPlant(s)
			order = append(order, "revoked")
		default:
			w.evRegister(s)
			order = append(order, "ok")
		}
		// a poll of its own fixes the entry's place in C's copy; entries fetched together are stored in no particular order
		if w.rnd.Intn(3) != 0 {
			w.poll("unverified-mix", w.rnd.Intn(4) == 0)
			order = append(order, "poll")
			w.checkClientSound(fmt.Sprintf("unverified-mix/%d", i))
		}
	}
	w.checkServer("unverified-mix/planted", true)
	w.poll("unverified-mix/all-fetched", false)
	w.checkClientSound("unverified-mix/all-fetched")
	// step 1: some outages end; one full pass
	c := w.healable()
	healed := 0
	for i, e := range c {
		if i == 0 || w.rnd.Intn(2) == 0 {
			w.heal(e)
			healed++
		}
	}
	w.poll("unverified-mix/healed-some", true)
	w.checkClientSound("unverified-mix/healed-some")
	w.checkClientOpen("unverified-mix/healed-some")
	// step 2: the remaining outages end (mostly)
	for _, e := range w.healable() {
		if w.rnd.Intn(4) != 0 {
			w.heal(e)
			healed++
		}
	}
	w.converge("unverified-mix")
	w.checkClientOpen("unverified-mix/end")
	w.r.Count("scenario_unverified_mix", 1)
	w.r.Distinct("unverified_mix_orders", strings.Join(order, ">"))
	w.r.Case("unverified-mix/"+strings.Join(order, ">"), healed > 0)
}
