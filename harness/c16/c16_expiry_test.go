// Real expiry and the retraction kind of every admission clause.
//
// realExpiry: the histories of c16_test.go expire entries in virtual time (SQL ageing of presentation_expiration; the exp
// claim of the stored JWT stays in the future). Here entries are short-lived for real: the exp claim of the JWT passes while
// the run waits, on the server (which prunes lazily, on the next registration) and in the client's copy. A subject replaces
// an entry the client holds by a short-lived retraction / refresh and the client polls only after that successor expired
// while the server still hands it out; next to it: a short-lived first registration the client never saw, short-lived
// entries the client fetched while they were valid, and an ordinary long-lived refresh, registered in a seeded order.
//
// retractionSweep: a retraction is a presentation the server lists and hands to every client. Every admission clause of
// the property that can be put to a presentation without credentials (JWT, addressed to the service, within the maximum
// validity, with an expiry, not expired, signed by the subject's key) is violated by a retraction of a live entry that is
// correct in everything else; plus the existing retraction classes (non-owner, unknown id, ...), each against a live entry.
package c16

import (
	"database/sql"
	"fmt"
	"strings"
	"time"
)

// ---- what a poll was handed ------------------------------------------------------------------------------------------

// successorOffered: e was replaced and a later entry of its subject was in a response to a completed poll of C.
func (m *model) successorOffered(e *entry) bool {
	if e.current {
		return false
	}
	for _, o := range m.byJTI {
		if o.subject == e.subject && o.epoch == e.epoch && o.seq > e.seq && o.offered {
			return true
		}
	}
	return false
}

// offerToClient: what S answers, right now, to "everything after C's last timestamp" (quiescent: C's poll that follows gets
// the same answer). Nothing when C's seed differs from S's: C then starts over instead of using the response.
func (w *world) offerToClient() []*entry {
	var seed sql.NullString
	var ts sql.NullInt64
	if err := w.cdb.Raw("SELECT seed, last_lamport_timestamp FROM discovery_service WHERE id = ?", w.svc).Row().Scan(&seed, &ts); err != nil {
		return nil
	}
	l := w.getList(w.s.Public, w.svc, int(ts.Int64))
	if l.seed != seed.String && ts.Int64 > 0 {
		return nil
	}
	var out []*entry
	for _, it := range l.entries {
		if e := w.m.byJTI[it.jti]; e != nil && e.epoch == w.m.epoch {
			out = append(out, e)
		}
	}
	return out
}

func (w *world) markOffered(es []*entry) {
	for _, e := range es {
		if !e.offered {
			e.offered = true
			w.r.Count("entries_offered_to_client_polls", 1)
			if e.aged {
				w.r.Count("expired_entries_offered_to_client_polls", 1)
				if !e.realExp.IsZero() {
					w.r.Count("really_expired_entries_offered_to_client_polls", 1)
				}
			}
		}
	}
}

// ---- entries that expire for real --------------------------------------------------------------------------------------

// registerShort registers a presentation of s that is valid for d only. nil when the machine was too slow for it.
func (w *world) registerShort(s *subject, p vpSpec, d time.Duration, kind string) *entry {
	p.exp = time.Now().Add(d)
	tok, jti := w.signVP(p)
	resp := w.post(w.svc, tok)
	w.r.Count("events_"+kind, 1)
	w.note("%s %s -> %s (valid %s): %d", kind, s.name, short(jti), d, resp.Status)
	if resp.Status != 201 {
		if time.Now().After(p.exp.Add(-1500 * time.Millisecond)) {
			w.r.Inconclusive("short-lived registration expired before the server handled it")
			return nil
		}
		w.violation("C16/register/valid-refused/"+kind, fmt.Sprintf("valid %s refused: %s", kind, resp), map[string]any{"presentation": tok})
		return nil
	}
	e := w.m.accept(s.h.DID, jti, p.retraction)
	e.realExp = time.Unix(p.exp.Unix(), 0)
	w.m.pending = append(w.m.pending, []*entry{e})
	w.tokens[jti] = tok
	return e
}

// maybeExpired: short-lived for real, and the run has not yet waited until its expiry is certain while its last second may have
// begun: both "still listed" and "gone" are what a correct node may show (evaluate AFTER the observation it excuses).
func (e *entry) maybeExpired() bool {
	return !e.realExp.IsZero() && !e.aged && time.Now().After(e.realExp.Add(-1500*time.Millisecond))
}

func (w *world) shortValidity() time.Duration {
	return time.Duration(4000+w.rnd.Intn(2000)) * time.Millisecond
}

func (w *world) realExpiry() {
	defer track("realExpiry")()
	perm := w.rnd.Perm(len(w.subj))
	sub := func(i int) *subject { return w.subj[perm[i]] }
	retractShort, refreshShort, firstShort, polledRetract, polledFirst, control := sub(0), sub(1), sub(2), sub(3), sub(4), sub(5)

	// phase 1: C holds a long-lived, verified entry of everybody but the two that start from nothing
	for _, s := range []*subject{retractShort, refreshShort, polledRetract, control} {
		w.evRegister(s)
	}
	for _, s := range []*subject{firstShort, polledFirst} {
		if e := w.m.cur[s.h.DID]; e != nil && !e.retraction && !e.aged {
			w.evRetract(s)
		}
	}
	w.checkServer("real-expiry/prepared", true)
	w.converge("real-expiry/prepared")

	var shorts []*entry
	add := func(e *entry) {
		if e != nil {
			shorts = append(shorts, e)
		}
	}
	// phase 2a: short-lived entries C fetches while they are valid
	if e := w.m.cur[polledRetract.h.DID]; e != nil && !e.retraction {
		add(w.registerShort(polledRetract, w.retractSpec(polledRetract, e.jti), w.shortValidity(), "retract-short-lived"))
	}
	add(w.registerShort(polledFirst, w.validSpec(polledFirst), w.shortValidity(), "register-short-lived"))
	w.checkServer("real-expiry/short-lived-polled", true)
	w.poll("real-expiry/while-valid", w.rnd.Intn(2) == 0)
	w.note("poll")
	w.checkClientSound("real-expiry/while-valid")

	// phase 2b: replacements C does not fetch before they expire, in a seeded order between ordinary registrations
	steps := []string{"retract", "refresh", "first", "control"}
	w.rnd.Shuffle(len(steps), func(i, j int) { steps[i], steps[j] = steps[j], steps[i] })
	for _, st := range steps {
		switch st {
		case "retract":
			if e := w.m.cur[retractShort.h.DID]; e != nil && !e.retraction {
				add(w.registerShort(retractShort, w.retractSpec(retractShort, e.jti), w.shortValidity(), "retract-short-lived"))
			}
		case "refresh":
			add(w.registerShort(refreshShort, w.validSpec(refreshShort), w.shortValidity(), "refresh-short-lived"))
		case "first":
			add(w.registerShort(firstShort, w.validSpec(firstShort), w.shortValidity(), "register-short-lived"))
		default:
			w.evRegister(control)
		}
	}
	w.checkServer("real-expiry/replaced", true)
	w.checkClientSound("real-expiry/replaced")

	// the short-lived entries expire (S receives no registration meanwhile: it prunes on the next one only)
	var last time.Time
	for _, e := range shorts {
		if e.realExp.After(last) {
			last = e.realExp
		}
	}
	if d := time.Until(last.Add(1200 * time.Millisecond)); d > 0 {
		time.Sleep(d)
	}
	for _, e := range shorts {
		e.aged = true
		w.r.Count("events_expire_real", 1)
		w.note("expired for real: %s", short(e.jti))
	}
	w.ctx.hadExpire = true
	served := 0
	for _, it := range w.getList(w.s.Public, w.svc, 0).entries {
		if e := w.m.byJTI[it.jti]; e != nil && !e.realExp.IsZero() && e.aged {
			served++
		}
	}
	w.r.Count("really_expired_entries_still_served", served)
	w.checkServer("real-expiry/expired", true)
	w.checkClientSound("real-expiry/expired")
	w.converge("real-expiry/expired")
	w.r.Case("real-expiry/"+strings.Join(steps, ">")+fmt.Sprintf("/%d", len(shorts)), served > 0)
	w.r.Distinct("real_expiry_orders", strings.Join(steps, ">"))

	// the next registration makes S prune; nothing comes back
	w.evRegister(w.anySubject())
	w.checkServer("real-expiry/pruned", true)
	w.converge("real-expiry/pruned")
	w.r.Count("scenario_real_expiry", 1)
}

// ---- defective retractions ----------------------------------------------------------------------------------------------

// liveRetraction: a correct retraction of a live entry, by its owner.
func liveRetraction(w *world) (*subject, vpSpec, bool) {
	live := w.liveSubjects()
	if len(live) == 0 {
		return nil, vpSpec{}, false
	}
	s := live[w.rnd.Intn(len(live))]
	return s, w.retractSpec(s, w.m.cur[s.h.DID].jti), true
}

func retractionDefects() []defect {
	mk := func(class string, calibrate bool, f func(w *world, s *subject, p *vpSpec)) defect {
		return defect{class: class, calibrate: calibrate, build: func(w *world) (any, string, bool) {
			s, p, ok := liveRetraction(w)
			if !ok {
				return nil, "", false
			}
			f(w, s, &p)
			tok, jti := w.signVP(p)
			return tok, jti, true
		}}
	}
	return []defect{
		mk("retraction-validity-exceeds-max", true, func(w *world, s *subject, p *vpSpec) {
			excess := []time.Duration{time.Duration(120+w.rnd.Intn(600)) * time.Second, time.Duration(1+w.rnd.Intn(3)) * time.Hour, 9 * maxValidity, 10 * 365 * 24 * time.Hour}
			p.exp = time.Now().Add(maxValidity + excess[w.rnd.Intn(len(excess))])
		}),
		mk("retraction-no-expiry", false, func(w *world, s *subject, p *vpSpec) { p.noExp = true }),
		mk("retraction-already-expired", false, func(w *world, s *subject, p *vpSpec) { p.exp = time.Now().Add(-2 * time.Minute) }),
		mk("retraction-audience-of-other-service", true, func(w *world, s *subject, p *vpSpec) { p.aud = []string{w.open} }),
		mk("retraction-audience-missing", true, func(w *world, s *subject, p *vpSpec) { p.aud = nil }),
		mk("retraction-no-id", false, func(w *world, s *subject, p *vpSpec) { p.noJTI = true }),
		{class: "retraction-bad-signature", build: func(w *world) (any, string, bool) {
			_, p, ok := liveRetraction(w)
			if !ok {
				return nil, "", false
			}
			tok, jti := w.signVP(p)
			return tamperSig(tok), jti, true
		}},
		{class: "retraction-signed-by-other-key", build: func(w *world) (any, string, bool) {
			// kid and iss name the owner, the signature is somebody else's
			s, p, ok := liveRetraction(w)
			if !ok {
				return nil, "", false
			}
			other := w.subj[0]
			if other == s {
				other = w.subj[1]
			}
			tok, jti := w.signVP(p)
			hdr, claims, _ := jwtParts(tok)
			return other.h.SignJWT(hdr, claims), jti, true
		}},
	}
}

// retractionSweep: every defect class of the retraction kind against a live entry, the list compared after each; then
// correct retractions with the longest validity the service allows and with a short one are accepted.
func (w *world) retractionSweep(all []defect) {
	defer track("retractionSweep")()
	for _, d := range all {
		if !strings.HasPrefix(d.class, "retraction-") {
			continue
		}
		if len(w.liveSubjects()) < 2 {
			w.evRegister(w.anySubject())
			w.evRegister(w.anySubject())
		}
		if d.class == "retraction-of-superseded-id" {
			w.evRegister(w.liveSubjects()[0]) // a refresh: its predecessor is the superseded id
		}
		before := w.r.Get("defective_" + d.class)
		w.evDefect(d)
		if w.r.Get("defective_"+d.class) > before {
			w.r.Count("retraction_sweep_defects", 1)
		}
		w.checkServer("retraction-sweep/"+d.class, true)
	}
	// controls: the same retraction without a defect is accepted
	for i, val := range []time.Duration{maxValidity - time.Duration(60+w.rnd.Intn(600))*time.Second, time.Duration(5+w.rnd.Intn(50)) * time.Minute} {
		if s, p, ok := liveRetraction(w); ok {
			p.exp = time.Now().Add(val)
			w.register(s, p, "retract")
			w.checkServer(fmt.Sprintf("retraction-sweep/control-%d", i), true)
		}
	}
	w.converge("retraction-sweep")
	w.r.Count("scenario_retraction_sweep", 1)
}
