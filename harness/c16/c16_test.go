// Check C16: discovery lists hold only verified registrations and clients converge to them.
//
// Two complete in-process nodes: S serves three discovery services (c16-svc restricted to did:jwk and did:web,
// c16-open unrestricted, c16-multi whose definition asks for three credentials), C is a pure client whose service
// definitions point at S's public URL. Registrants are did:jwk (and one did:key) identities owned by the harness;
// their credentials are JWT credentials signed by a did:jwk issuer the harness owns, so both nodes can verify
// them without DID hosting. Some registrants and issuers are did:web identities whose documents the harness hosts
// behind the nodes' did:web resolvers, with injected outages (c16_faults_test.go): entries S accepted that C cannot
// verify yet, or ever. Presentations with several credentials are swept in c16_multi_test.go. The
// harness posts presentations to S's public registration endpoint exactly as a remote node would, lets C
// poll through its real updater (VerifClientRefresh), steers registrations into the window between the
// timestamp read and the row read of the server's get (hook discovery.get.between), resets the server
// (new seed) and ages entries by SQL (virtual time). A reference model of the list decides.
package c16

import (
	"bytes"
	"compress/gzip"
	"crypto/elliptic"
	"encoding/base64"
	"encoding/binary"
	"encoding/json"
	"fmt"
	"math/rand"
	"net"
	"net/http"
	"os"
	"path/filepath"
	"sort"
	"strconv"
	"strings"
	"sync"
	"testing"
	"time"

	"github.com/mr-tron/base58"
	"github.com/nuts-foundation/nuts-node/core/verifhook"
	"github.com/nuts-foundation/nuts-node/discovery"
	"github.com/nuts-foundation/nuts-node/http/client"
	"github.com/nuts-foundation/nuts-node/storage"
	"gorm.io/gorm"
	"verif/lib/ev"
	"verif/lib/iamflow"
	"verif/lib/node"
	"verif/lib/sched"
)

const (
	maxValidity = 2 * time.Hour
	openMaxVal  = 48 * time.Hour
	hookBetween = "discovery.get.between"
)

const pdJSON = `{"id":"pd_c16","format":{"jwt_vc":{"alg":["ES256"]},"jwt_vp":{"alg":["ES256"]}},
 "input_descriptors":[{"id":"org","constraints":{"fields":[
  {"path":["$.type"],"filter":{"type":"string","const":"NutsOrganizationCredential"}},
  {"path":["$.credentialSubject.organization.name","$.credentialSubject[0].organization.name"],"filter":{"type":"string"}},
  {"path":["$.credentialSubject.organization.city","$.credentialSubject[0].organization.city"],"filter":{"type":"string"}}]}}]}`

// ---- identities, credentials, presentations ----------------------------------------------------------

type subject struct {
	name string
	h    *iamflow.Holder
	cred json.RawMessage // a valid organization credential issued to this subject
}

// newKeyHolder makes a did:key (P-256) identity with the harness' signing helpers.
func newKeyHolder() *iamflow.Holder {
	h := iamflow.NewHolder()
	mc := binary.AppendUvarint(nil, 0x1200)
	mc = append(mc, elliptic.MarshalCompressed(elliptic.P256(), h.Key.X, h.Key.Y)...)
	id := "z" + base58.EncodeAlphabet(mc, base58.BTCAlphabet)
	return &iamflow.Holder{Key: h.Key, DID: "did:key:" + id, KID: "did:key:" + id + "#" + id, JWK: h.JWK}
}

type credOpts struct {
	issuer     *iamflow.Holder // default: the world's did:jwk issuer
	exp        time.Time
	typ        string // default NutsOrganizationCredential
	statusList string // URL of a status list; index statusIdx
	statusIdx  int
}

type vpSpec struct {
	signer     *iamflow.Holder
	aud        []string
	exp        time.Time
	noExp      bool
	noJTI      bool
	creds      []json.RawMessage
	retractJTI string
	retraction bool
	noRetract  bool // retraction without retract_jti claim
}

type world struct {
	id      int
	svc     string // the service under test (restricted to did:jwk and did:web)
	open    string // a second, unrestricted service on the same server
	multi   string // a third service whose definition asks for three credentials (c16_multi_test.go)
	web     *webHost
	faults  []*entry // planted entries that depend on a hosted did:web document, in planting order
	openBad map[string]string
	// the third service: latest accepted presentation per subject, refused presentations, position in the sweep
	multiCur      map[string]string
	multiRejected map[string]string
	multiIdx      int
	t       *testing.T
	r       *ev.Run
	s, c    *node.Node
	sdb     *gorm.DB
	cdb     *gorm.DB
	cm      *discovery.Module
	issuer  *iamflow.Holder
	subj    []*subject
	keySubj *subject
	lists   *listServer
	seq     int
	m       *model
	log     []string // events of the current and the previous history
	ctx     histCtx
	rnd     *rand.Rand
	tokens  map[string]string // jti -> token of accepted registrations (for exact duplicates)
	cfg     string            // configuration shared by S and C
	sAddr   string            // S's public address
	// epoch of S at C's last poll
	cPolledEpoch int
}

type histCtx struct {
	idx       int
	hadReset  bool
	hadRace   bool
	hadPlant  bool
	hadExpire bool
}

func (w *world) nextID() int { w.seq++; return w.seq }

func (w *world) mkCred(subjectDID string, o credOpts) json.RawMessage {
	if o.typ == "" {
		o.typ = "NutsOrganizationCredential"
	}
	now := time.Now()
	vcm := map[string]any{"@context": []string{"https://www.w3.org/2018/credentials/v1", "https://nuts.nl/credentials/v1"},
		"type":              []string{"VerifiableCredential", o.typ},
		"credentialSubject": map[string]any{"id": subjectDID, "organization": map[string]any{"name": "Org " + strconv.Itoa(w.nextID()), "city": "Testtown"}}}
	if o.statusList != "" {
		vcm["@context"] = []string{"https://www.w3.org/2018/credentials/v1", "https://nuts.nl/credentials/v1", "https://w3id.org/vc/status-list/2021/v1"}
		vcm["credentialStatus"] = map[string]any{"id": fmt.Sprintf("%s#%d", o.statusList, o.statusIdx), "type": "StatusList2021Entry", "statusPurpose": "revocation",
			"statusListIndex": strconv.Itoa(o.statusIdx), "statusListCredential": o.statusList}
	}
	iss := w.issuer
	if o.issuer != nil {
		iss = o.issuer
	}
	claims := map[string]any{"iss": iss.DID, "sub": subjectDID, "jti": fmt.Sprintf("%s#cred-%d", iss.DID, w.nextID()), "nbf": now.Add(-time.Minute).Unix(), "vc": vcm}
	if !o.exp.IsZero() {
		claims["exp"] = o.exp.Unix()
	}
	b, _ := json.Marshal(iss.SignJWT(map[string]any{"alg": "ES256", "typ": "JWT", "kid": iss.KID}, claims))
	return b
}

// signVP returns the JWT presentation and its jti.
func (w *world) signVP(p vpSpec) (string, string) {
	now := time.Now()
	types := []string{"VerifiablePresentation"}
	if p.retraction {
		types = append(types, "RetractedVerifiablePresentation")
	}
	vp := map[string]any{"@context": []string{"https://www.w3.org/2018/credentials/v1", "https://nuts.nl/credentials/v1"}, "type": types, "holder": p.signer.DID}
	if len(p.creds) > 0 {
		vp["verifiableCredential"] = p.creds
	}
	jti := fmt.Sprintf("%s#vp-%d", p.signer.DID, w.nextID())
	claims := map[string]any{"iss": p.signer.DID, "sub": p.signer.DID, "nbf": now.Add(-10 * time.Second).Unix(), "iat": now.Add(-10 * time.Second).Unix(), "vp": vp, "nonce": fmt.Sprintf("n%d", w.nextID())}
	if !p.noJTI {
		claims["jti"] = jti
	} else {
		jti = ""
	}
	if len(p.aud) > 0 {
		claims["aud"] = p.aud
	}
	if !p.noExp {
		claims["exp"] = p.exp.Unix()
	}
	if p.retraction && !p.noRetract {
		claims["retract_jti"] = p.retractJTI
	}
	return p.signer.SignJWT(map[string]any{"alg": "ES256", "typ": "JWT", "kid": p.signer.KID}, claims), jti
}

func (w *world) validSpec(s *subject) vpSpec {
	// validity varies (all within the maximum, with a margin for the time the request takes)
	val := maxValidity - time.Duration(60+w.rnd.Intn(3000))*time.Second
	return vpSpec{signer: s.h, aud: []string{w.svc}, exp: time.Now().Add(val), creds: []json.RawMessage{s.cred}}
}

func tamperSig(tok string) string {
	b := []byte(tok)
	i := len(b) - 20
	if b[i] == 'A' {
		b[i] = 'B'
	} else {
		b[i] = 'A'
	}
	return string(b)
}

func jwtParts(tok string) (hdr, claims map[string]any, ok bool) {
	parts := strings.Split(tok, ".")
	if len(parts) != 3 {
		return nil, nil, false
	}
	hb, err1 := base64.RawURLEncoding.DecodeString(parts[0])
	cb, err2 := base64.RawURLEncoding.DecodeString(parts[1])
	if err1 != nil || err2 != nil || json.Unmarshal(hb, &hdr) != nil || json.Unmarshal(cb, &claims) != nil {
		return nil, nil, false
	}
	return hdr, claims, true
}

// ---- status lists served by the harness ----------------------------------------------------------------

type listServer struct {
	mu    sync.Mutex
	lists map[string]func() string
	hits  int
	url   string
}

func (s *listServer) ServeHTTP(w http.ResponseWriter, r *http.Request) {
	s.mu.Lock()
	f := s.lists[r.URL.Path]
	s.hits++
	s.mu.Unlock()
	if f == nil {
		http.NotFound(w, r)
		return
	}
	w.Header().Set("Content-Type", "application/json")
	w.Header().Set("Cache-Control", "no-store")
	_, _ = w.Write([]byte(f()))
}

func encodeList(bits []byte) string {
	var buf bytes.Buffer
	zw := gzip.NewWriter(&buf)
	_, _ = zw.Write(bits)
	_ = zw.Close()
	return base64.RawURLEncoding.EncodeToString(buf.Bytes())
}

// newList serves a fresh revocation list; the returned setter flips the bit at idx.
func (w *world) newList(idx int, set bool) (string, func(bool)) {
	path := fmt.Sprintf("/lists/%d", w.nextID())
	u := w.lists.url + path
	var mu sync.Mutex
	cur := set
	w.lists.mu.Lock()
	w.lists.lists[path] = func() string {
		mu.Lock()
		on := cur
		mu.Unlock()
		bits := make([]byte, 16*1024)
		if on {
			bits[idx/8] |= 1 << (7 - uint(idx%8))
		}
		now := time.Now()
		claims := map[string]any{"iss": w.issuer.DID, "sub": u, "jti": w.issuer.DID + "#list-" + strconv.FormatInt(now.UnixNano(), 36), "nbf": now.Add(-time.Minute).Unix(), "exp": now.Add(24 * time.Hour).Unix(),
			"vc": map[string]any{"@context": []string{"https://www.w3.org/2018/credentials/v1", "https://w3id.org/vc/status-list/2021/v1"},
				"type":              []string{"VerifiableCredential", "StatusList2021Credential"},
				"credentialSubject": map[string]any{"id": u, "type": "StatusList2021", "statusPurpose": "revocation", "encodedList": encodeList(bits)}}}
		b, _ := json.Marshal(w.issuer.SignJWT(map[string]any{"alg": "ES256", "typ": "JWT", "kid": w.issuer.KID}, claims))
		return string(b)
	}
	w.lists.mu.Unlock()
	return u, func(v bool) { mu.Lock(); cur = v; mu.Unlock() }
}

// ---- reference model ----------------------------------------------------------------------------------------

type entry struct {
	subject      string
	jti          string
	ts           int // 0 = accepted, timestamp not yet observed
	retraction   bool
	aged         bool // expired in virtual time
	unverifiable bool // S accepted it, afterwards its credential was revoked: C cannot verify it
	dep          *faultDomain // S accepted it, afterwards a did:web document it depends on failed (c16_faults_test.go)
	seenUp       bool         // C had a pass during which that document resolved
	epoch        int
	current      bool
	seq          int // acceptance order
	offered      bool      // a response of S to a poll of C that ended without error contained it (c16_expiry_test.go)
	realExp      time.Time // short-lived for real: the exp claim of the JWT passes during the run (zero: validity of hours)
}

type model struct {
	epoch    int
	cur      map[string]*entry // subject DID -> its latest accepted entry of this epoch
	byJTI    map[string]*entry // every accepted presentation, all epochs
	rejected map[string]string // jti of refused presentations -> defect class
	maxTS    int
	seed     string
	seeds    map[string]int // every seed seen -> epoch
	n        int
	pending  [][]*entry // accepted, timestamp not yet observed: groups in acceptance order (a group = concurrent, order unknown)
}

func newModel() *model {
	return &model{cur: map[string]*entry{}, byJTI: map[string]*entry{}, rejected: map[string]string{}, seeds: map[string]int{}}
}

func (m *model) accept(subject, jti string, retraction bool) *entry {
	if old := m.cur[subject]; old != nil {
		old.current = false
	}
	m.n++
	e := &entry{subject: subject, jti: jti, retraction: retraction, epoch: m.epoch, current: true, seq: m.n}
	m.cur[subject] = e
	m.byJTI[jti] = e
	return e
}

func (m *model) reset() {
	for _, e := range m.cur {
		e.current = false
	}
	m.epoch++
	m.cur = map[string]*entry{}
	m.maxTS = 0
	m.seed = ""
	m.pending = nil
}

// successorExpired: e was replaced, and a later entry of its subject (a refresh or a retraction) expired. If that happened
// before a client fetched the successor, the server has pruned the only trace of e having been replaced.
func (m *model) successorExpired(e *entry) bool {
	if e.current || e.epoch != m.epoch {
		return false
	}
	for _, o := range m.byJTI {
		if o.subject == e.subject && o.epoch == e.epoch && o.seq > e.seq && o.aged {
			return true
		}
	}
	return false
}

// live returns the jtis of the live entries: latest per subject, not retracted, not expired.
func (m *model) live(forClient bool) []string {
	var out []string
	for _, e := range m.cur {
		if e.retraction || e.aged || (forClient && (e.unverifiable || (e.dep != nil && e.dep.down))) {
			continue
		}
		out = append(out, e.jti)
	}
	sort.Strings(out)
	return out
}

// ---- HTTP helpers ---------------------------------------------------------------------------------------------

var tim = map[string]time.Duration{}
var timMu sync.Mutex

func track(name string) func() {
	t0 := time.Now()
	return func() { timMu.Lock(); tim[name] += time.Since(t0); timMu.Unlock() }
}

func (w *world) post(svc string, body any) node.Resp {
	defer track("post")()
	data, _ := json.Marshal(body)
	resp, err := node.Do("POST", w.s.Public+"/discovery/"+svc, data, map[string]string{"Content-Type": "application/json"})
	if err != nil {
		w.r.Fatalf("POST registration: %v", err)
	}
	return resp
}

type listed struct {
	ts         int
	jti        string
	signer     string
	retraction bool
	jwt        bool
}

type listing struct {
	seed    string
	ts      int
	entries []listed
}

func (w *world) getList(base, svc string, after int) listing {
	defer track("getList")()
	resp, err := node.Do("GET", fmt.Sprintf("%s/discovery/%s?timestamp=%d", base, svc, after), nil, nil)
	if err != nil || resp.Status != 200 {
		w.r.Fatalf("GET list: %v %s", err, resp)
	}
	var raw struct {
		Entries   map[string]json.RawMessage `json:"entries"`
		Seed      string                     `json:"seed"`
		Timestamp int                        `json:"timestamp"`
	}
	if err := resp.JSON(&raw); err != nil {
		w.r.Fatalf("GET list: %v in %s", err, resp)
	}
	l := listing{seed: raw.Seed, ts: raw.Timestamp}
	for k, v := range raw.Entries {
		ts, err := strconv.Atoi(k)
		if err != nil {
			w.violation("C16/server/entry-key-not-a-timestamp", "entry key "+k, nil)
			continue
		}
		it := listed{ts: ts}
		var tok string
		if json.Unmarshal(v, &tok) == nil {
			if hdr, claims, ok := jwtParts(tok); ok {
				it.jwt = true
				it.jti, _ = claims["jti"].(string)
				kid, _ := hdr["kid"].(string)
				it.signer = strings.SplitN(kid, "#", 2)[0]
				if vp, ok := claims["vp"].(map[string]any); ok {
					it.retraction = strings.Contains(fmt.Sprint(vp["type"]), "RetractedVerifiablePresentation")
				}
			}
		} else {
			var obj map[string]any
			_ = json.Unmarshal(v, &obj)
			it.jti, _ = obj["id"].(string)
		}
		l.entries = append(l.entries, it)
	}
	sort.Slice(l.entries, func(i, j int) bool { return l.entries[i].ts < l.entries[j].ts })
	return l
}

type found struct {
	id      string
	subject string
}

func (w *world) search(n *node.Node, svc string, query string) []found {
	defer track("search")()
	u := n.Internal + "/internal/discovery/v1/" + svc
	if query != "" {
		u += "?" + query
	}
	resp, err := node.Do("GET", u, nil, nil)
	if err != nil || resp.Status != 200 {
		w.r.Fatalf("search: %v %s", err, resp)
	}
	var out []struct {
		ID      string `json:"id"`
		Subject string `json:"credential_subject_id"`
	}
	if err := resp.JSON(&out); err != nil {
		w.r.Fatalf("search: %v in %s", err, resp)
	}
	var res []found
	for _, o := range out {
		res = append(res, found{o.ID, o.Subject})
	}
	sort.Slice(res, func(i, j int) bool { return res[i].id < res[j].id })
	return res
}

func (w *world) vpVerifies(tok string) (bool, string) {
	defer track("vpVerifies")()
	resp, err := node.Do("POST", w.s.Internal+"/internal/vcr/v2/verifier/vp", map[string]any{"verifiablePresentation": tok}, nil)
	if err != nil {
		return false, err.Error()
	}
	var out struct {
		Validity bool   `json:"validity"`
		Message  string `json:"message"`
	}
	if resp.Status != 200 || resp.JSON(&out) != nil {
		return false, resp.String()
	}
	return out.Validity, out.Message
}

// ---- reporting -------------------------------------------------------------------------------------------------

func (w *world) note(format string, args ...any) {
	w.log = append(w.log, fmt.Sprintf("w%d.h%d: ", w.id, w.ctx.idx)+fmt.Sprintf(format, args...))
	if len(w.log) > 120 {
		w.log = w.log[len(w.log)-120:]
	}
}

func short(jti string) string {
	if i := strings.LastIndex(jti, "#"); i >= 0 {
		return jti[i+1:]
	}
	return jti
}

func (w *world) violation(key, what string, extra map[string]any) {
	wit := map[string]any{"world": w.id, "history": w.ctx.idx, "events": append([]string{}, w.log...)}
	for k, v := range extra {
		wit[k] = v
	}
	w.r.Violation(key, what, wit)
}

// ---- server-side oracle ----------------------------------------------------------------------------------------

// checkServer compares S's list (GET after 0, GET after a random timestamp, S's own search) with the model.
// It runs at quiescent points only (no request in flight).
func (w *world) checkServer(step string, full bool) {
	m := w.m
	l := w.getList(w.s.Public, w.svc, 0)
	w.r.Count("server_list_reads", 1)
	byJTI := map[string]listed{}
	perSubject := map[string][]string{}
	for _, it := range l.entries {
		if !it.jwt {
			w.violation("C16/server/non-jwt-presentation-listed", "entry "+it.jti+" is not a JWT presentation ("+step+")", nil)
		}
		byJTI[it.jti] = it
		perSubject[it.signer] = append(perSubject[it.signer], short(it.jti))
	}
	// timestamps of newly accepted entries: strictly increasing in acceptance order, above everything handed out before
	for _, group := range m.pending {
		var tss []int
		for _, e := range group {
			it, ok := byJTI[e.jti]
			if !ok {
				if e.current && !e.maybeExpired() {
					w.violation("C16/server/entry-missing", fmt.Sprintf("accepted presentation %s is not on the list (%s)", short(e.jti), step), nil)
				}
				continue
			}
			e.ts = it.ts
			tss = append(tss, it.ts)
			w.r.Count("timestamps_observed", 1)
		}
		sort.Ints(tss)
		for i, ts := range tss {
			if ts <= m.maxTS || (i > 0 && ts == tss[i-1]) {
				w.violation("C16/timestamp/not-strictly-increasing", fmt.Sprintf("timestamp %d handed out after %d (%s)", ts, m.maxTS, step), map[string]any{"group": tss})
			}
		}
		if len(tss) > 0 && tss[len(tss)-1] > m.maxTS {
			m.maxTS = tss[len(tss)-1]
		}
	}
	m.pending = nil
	// seed discipline
	if l.seed != m.seed {
		if m.seed == "" {
			if ep, seen := m.seeds[l.seed]; seen && ep != m.epoch {
				w.violation("C16/server/seed-reused", "the seed after a reset equals an earlier seed", nil)
			}
			m.seed = l.seed
			m.seeds[l.seed] = m.epoch
			w.r.Distinct("seeds", l.seed)
		} else {
			w.violation("C16/server/seed-changed-without-reset", fmt.Sprintf("seed %q became %q (%s)", m.seed, l.seed, step), nil)
			m.seed = l.seed
		}
	}
	if l.ts != m.maxTS {
		w.r.Unspecified("response-timestamp-differs-from-latest-entry")
	}
	// list == model
	for _, it := range l.entries {
		e := m.byJTI[it.jti]
		switch {
		case e == nil:
			if class, ok := m.rejected[it.jti]; ok {
				w.violation("C16/server/refused-presentation-listed/"+class, fmt.Sprintf("presentation %s was refused but is on the list (%s)", short(it.jti), step), nil)
			} else {
				w.violation("C16/server/unknown-entry", fmt.Sprintf("entry %s at %d was never registered (%s)", short(it.jti), it.ts, step), nil)
			}
		case !e.current || e.epoch != m.epoch:
			w.violation("C16/server/superseded-entry-listed", fmt.Sprintf("entry %s at %d is not the latest of its subject (%s)", short(it.jti), it.ts, step), nil)
		case e.ts != it.ts:
			w.violation("C16/server/timestamp-of-entry-changed", fmt.Sprintf("entry %s listed at %d, was handed out %d (%s)", short(it.jti), it.ts, e.ts, step), nil)
		case e.aged:
			w.r.Unspecified("expired-entry-still-served-until-pruned")
		}
		if e != nil && (e.subject != it.signer || e.retraction != it.retraction) {
			w.violation("C16/server/entry-differs", fmt.Sprintf("entry %s differs from what was registered (%s)", short(it.jti), step), nil)
		}
	}
	for subj, js := range perSubject {
		if len(js) > 1 {
			w.violation("C16/server/two-entries-per-subject", fmt.Sprintf("%d entries for one subject: %v (%s)", len(js), js, step), map[string]any{"subject": subj})
		}
	}
	for _, e := range m.cur {
		if _, ok := byJTI[e.jti]; !ok && !e.aged && e.ts != 0 && !e.maybeExpired() {
			w.violation("C16/server/entry-missing", fmt.Sprintf("entry %s (ts %d) of the model is not on the list (%s)", short(e.jti), e.ts, step), nil)
		}
	}
	// everything after a random timestamp
	if m.maxTS > 0 && w.rnd.Intn(3) == 0 {
		after := w.rnd.Intn(m.maxTS + 1)
		l2 := w.getList(w.s.Public, w.svc, after)
		w.r.Count("server_list_reads", 1)
		got := map[string]bool{}
		for _, it := range l2.entries {
			got[it.jti] = true
			if it.ts <= after {
				w.violation("C16/server/get-after-timestamp-returns-older", fmt.Sprintf("GET after %d returned the entry at %d (%s)", after, it.ts, step), nil)
			}
		}
		for _, e := range m.cur {
			if e.ts > after && !e.aged && !got[e.jti] && !e.maybeExpired() {
				w.violation("C16/server/get-after-timestamp-misses-entry", fmt.Sprintf("GET after %d lacks the entry at %d (%s)", after, e.ts, step), nil)
			}
		}
	}
	// S's own search
	if full || w.rnd.Intn(2) == 0 {
		w.compareSearch(w.s, "server", "", m.live(false), step)
	}
}

// compareSearch compares a node's search result with the expected live set (exact).
func (w *world) compareSearch(n *node.Node, who, query string, want []string, step string) bool {
	res := w.search(n, w.svc, query)
	w.r.Count(who+"_searches", 1)
	wantSet := map[string]bool{}
	for _, j := range want {
		wantSet[j] = true
	}
	ok := true
	seenSubject := map[string]string{}
	for _, f := range res {
		if prev, dup := seenSubject[f.subject]; dup {
			ok = false
			w.violation("C16/"+who+"/search-two-entries-per-subject", fmt.Sprintf("search returns %s and %s for one subject (%s)", short(prev), short(f.id), step), nil)
		}
		seenSubject[f.subject] = f.id
		if wantSet[f.id] {
			delete(wantSet, f.id)
			continue
		}
		ok = false
		w.violation(w.classifyExtra(who, f.id), fmt.Sprintf("%s search returns %s which is not live in the reference list (%s)", who, short(f.id), step), map[string]any{"query": query})
	}
	for j := range wantSet {
		key := "C16/" + who + "/search-misses-entry"
		if who == "client" {
			key = "C16/convergence/entry-missing" + w.ctxSuffix()
		}
		e := w.m.byJTI[j]
		if e.maybeExpired() {
			// short-lived for real and at (or past) its last second: the run has not yet waited for its expiry to be certain
			w.r.Unspecified("short-lived-entry-around-its-expiry")
			continue
		}
		ok = false
		w.violation(key, fmt.Sprintf("%s search lacks live entry %s (ts %d) (%s)", who, short(j), e.ts, step), map[string]any{"query": query})
	}
	return ok
}

func (w *world) ctxSuffix() string {
	switch {
	case w.ctx.hadReset:
		return "/after-seed-change"
	case w.ctx.hadRace:
		return "/after-racing-poll"
	}
	return ""
}

func (w *world) classifyExtra(who, jti string) string {
	e := w.m.byJTI[jti]
	switch {
	case e == nil:
		if class, ok := w.m.rejected[jti]; ok {
			return "C16/" + who + "/search-returns-refused/" + class
		}
		return "C16/" + who + "/search-returns-unknown"
	case e.retraction:
		return "C16/" + who + "/search-returns-retraction"
	case e.aged:
		return "C16/" + who + "/search-returns-expired"
	case who == "client" && (e.unverifiable || (e.dep != nil && (e.dep.down || !e.seenUp))):
		return "C16/client/search-returns-unverified"
	case e.epoch != w.m.epoch:
		return "C16/" + who + "/search-returns-entry-of-old-seed"
	case !e.current && who == "client" && w.m.successorOffered(e):
		return "C16/convergence/superseded-entry-kept/successor-offered-to-poll"
	case !e.current && who == "client" && w.m.successorExpired(e):
		return "C16/convergence/superseded-entry-kept/successor-expired-before-poll"
	case !e.current:
		return "C16/" + who + "/search-returns-superseded"
	}
	return "C16/" + who + "/search-returns-extra"
}

// ---- client side --------------------------------------------------------------------------------------------

// ageOnClient applies virtual time to C's copy: entries that expired in the model expire in C's table too.
func (w *world) ageOnClient() {
	past := time.Now().Add(-time.Hour).Unix()
	// every expired presentation of the current seed, also one that was replaced meanwhile: C may hold it or fetch it late
	for _, e := range w.m.byJTI {
		if e.aged && e.epoch == w.m.epoch {
			w.cdb.Exec("UPDATE discovery_presentation SET presentation_expiration = ? WHERE service_id = ? AND presentation_id = ? AND presentation_expiration > ?", past, w.svc, e.jti, past)
		}
	}
}

// poll: one pass of C's background routine (full), or only its updater for the service (as after an activation).
func (w *world) poll(step string, full bool) {
	defer track("poll")()
	w.beforeClientPass()
	offer := w.offerToClient()
	var err error
	if full {
		err = discovery.VerifClientRefresh(w.cm)
		w.r.Count("polls_full_pass", 1)
	} else {
		err = discovery.VerifClientUpdate(w.cm, w.svc)
	}
	w.r.Count("polls", 1)
	if err != nil {
		w.r.Unspecified("poll-returned-error")
		w.note("poll error: %v", err)
	} else {
		w.markOffered(offer)
	}
	w.cPolledEpoch = w.m.epoch
	w.ageOnClient()
}

// checkClientSound: at an arbitrary point C may be stale, but whatever its search returns must be a presentation that
// was accepted by S, that C could verify, that is not expired, at most one per subject, and - once C has polled after a
// reset - of the current seed.
func (w *world) checkClientSound(step string) {
	res := w.search(w.c, w.svc, "")
	w.r.Count("client_searches", 1)
	seen := map[string]bool{}
	for _, f := range res {
		e := w.m.byJTI[f.id]
		bad := ""
		switch {
		case e == nil:
			bad = w.classifyExtra("client", f.id)
		case e.retraction, e.aged, e.cannotHaveVerified():
			bad = w.classifyExtra("client", f.id)
		case e.epoch != w.m.epoch && w.cPolledEpoch == w.m.epoch:
			bad = "C16/client/search-returns-entry-of-old-seed"
		case !e.current && w.m.successorOffered(e):
			// C may be stale, but not about a replacement that a completed poll of its own was handed
			bad = w.classifyExtra("client", f.id)
		}
		if seen[f.subject] {
			bad = "C16/client/search-two-entries-per-subject"
		}
		seen[f.subject] = true
		if bad != "" {
			w.violation(bad, fmt.Sprintf("client search returns %s (%s)", short(f.id), step), nil)
		}
	}
}

// converge: at quiescence, at most two polls, then C's search must equal the live set exactly.
func (w *world) converge(step string) {
	w.poll(step, true)
	first := fmt.Sprint(ids(w.search(w.c, w.svc, ""))) == fmt.Sprint(w.m.live(true))
	w.poll(step, true)
	ok := w.compareSearch(w.c, "client", "", w.m.live(true), step)
	ok = w.compareSearch(w.c, "client", "credentialSubject.organization.name=Org*", w.m.live(true), step+"/query") && ok
	w.r.Count("final_set_comparisons", 1)
	if ok {
		w.r.Count("final_sets_equal", 1)
		if first {
			w.r.Count("converged_after_one_poll", 1)
		} else {
			w.r.Count("converged_after_two_polls", 1)
		}
	} else {
		// resynchronise so that one divergence is reported once: C starts over from an empty copy
		w.cdb.Exec("DELETE FROM discovery_presentation WHERE service_id = ?", w.svc)
		w.cdb.Exec("UPDATE discovery_service SET seed = '', last_lamport_timestamp = 0 WHERE id = ?", w.svc)
		w.poll(step+"/resync", true)
	}
	w.r.Case(fmt.Sprintf("converge/w%d/h%d/%s/%d", w.id, w.ctx.idx, step, len(w.m.live(true))), len(w.m.cur) > 0)
}

func ids(fs []found) []string {
	out := make([]string, 0, len(fs))
	for _, f := range fs {
		out = append(out, f.id)
	}
	sort.Strings(out)
	return out
}

// ---- events ----------------------------------------------------------------------------------------------------

func (w *world) liveSubjects() []*subject {
	var out []*subject
	for _, s := range w.subj {
		if e := w.m.cur[s.h.DID]; e != nil && !e.retraction && !e.aged {
			out = append(out, s)
		}
	}
	return out
}

// register posts a valid presentation for s (registration or refresh) and updates the model.
func (w *world) register(s *subject, p vpSpec, kind string) *entry {
	tok, jti := w.signVP(p)
	resp := w.post(w.svc, tok)
	w.r.Count("events_"+kind, 1)
	w.note("%s %s -> %s: %d", kind, s.name, short(jti), resp.Status)
	if resp.Status != 201 {
		w.violation("C16/register/valid-refused/"+kind, fmt.Sprintf("valid %s refused: %s", kind, resp), map[string]any{"presentation": tok})
		return nil
	}
	e := w.m.accept(s.h.DID, jti, p.retraction)
	w.m.pending = append(w.m.pending, []*entry{e})
	w.tokens[jti] = tok
	return e
}

func (w *world) evRegister(s *subject) {
	kind := "register"
	if e := w.m.cur[s.h.DID]; e != nil && !e.retraction && !e.aged {
		kind = "refresh"
	}
	w.register(s, w.validSpec(s), kind)
}

func (w *world) retractSpec(s *subject, jti string) vpSpec {
	return vpSpec{signer: s.h, aud: []string{w.svc}, exp: time.Now().Add(time.Hour), retraction: true, retractJTI: jti}
}

func (w *world) evRetract(s *subject) {
	e := w.m.cur[s.h.DID]
	w.register(s, w.retractSpec(s, e.jti), "retract")
}

func (w *world) evExpire(s *subject) {
	e := w.m.cur[s.h.DID]
	past := time.Now().Add(-time.Hour).Unix()
	res := w.sdb.Exec("UPDATE discovery_presentation SET presentation_expiration = ? WHERE service_id = ? AND presentation_id = ?", past, w.svc, e.jti)
	if res.Error != nil {
		w.r.Fatalf("ageing %s: %v", short(e.jti), res.Error)
	}
	if res.RowsAffected != 1 {
		// the server does not hold the entry the model holds (reported by checkServer as entry-missing): nothing to age
		w.note("expire %s: no such row on the server", short(e.jti))
		return
	}
	e.aged = true
	w.ageOnClient()
	w.ctx.hadExpire = true
	w.r.Count("events_expire", 1)
	w.note("expire %s (%s)", s.name, short(e.jti))
}

func (w *world) evReset() {
	if err := w.sdb.Exec("DELETE FROM discovery_presentation WHERE service_id = ?", w.svc).Error; err != nil {
		w.r.Fatalf("reset: %v", err)
	}
	if err := w.sdb.Exec("UPDATE discovery_service SET seed = '', last_lamport_timestamp = 0 WHERE id = ?", w.svc).Error; err != nil {
		w.r.Fatalf("reset: %v", err)
	}
	w.m.reset()
	w.ctx.hadReset = true
	w.r.Count("events_server_reset", 1)
	w.note("server reset (epoch %d)", w.m.epoch)
}

// evPlant: S accepts a registration whose credential is revoked right afterwards, before C has seen it.
func (w *world) evPlant(s *subject) {
	idx := 3 + w.rnd.Intn(100)
	u, set := w.newList(idx, false)
	cred := w.mkCred(s.h.DID, credOpts{statusList: u, statusIdx: idx})
	p := w.validSpec(s)
	p.creds = []json.RawMessage{cred}
	e := w.register(s, p, "plant-unverifiable")
	if e == nil {
		return
	}
	set(true)
	e.unverifiable = true
	w.ctx.hadPlant = true
}

// evBurst: several subjects register concurrently, unsteered.
func (w *world) evBurst() {
	perm := w.rnd.Perm(len(w.subj))
	k := 2 + w.rnd.Intn(3)
	type job struct {
		s   *subject
		tok string
		jti string
	}
	var jobs []job
	for _, i := range perm[:k] {
		tok, jti := w.signVP(w.validSpec(w.subj[i]))
		jobs = append(jobs, job{w.subj[i], tok, jti})
	}
	status := make([]node.Resp, k)
	var wg sync.WaitGroup
	for i := range jobs {
		wg.Add(1)
		go func(i int) { defer wg.Done(); status[i] = w.post(w.svc, jobs[i].tok) }(i)
	}
	wg.Wait()
	var group []*entry
	for i, j := range jobs {
		w.note("burst %s -> %s: %d", j.s.name, short(j.jti), status[i].Status)
		if status[i].Status != 201 {
			w.violation("C16/register/valid-refused/concurrent", fmt.Sprintf("valid concurrent registration refused: %s", status[i]), nil)
			continue
		}
		group = append(group, w.m.accept(j.s.h.DID, j.jti, false))
		w.tokens[j.jti] = j.tok
	}
	w.m.pending = append(w.m.pending, group)
	w.r.Count("events_burst", 1)
	w.r.Count("events_register_concurrent", len(group))
}

// evRace: C polls while k subjects register / refresh / retract; everything parks (the poll between the server's
// timestamp read and row read), a seeded scheduler decides who goes first. Registrations released before the poll
// fall into the window, the others follow the poll.
func (w *world) evRace(pre bool) {
	defer track("race")()
	w.ctx.hadRace = true
	if pre && w.rnd.Intn(10) < 7 {
		// something C has not seen yet, so that the poll has entries to store
		w.evRegister(w.subj[w.rnd.Intn(len(w.subj))])
	}
	k := 1 + w.rnd.Intn(2)
	perm := w.rnd.Perm(len(w.subj))
	type job struct {
		s    *subject
		tok  string
		jti  string
		kind string
		retr bool
		resp node.Resp
	}
	jobs := make([]*job, k)
	for i := 0; i < k; i++ {
		s := w.subj[perm[i]]
		e := w.m.cur[s.h.DID]
		j := &job{s: s, kind: "register"}
		if e != nil && !e.retraction && !e.aged {
			j.kind = "refresh"
			if w.rnd.Intn(3) == 0 {
				j.kind, j.retr = "retract", true
			}
		}
		if j.retr {
			j.tok, j.jti = w.signVP(w.retractSpec(s, e.jti))
		} else {
			j.tok, j.jti = w.signVP(w.validSpec(s))
		}
		jobs[i] = j
	}
	ep := sched.Begin(sched.Options{Actors: k + 1, Rand: rand.New(rand.NewSource(w.rnd.Int63())), Stall: 10 * time.Second,
		Watch: func(point string, args []any) bool {
			if point == hookBetween {
				return len(args) > 0 && args[0] == w.svc
			}
			return strings.HasPrefix(point, "c16.reg")
		}})
	var wg sync.WaitGroup
	var pollErr error
	w.beforeClientPass()
	wg.Add(1)
	go func() {
		defer wg.Done()
		defer ep.ActorDone()
		pollErr = discovery.VerifClientUpdate(w.cm, w.svc)
	}()
	for i := range jobs {
		wg.Add(1)
		go func(i int) {
			defer wg.Done()
			defer ep.ActorDone()
			verifhook.Point(fmt.Sprintf("c16.reg%d", i))
			jobs[i].resp = w.post(w.svc, jobs[i].tok)
		}(i)
	}
	done := make(chan struct{})
	go func() { wg.Wait(); close(done) }()
	select {
	case <-done:
	case <-time.After(2 * time.Minute):
		ep.End()
		w.r.Inconclusive("racing episode did not finish")
		<-done
		return
	}
	stalls := ep.Stalls
	raw := ep.End()
	w.r.Count("polls", 1)
	w.r.Count("polls_racing", 1)
	if pollErr != nil {
		w.r.Unspecified("poll-returned-error")
		w.note("racing poll error: %v", pollErr)
	}
	// interleaving as the sequence of released points (actor letters depend on arrival order, drop them)
	var order []string
	inWindow := 0
	pollSeen := false
	for _, step := range strings.Fields(raw) {
		p := step[strings.Index(step, ":")+1:]
		if p == hookBetween {
			pollSeen = true
			order = append(order, "POLL")
			continue
		}
		i, _ := strconv.Atoi(strings.TrimPrefix(p, "c16.reg"))
		order = append(order, jobs[i].kind)
		if !pollSeen {
			inWindow++
		}
		j := jobs[i]
		w.note("race %s %s -> %s: %d", j.kind, j.s.name, short(j.jti), j.resp.Status)
		if j.resp.Status != 201 {
			w.violation("C16/register/valid-refused/racing-"+j.kind, fmt.Sprintf("valid %s racing a poll refused: %s", j.kind, j.resp), nil)
			continue
		}
		e := w.m.accept(j.s.h.DID, j.jti, j.retr)
		w.m.pending = append(w.m.pending, []*entry{e})
		w.tokens[j.jti] = j.tok
		w.r.Count("events_"+j.kind+"_racing", 1)
	}
	inter := strings.Join(order, ">")
	if !pollSeen || stalls > 0 || len(order) != k+1 {
		w.r.Count("race_episodes_not_steered", 1)
		inter = "unsteered:" + inter
	} else {
		if w.id < 2 && w.r.Get("race_episodes_steered") < 2 {
			w.r.Sample(map[string]any{"world": w.id, "racing_episode": inter, "registrations_in_window": inWindow})
		}
		w.r.Count("race_episodes_steered", 1)
		w.r.Count("registrations_inside_get_window", inWindow)
		w.r.Distinct("interleavings", inter)
	}
	w.note("race interleaving %s", inter)
	w.cPolledEpoch = w.m.epoch
	w.ageOnClient()
	w.r.Case("race/"+inter, pollSeen && inWindow > 0)
}

// ---- defective registrations -------------------------------------------------------------------------------------

type defect struct {
	class string
	// build returns the request body (JWT string or JSON object), the jti (may be empty) and the service to post to;
	// ok=false when not applicable in the current state. calibrate: the presentation as such must verify at S (its only defect is service-specific).
	build     func(w *world) (body any, jti string, ok bool)
	calibrate bool
}

func (w *world) anySubject() *subject { return w.subj[w.rnd.Intn(len(w.subj))] }

func defects() []defect {
	str := func(tok, jti string) (any, string, bool) { return tok, jti, true }
	return append([]defect{
		{class: "json-ld-format", build: func(w *world) (any, string, bool) {
			s := w.anySubject()
			id := fmt.Sprintf("%s#ld-%d", s.h.DID, w.nextID())
			now := time.Now()
			return map[string]any{"@context": []string{"https://www.w3.org/2018/credentials/v1", "https://w3c-ccg.github.io/lds-jws2020/contexts/lds-jws2020-v1.json"},
				"id": id, "type": []string{"VerifiablePresentation"}, "holder": s.h.DID, "verifiableCredential": []json.RawMessage{s.cred},
				"proof": map[string]any{"type": "JsonWebSignature2020", "created": now.Format(time.RFC3339), "expires": now.Add(time.Hour).Format(time.RFC3339), "domain": w.svc,
					"challenge": "c", "proofPurpose": "assertionMethod", "verificationMethod": s.h.KID, "jws": "eyJhbGciOiJFUzI1NiIsImI2NCI6ZmFsc2UsImNyaXQiOlsiYjY0Il19..AAAA"}}, id, true
		}},
		{class: "no-id", build: func(w *world) (any, string, bool) {
			p := w.validSpec(w.anySubject())
			p.noJTI = true
			return str(w.signVP(p))
		}},
		{class: "audience-of-other-service", calibrate: true, build: func(w *world) (any, string, bool) {
			p := w.validSpec(w.anySubject())
			p.aud = []string{w.open}
			return str(w.signVP(p))
		}},
		{class: "audience-missing", calibrate: true, build: func(w *world) (any, string, bool) {
			p := w.validSpec(w.anySubject())
			p.aud = nil
			return str(w.signVP(p))
		}},
		{class: "audience-is-url-not-id", calibrate: true, build: func(w *world) (any, string, bool) {
			p := w.validSpec(w.anySubject())
			p.aud = []string{w.s.Public + "/discovery/" + w.svc, "https://example.com"}
			return str(w.signVP(p))
		}},
		{class: "validity-exceeds-max", calibrate: true, build: func(w *world) (any, string, bool) {
			p := w.validSpec(w.anySubject())
			p.exp = time.Now().Add(maxValidity + time.Duration(120+w.rnd.Intn(7200))*time.Second)
			return str(w.signVP(p))
		}},
		{class: "no-expiry", build: func(w *world) (any, string, bool) {
			p := w.validSpec(w.anySubject())
			p.noExp = true
			return str(w.signVP(p))
		}},
		{class: "already-expired", build: func(w *world) (any, string, bool) {
			p := w.validSpec(w.anySubject())
			p.exp = time.Now().Add(-2 * time.Minute)
			return str(w.signVP(p))
		}},
		{class: "outlives-credential", calibrate: true, build: func(w *world) (any, string, bool) {
			s := w.anySubject()
			p := w.validSpec(s)
			p.creds = []json.RawMessage{w.mkCred(s.h.DID, credOpts{exp: time.Now().Add(20 * time.Minute)})}
			p.exp = time.Now().Add(40 * time.Minute)
			return str(w.signVP(p))
		}},
		{class: "did-method-not-allowed", calibrate: true, build: func(w *world) (any, string, bool) {
			return str(w.signVP(w.validSpec(w.keySubj)))
		}},
		{class: "surplus-credential-same-type", calibrate: true, build: func(w *world) (any, string, bool) {
			s := w.anySubject()
			p := w.validSpec(s)
			p.creds = []json.RawMessage{s.cred, w.mkCred(s.h.DID, credOpts{})}
			return str(w.signVP(p))
		}},
		{class: "surplus-credential-other-type", build: func(w *world) (any, string, bool) {
			s := w.anySubject()
			p := w.validSpec(s)
			p.creds = []json.RawMessage{s.cred, w.mkCred(s.h.DID, credOpts{typ: "NutsEmployeeCredential"})}
			return str(w.signVP(p))
		}},
		{class: "no-credentials", calibrate: true, build: func(w *world) (any, string, bool) {
			p := w.validSpec(w.anySubject())
			p.creds = nil
			return str(w.signVP(p))
		}},
		{class: "credential-of-other-type-only", build: func(w *world) (any, string, bool) {
			s := w.anySubject()
			p := w.validSpec(s)
			p.creds = []json.RawMessage{w.mkCred(s.h.DID, credOpts{typ: "NutsEmployeeCredential"})}
			return str(w.signVP(p))
		}},
		{class: "bad-presentation-signature", build: func(w *world) (any, string, bool) {
			tok, jti := w.signVP(w.validSpec(w.anySubject()))
			return tamperSig(tok), jti, true
		}},
		{class: "signed-by-other-key", build: func(w *world) (any, string, bool) {
			// kid and iss name subject A, the signature is B's
			a, b := w.subj[0], w.subj[1]
			tok, jti := w.signVP(w.validSpec(a))
			hdr, claims, _ := jwtParts(tok)
			return b.h.SignJWT(hdr, claims), jti, true
		}},
		{class: "bad-credential-signature", build: func(w *world) (any, string, bool) {
			s := w.anySubject()
			var c string
			_ = json.Unmarshal(s.cred, &c)
			bad, _ := json.Marshal(tamperSig(c))
			p := w.validSpec(s)
			p.creds = []json.RawMessage{bad}
			return str(w.signVP(p))
		}},
		{class: "revoked-credential", build: func(w *world) (any, string, bool) {
			s := w.anySubject()
			idx := 3 + w.rnd.Intn(100)
			u, _ := w.newList(idx, true)
			p := w.validSpec(s)
			p.creds = []json.RawMessage{w.mkCred(s.h.DID, credOpts{statusList: u, statusIdx: idx})}
			return str(w.signVP(p))
		}},
		{class: "retraction-by-non-owner", build: func(w *world) (any, string, bool) {
			live := w.liveSubjects()
			if len(live) == 0 {
				return nil, "", false
			}
			victim := live[w.rnd.Intn(len(live))]
			var other *subject
			for _, s := range w.subj {
				if s != victim {
					other = s
					if w.rnd.Intn(2) == 0 {
						break
					}
				}
			}
			return str(w.signVP(w.retractSpec(other, w.m.cur[victim.h.DID].jti)))
		}},
		{class: "retraction-with-credentials", build: func(w *world) (any, string, bool) {
			live := w.liveSubjects()
			if len(live) == 0 {
				return nil, "", false
			}
			s := live[w.rnd.Intn(len(live))]
			p := w.retractSpec(s, w.m.cur[s.h.DID].jti)
			p.creds = []json.RawMessage{s.cred}
			return str(w.signVP(p))
		}},
		{class: "retraction-of-unknown-id", build: func(w *world) (any, string, bool) {
			s := w.anySubject()
			return str(w.signVP(w.retractSpec(s, s.h.DID+"#vp-never-registered")))
		}},
		{class: "retraction-of-superseded-id", build: func(w *world) (any, string, bool) {
			// the subject's own earlier presentation that a refresh replaced
			var pick *entry // the most recent one (map order must not decide)
			for _, e := range w.m.byJTI {
				if !e.current && e.epoch == w.m.epoch && !e.retraction && (pick == nil || e.seq > pick.seq) {
					pick = e
				}
			}
			if pick != nil {
				for _, s := range w.subj {
					if s.h.DID == pick.subject {
						return str(w.signVP(w.retractSpec(s, pick.jti)))
					}
				}
			}
			return nil, "", false
		}},
		{class: "retraction-without-retract-jti", build: func(w *world) (any, string, bool) {
			live := w.liveSubjects()
			if len(live) == 0 {
				return nil, "", false
			}
			p := w.retractSpec(live[0], "")
			p.noRetract = true
			return str(w.signVP(p))
		}},
		{class: "exact-duplicate", build: nil}, // handled in evDefect (needs the stored token)
	}, retractionDefects()...)
}

func (w *world) evDefect(d defect) {
	var body any
	var jti string
	if d.class == "exact-duplicate" {
		live := w.liveSubjects()
		var cand []*subject
		for _, s := range live {
			if w.tokens[w.m.cur[s.h.DID].jti] != "" {
				cand = append(cand, s)
			}
		}
		if len(cand) == 0 {
			return
		}
		s := cand[w.rnd.Intn(len(cand))]
		jti = w.m.cur[s.h.DID].jti
		body = w.tokens[jti]
	} else {
		var ok bool
		body, jti, ok = d.build(w)
		if !ok {
			return
		}
	}
	if d.calibrate {
		if ok, msg := w.vpVerifies(body.(string)); !ok {
			w.r.Fatalf("calibration: presentation of class %s does not verify as such (%s); the class would be refused for another reason", d.class, msg)
		}
	}
	resp := w.post(w.svc, body)
	w.r.Count("defective_registrations", 1)
	w.r.Count("defective_"+d.class, 1)
	w.note("defective %s -> %s: %d", d.class, short(jti), resp.Status)
	w.r.Case("defective/"+d.class+"/"+strconv.Itoa(len(w.m.cur)), true)
	if resp.Status/100 == 2 {
		w.violation("C16/register/defective-accepted/"+d.class, fmt.Sprintf("defective registration (%s) accepted: %s", d.class, resp), map[string]any{"presentation": body})
		// reported; let the model follow the server so that one defect is not reported again by every later comparison
		if tok, isJWT := body.(string); isJWT && jti != "" && d.class != "exact-duplicate" {
			if hdr, claims, ok := jwtParts(tok); ok {
				kid, _ := hdr["kid"].(string)
				vp, _ := claims["vp"].(map[string]any)
				e := w.m.accept(strings.SplitN(kid, "#", 2)[0], jti, strings.Contains(fmt.Sprint(vp["type"]), "RetractedVerifiablePresentation"))
				w.m.pending = append(w.m.pending, []*entry{e})
			}
			return
		}
	} else if resp.Status/100 == 5 {
		w.r.Unspecified("refused-with-5xx/" + d.class)
	}
	if jti != "" && d.class != "exact-duplicate" {
		w.m.rejected[jti] = d.class
	}
}

// ---- the check ----------------------------------------------------------------------------------------------------

func writeDefinitions(dir, endpointBase, svc, open, multi string) error {
	for _, d := range []struct {
		id      string
		methods string
		max     time.Duration
		pd      string
	}{{svc, `"did_methods":["jwk","web"],`, maxValidity, pdJSON}, {open, "", openMaxVal, pdJSON}, {multi, `"did_methods":["jwk"],`, maxValidity, pdMultiJSON}} {
		doc := fmt.Sprintf(`{"id":%q,%s"endpoint":%q,"presentation_max_validity":%d,"presentation_definition":%s}`,
			d.id, d.methods, endpointBase+"/discovery/"+d.id, int(d.max.Seconds()), d.pd)
		if err := os.WriteFile(filepath.Join(dir, d.id+".json"), []byte(doc), 0o644); err != nil {
			return err
		}
	}
	return nil
}

func freeAddr() string {
	l, err := net.Listen("tcp", "127.0.0.1:0")
	if err != nil {
		panic(err)
	}
	defer l.Close()
	return fmt.Sprintf("localhost:%d", l.Addr().(*net.TCPAddr).Port)
}

func TestCheck(t *testing.T) {
	r := ev.Start(t, "C16", "exploration")
	defer r.Finish()
	r.SetRule("cases: seeded histories (~25 events) of register / refresh / retract / expire (SQL ageing) / defective registrations / server resets / client polls on one service of a real server node, " +
		"with a real client node polling it (several independent server/client pairs run their histories in parallel); one case per final-set comparison at quiescence (non-trivial when the list is not empty), " +
		"per defective registration (class x list size) and per racing episode (poll parked between the server's timestamp read and row read while 1-2 registrations are released before or after it; " +
		"distinct by the released order; non-trivial when a registration fell into the window). After every event the server's list (GET after 0, GET after a random timestamp, its search) is compared with the reference model. " +
		"Entries the client cannot verify: registrations whose signer or credential issuer is a did:web identity hosted by the harness are accepted by the server, then the document fails (connection error / 503 until a heal event; 404 / other key for good) " +
		"before the client fetches the entry; one case per unverified-mix scenario (4-6 such entries, revoked-afterwards and verifiable ones stored by the client in a seeded order, on two services, outages ending in two steps; distinct by the order; " +
		"the client's search must return exactly the entries it had a pass to verify). Several credentials: on a third service whose definition asks for three credentials, one case per (per-credential admission clause x index of the offending credential x expiry of its neighbours), " +
		"each next to a control presentation that is accepted; the reference decision follows from the generated credentials. " +
		"Directed resets: the new list's last timestamp is above / equal to / below the timestamp the client stored under the old seed (rotating). " +
		"Real expiry: one case per real-expiry scenario (a subject replaces the entry the client holds by a retraction / refresh valid for 4-6 s and the client polls only after that successor expired for real while the server, which prunes on the next registration only, still hands it out; " +
		"next to a short-lived first registration, short-lived entries fetched while valid and a long-lived refresh, in a seeded order = distinct; non-trivial when the server still served an expired entry). " +
		"Every poll at quiescence is preceded by a GET of what the server answers after the client's timestamp: once such a poll completed, the client must not list an entry whose replacement was in that answer. " +
		"Retraction sweep: every admission clause applicable to a presentation without credentials, violated by an otherwise correct retraction of a live entry (validity beyond the maximum by minutes..years, no / past expiry, audience, id, signature), and the other retraction classes, each followed by a list comparison; controls with the longest allowed and a short validity are accepted.")
	r.Require(r.Pick(150, 1500), r.Pick(60, 300))
	r.Assume("SQLite with a single connection: database transactions are serialised; row-lock behaviour of other engines is not exercised")
	r.Assume("expiry is virtual: presentation_expiration is aged by SQL in the server's table and in the client's copy; the JWT exp claim itself is not in the past")
	r.Assume("did:web documents are served by a transport installed behind the nodes' did:web resolvers (no sockets); an outage is that transport failing the request; faults start and end only while no request is in flight")
	r.Assume("the list of the third service (several credentials) is emptied in both databases after each sweep of 3 cases, to keep the client's periodic re-verification of everything it holds cheap")
	r.Assume("real expiry: the run sleeps until the exp claim (4-6 s) of the short-lived presentations has passed by more than a second; the verdict depends only on that having happened, not on how long anything took")
	r.Assume("a server reset is produced by emptying the service's rows and seed in the server's database (the state of a fresh database); once per server/client pair the server node is really reinstalled on an empty data directory")

	// hosted did:web documents with injectable outages: what every node's did:web resolver is built on (set again before each node starts)
	web := &webHost{docs: map[string]*webDoc{}, orig: client.SafeHttpTransport}
	origTransport := client.DefaultCachingTransport
	defer func() { client.DefaultCachingTransport = origTransport }()

	worlds := r.Pick(4, 8)
	perWorld := r.Pick(8, 50) // 32 / 400 histories
	var ws []*world
	for i := 0; i < worlds; i++ {
		ws = append(ws, newWorld(t, r, i, web))
	}
	phase := func(from, to int) {
		var wg sync.WaitGroup
		for _, w := range ws {
			wg.Add(1)
			go func(w *world) {
				defer wg.Done()
				w.run(from, to)
			}(w)
		}
		wg.Wait()
	}
	phase(0, perWorld/2)
	// Reinstalling a server node writes process-wide settings of the node (one node per process in production): done while
	// every other pair is idle, one pair after the other.
	for _, w := range ws {
		w.ctx = histCtx{idx: perWorld / 2}
		w.evReinstall()
	}
	phase(perWorld/2, perWorld)
	hits, epochs := 0, 0
	for _, w := range ws {
		w.lists.mu.Lock()
		hits += w.lists.hits
		w.lists.mu.Unlock()
		epochs += w.m.epoch + 1
	}
	r.Extra("status_list_fetches_observed", hits)
	r.Extra("server_epochs", epochs)
	r.Extra("worlds", worlds)
	web.mu.Lock()
	r.Extra("did_web_documents_served", web.served)
	r.Extra("did_web_resolutions_failed_by_injection", web.failed)
	webFailed := web.failed
	web.mu.Unlock()
	if webFailed == 0 || r.Get("events_heal") == 0 {
		r.Fatalf("no injected did:web outage was ever hit / healed: the client-side verification cases observed nothing")
	}
	for k, v := range tim {
		r.Extra("wall_s_in_"+k, v.Seconds())
	}
	if r.Get("race_episodes_steered") == 0 || r.Get("registrations_inside_get_window") == 0 {
		r.Fatalf("no registration was steered into the window of get: the hook was never reached")
	}
	if r.Get("really_expired_entries_offered_to_client_polls") == 0 || r.Get("really_expired_entries_still_served") == 0 {
		r.Fatalf("no entry that expired for real was handed to a client poll: the real-expiry scenarios observed nothing")
	}
	if r.Get("defective_retraction-validity-exceeds-max") == 0 || r.Get("retraction_sweep_defects") < 8 {
		r.Fatalf("the retraction sweep posted %d defective retractions: the retraction kind of the admission clauses was not exercised", r.Get("retraction_sweep_defects"))
	}
	if r.Get("scenario_reset_overtake_new_timestamp_equal") == 0 {
		r.Fatalf("no reset was followed by a list whose timestamp equals the client's stored one")
	}
	if hits == 0 {
		r.Fatalf("no status list was ever fetched: revoked / unverifiable cases observed nothing")
	}
}

func (w *world) serverEnv(extra map[string]string) map[string]string {
	env := map[string]string{"NUTS_HTTP_PUBLIC_ADDRESS": w.sAddr, "NUTS_URL": "http://" + w.sAddr, "NUTS_DISCOVERY_SERVER_IDS": w.svc + "," + w.open + "," + w.multi}
	for k, v := range extra {
		env[k] = v
	}
	return env
}

// startNode: the http engine of every starting node replaces the process-wide caching transport; the did:web resolver and
// the status list client of the next node are built from whatever is set when it starts.
func (w *world) startNode(o node.Options) *node.Node {
	client.DefaultCachingTransport = w.web
	return node.Start(w.t, o)
}

func newWorld(t *testing.T, r *ev.Run, id int, web *webHost) *world {
	w := &world{id: id, svc: fmt.Sprintf("c16-svc-%d", id), open: fmt.Sprintf("c16-open-%d", id), multi: fmt.Sprintf("c16-multi-%d", id), t: t, r: r, m: newModel(),
		rnd: r.Rand(fmt.Sprintf("c16-world-%d", id)), issuer: iamflow.NewHolder(), tokens: map[string]string{}, web: web,
		openBad: map[string]string{}, multiCur: map[string]string{}, multiRejected: map[string]string{}}
	dir, err := os.MkdirTemp("", "c16-defs-")
	if err != nil {
		r.Fatalf("tempdir: %v", err)
	}
	t.Cleanup(func() { os.RemoveAll(dir) })
	sAddr := freeAddr()
	w.sAddr = sAddr
	if err := writeDefinitions(dir, "http://"+sAddr, w.svc, w.open, w.multi); err != nil {
		r.Fatalf("definitions: %v", err)
	}
	cfg := "discovery:\n  definitions:\n    directory: " + dir + "\n  client:\n    refresh_interval: 0s\n"
	w.cfg = cfg
	w.s = w.startNode(node.Options{Config: cfg, Env: w.serverEnv(nil)})
	w.c = w.startNode(node.Options{Config: cfg})
	w.sdb = node.Engine[storage.Engine](w.s).GetSQLDatabase()
	w.cdb = node.Engine[storage.Engine](w.c).GetSQLDatabase()
	w.cm = node.Engine[*discovery.Module](w.c)
	if w.sdb == nil || w.cdb == nil || w.cm == nil {
		r.Fatalf("engines not found")
	}
	ln, err := net.Listen("tcp", "127.0.0.1:0")
	if err != nil {
		r.Fatalf("listen: %v", err)
	}
	w.lists = &listServer{lists: map[string]func() string{}, url: "http://" + ln.Addr().String()}
	hs := &http.Server{Handler: w.lists}
	go hs.Serve(ln)
	t.Cleanup(func() { hs.Close() })

	for i := 0; i < 6; i++ {
		h := iamflow.NewHolder()
		sub := &subject{name: fmt.Sprintf("s%d", i), h: h}
		o := credOpts{}
		if i%3 == 2 {
			o.exp = time.Now().Add(72 * time.Hour) // a credential with an expiry beyond every presentation
		}
		sub.cred = w.mkCred(h.DID, o)
		w.subj = append(w.subj, sub)
	}
	kh := newKeyHolder()
	w.keySubj = &subject{name: "key", h: kh}
	w.keySubj.cred = w.mkCred(kh.DID, credOpts{})

	// calibration: the did:key subject and a presentation valid for longer than the service under test allows are accepted by the unrestricted service
	hdr := map[string]string{"Content-Type": "application/json"}
	p := w.validSpec(w.keySubj)
	p.aud = []string{w.open}
	tok, _ := w.signVP(p)
	if resp, _ := node.Do("POST", w.s.Public+"/discovery/"+w.open, mustJSON(tok), hdr); resp.Status != 201 {
		r.Fatalf("calibration: did:key registration on the unrestricted service refused: %s", resp)
	}
	p = w.validSpec(w.subj[0])
	p.aud = []string{w.open}
	p.exp = time.Now().Add(maxValidity + time.Hour)
	tok, _ = w.signVP(p)
	if resp, _ := node.Do("POST", w.s.Public+"/discovery/"+w.open, mustJSON(tok), hdr); resp.Status != 201 {
		r.Fatalf("calibration: long-lived registration on the service that allows it refused: %s", resp)
	}
	if l := w.getList(w.s.Public, w.open, 0); len(l.entries) != 2 {
		r.Fatalf("calibration: unrestricted service lists %d entries, want 2", len(l.entries))
	}
	if l := w.getList(w.s.Public, w.svc, 0); len(l.entries) != 0 {
		w.violation("C16/server/entry-of-other-service-listed", "a registration on another service appears on this service's list", nil)
	}
	// C is not a server for the service: it serves the list by forwarding to S
	if l := w.getList(w.c.Public, w.open, 0); len(l.entries) != 2 {
		r.Fatalf("calibration: client node does not forward list requests: %d entries", len(l.entries))
	}
	return w
}

func (w *world) run(from, to int) {
	r := w.r
	allDefects := defects()
	eventsPer := 25
	defectIdx := w.id*5 + from*3
	for h := from; h < to; h++ {
		w.ctx = histCtx{idx: h}
		var kinds []string
		// directed openings (seeded): a reset overtaken by registrations before the client polls again; a reset with the first registrations racing the poll
		switch {
		case (h+w.id)%5 == 0:
			w.unverifiedMix()
			kinds = append(kinds, "unverified-mix")
		case (h+w.id)%5 == 1 && (h/5)%2 == 0:
			w.realExpiry()
			kinds = append(kinds, "real-expiry")
		case (h+w.id)%5 == 3 && (h/5)%2 == 0:
			w.retractionSweep(allDefects)
			kinds = append(kinds, "retraction-sweep")
		case (h+w.id)%5 == 2:
			w.resetOvertake()
			kinds = append(kinds, "reset-overtake")
		case (h+w.id)%5 == 4:
			w.resetThenRace()
			kinds = append(kinds, "reset-race")
		}
		for e := 0; e < eventsPer; e++ {
			x := w.rnd.Intn(100)
			live := w.liveSubjects()
			kind := ""
			switch {
			case x < 28:
				kind = "register"
				w.evRegister(w.anySubject())
			case x < 38:
				if len(live) > 0 {
					kind = "refresh"
					w.evRegister(live[w.rnd.Intn(len(live))])
				}
			case x < 48:
				if len(live) > 0 {
					kind = "retract"
					w.evRetract(live[w.rnd.Intn(len(live))])
				}
			case x < 55:
				// any current entry may expire: a registration, or (less often) a retraction marker
				var cand []*subject
				for _, s := range w.subj {
					if e := w.m.cur[s.h.DID]; e != nil && !e.aged && e.ts != 0 && (!e.retraction || w.rnd.Intn(3) == 0) {
						cand = append(cand, s)
					}
				}
				if len(cand) > 0 {
					kind = "expire"
					w.evExpire(cand[w.rnd.Intn(len(cand))])
				}
			case x < 69:
				kind = "poll"
				if len(w.healable()) > 0 && w.rnd.Intn(2) == 0 {
					w.evHeal() // an outage ends; only a full pass validates what is already stored
				}
				w.poll("poll", w.rnd.Intn(3) == 0)
				w.note("poll")
				w.checkClientSound(fmt.Sprintf("h%d/e%d", h, e))
			case x < 78:
				kind = "race"
				w.evRace(true)
				w.checkClientSound(fmt.Sprintf("h%d/e%d/race", h, e))
			case x < 81:
				kind = "burst"
				w.evBurst()
			case x < 94:
				kind = "defective"
				d := allDefects[defectIdx%len(allDefects)]
				defectIdx++
				w.evDefect(d)
			case x < 97:
				kind = "plant"
				switch w.rnd.Intn(3) {
				case 0:
					w.evPlant(w.anySubject())
				case 1:
					w.evPlantFault(w.randomPlant(true, nil))
				default:
					w.evPlantFault(w.randomPlant(false, nil))
				}
			default:
				kind = "reset"
				w.evReset()
			}
			if kind == "" {
				continue
			}
			kinds = append(kinds, kind)
			w.checkServer(fmt.Sprintf("h%d/e%d/%s", h, e, kind), kind == "retract" || kind == "expire" || kind == "plant" || kind == "reset" || kind == "defective")
			if kind == "race" && w.rnd.Intn(2) == 0 {
				w.converge(fmt.Sprintf("e%d-after-race", e))
			}
		}
		w.converge("end")
		w.checkServer(fmt.Sprintf("h%d/end", h), true)
		w.multiSweep(3)
		r.Count("histories", 1)
		if h == 0 && w.id < 3 {
			r.Sample(map[string]any{"world": w.id, "history": h, "events": kinds, "live_at_end": len(w.m.live(false)), "entries_at_end": len(w.m.cur), "epoch": w.m.epoch})
		}
	}
}

func mustJSON(v any) []byte { b, _ := json.Marshal(v); return b }

// resetOvertake: the server is reset and receives more registrations than the client's last timestamp before the client polls again.
func (w *world) resetOvertake() {
	// a short-lived seed first, so that the client's timestamp is small
	// the new seed's last timestamp relative to the one the client stored under the old seed: above (0), equal (1), below (2);
	// rotates over the pairs and histories so that every tier runs each
	variant := (w.id + w.ctx.idx/5) % 3
	w.evReset()
	k := 1 + w.rnd.Intn(3)
	if variant == 2 {
		k++
	}
	for i := 0; i < k; i++ {
		w.evRegister(w.anySubject())
	}
	w.checkServer("reset-overtake/first-seed", false)
	w.poll("reset-overtake", true)
	w.poll("reset-overtake", false)
	w.note("poll x2")
	w.evReset()
	w.checkServer("reset-overtake/reset", true)
	switch variant {
	case 0:
		for _, s := range w.subj {
			w.evRegister(s)
		}
		for i := 0; i < w.rnd.Intn(3); i++ {
			w.evRegister(w.anySubject())
		}
	case 1:
		for i := 0; i < k; i++ {
			w.evRegister(w.anySubject())
		}
	default:
		for i := 0; i < k-1-w.rnd.Intn(2); i++ {
			w.evRegister(w.anySubject())
		}
	}
	w.r.Count(fmt.Sprintf("scenario_reset_overtake_new_timestamp_%s", []string{"above", "equal", "below"}[variant]), 1)
	w.checkServer("reset-overtake/registered", true)
	w.converge("reset-overtake")
	w.r.Count("scenario_reset_overtake", 1)
}

// evReinstall: the server node is stopped and started again on an empty data directory (same addresses, same definitions)
// while C keeps its copy: the real thing the SQL reset stands for.
func (w *world) evReinstall() {
	internal := strings.TrimPrefix(w.s.Internal, "http://")
	w.s.Stop()
	w.s = w.startNode(node.Options{Config: w.cfg, Env: w.serverEnv(map[string]string{"NUTS_HTTP_INTERNAL_ADDRESS": internal})})
	w.sdb = node.Engine[storage.Engine](w.s).GetSQLDatabase()
	w.m.reset()
	w.multiCur = map[string]string{}
	w.ctx.hadReset = true
	w.r.Count("events_server_reinstalled", 1)
	w.note("server reinstalled on an empty database (epoch %d)", w.m.epoch)
	w.checkServer("reinstall", true)
	for _, s := range w.subj {
		w.evRegister(s)
	}
	w.checkServer("reinstall/registered", true)
	w.converge("reinstall")
}

// resetThenRace: reset, the client learns about the empty list, then the first registrations of the new seed race its poll.
func (w *world) resetThenRace() {
	w.evReset()
	w.checkServer("reset-race/reset", true)
	if w.rnd.Intn(2) == 0 {
		w.poll("reset-race", w.rnd.Intn(2) == 0)
		w.note("poll")
	}
	w.evRace(false)
	w.checkServer("reset-race/raced", true)
	for i := 0; i < 1+w.rnd.Intn(3); i++ {
		w.evRegister(w.anySubject())
	}
	w.checkServer("reset-race/registered", false)
	w.converge("reset-race")
	w.r.Count("scenario_reset_race", 1)
}
