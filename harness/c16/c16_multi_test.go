// Presentations with several credentials: a third service on the same server whose presentation definition asks for
// three credentials of different types. Every per-credential admission clause (not outliving ANY credential, EVERY
// credential verifiable, ALL AND ONLY the credentials the definition asks for) is swept over the position of the one
// offending credential, the order of the credential types and the expiry of the neighbouring credentials. The
// reference decision is computed from the generated input: refuse iff the presentation expires after one of its
// credentials / holds a credential that is forged, revoked, surplus, or lacks one that is asked for.
package c16

import (
	"encoding/json"
	"fmt"
	"sort"
	"time"

	"github.com/nuts-foundation/nuts-node/discovery"
)

const (
	typeOrg   = "NutsOrganizationCredential"
	typeEmp   = "C16EmployeeCredential"
	typeReg   = "C16RegistrationCredential" // self-attested: issued by the registrant
	typeOther = "C16OtherCredential"
)

const pdMultiJSON = `{"id":"pd_c16_multi","format":{"jwt_vc":{"alg":["ES256"]},"jwt_vp":{"alg":["ES256"]}},
 "input_descriptors":[{"id":"org","constraints":{"fields":[
  {"path":["$.type"],"filter":{"type":"string","const":"NutsOrganizationCredential"}},
  {"path":["$.credentialSubject.organization.name","$.credentialSubject[0].organization.name"],"filter":{"type":"string"}},
  {"path":["$.credentialSubject.organization.city","$.credentialSubject[0].organization.city"],"filter":{"type":"string"}}]}},
 {"id":"emp","constraints":{"fields":[{"path":["$.type"],"filter":{"type":"string","const":"C16EmployeeCredential"}}]}},
 {"id":"reg","constraints":{"fields":[{"path":["$.type"],"filter":{"type":"string","const":"C16RegistrationCredential"}}]}}]}`

type multiCase struct {
	class  string
	pos    int // index of the offending credential in the presentation
	others int // expiry of the other credentials: 0 none expires, 1 all expire (long after the presentation), 2 mixed
}

var multiClasses = []string{
	"outlives-one-of-several-credentials",
	"bad-signature-on-one-of-several-credentials",
	"revoked-one-of-several-credentials",
	"one-of-several-credentials-of-other-type",
	"surplus-credential-among-several",
	"second-credential-of-a-type-among-several",
	"one-of-several-credentials-missing",
}

// multiCases: the sweep, in a fixed order; the expiry clause is crossed with the neighbours' expiry.
func multiCases() []multiCase {
	var out []multiCase
	for pos := 0; pos < 3; pos++ {
		for ci, class := range multiClasses {
			if ci == 0 {
				for others := 0; others < 3; others++ {
					out = append(out, multiCase{class, pos, others})
				}
				continue
			}
			out = append(out, multiCase{class, pos, (pos + ci) % 3})
		}
	}
	return out
}

// multiCred issues a credential of the given type to s (the registration credential is self-attested).
func (w *world) multiCred(s *subject, typ string, o credOpts) json.RawMessage {
	o.typ = typ
	if typ == typeReg {
		o.issuer = s.h
	}
	return w.mkCred(s.h.DID, o)
}

func (w *world) postMulti(tok string) int {
	return w.post(w.multi, tok).Status
}

// multiSweep runs k cases of the sweep, then compares the service's list on S and C's search with the reference.
func (w *world) multiSweep(k int) {
	defer track("multiSweep")()
	cases := multiCases()
	long := func() time.Time { return time.Now().Add(72 * time.Hour) }
	controlled := false
	for n := 0; n < k; n++ {
		mc := cases[w.multiIdx%len(cases)]
		w.multiIdx++
		s := w.subj[w.rnd.Intn(2)] // two registrants: every validated entry is verified again by each full pass of C
		types := []string{typeOrg, typeEmp, typeReg}
		w.rnd.Shuffle(3, func(i, j int) { types[i], types[j] = types[j], types[i] })
		// the three credentials as a valid presentation would hold them
		expires := make([]bool, 3)
		for i := range expires {
			switch mc.others {
			case 1:
				expires[i] = true
			case 2:
				expires[i] = w.rnd.Intn(2) == 0
			}
		}
		var layout []string
		creds := make([]json.RawMessage, 3)
		for i, t := range types {
			o := credOpts{}
			if expires[i] {
				o.exp = long()
			}
			creds[i] = w.multiCred(s, t, o)
		}
		vpExp := time.Now().Add(90 * time.Minute)
		control := false
		switch mc.class {
		case "outlives-one-of-several-credentials":
			creds[mc.pos] = w.multiCred(s, types[mc.pos], credOpts{exp: time.Now().Add(60 * time.Minute)})
			expires[mc.pos] = true
			vpExp = time.Now().Add(100 * time.Minute)
			control = true
		case "bad-signature-on-one-of-several-credentials":
			var c string
			_ = json.Unmarshal(creds[mc.pos], &c)
			creds[mc.pos], _ = json.Marshal(tamperSig(c))
		case "revoked-one-of-several-credentials":
			idx := 3 + w.rnd.Intn(100)
			u, _ := w.newList(idx, true)
			creds[mc.pos] = w.multiCred(s, types[mc.pos], credOpts{statusList: u, statusIdx: idx})
		case "one-of-several-credentials-of-other-type":
			creds[mc.pos] = w.multiCred(s, typeOther, credOpts{})
			types[mc.pos] = typeOther
		case "surplus-credential-among-several":
			creds = append(creds[:mc.pos:mc.pos], append([]json.RawMessage{w.multiCred(s, typeOther, credOpts{})}, creds[mc.pos:]...)...)
		case "second-credential-of-a-type-among-several":
			creds = append(creds[:mc.pos:mc.pos], append([]json.RawMessage{w.multiCred(s, types[(mc.pos+1)%3], credOpts{})}, creds[mc.pos:]...)...)
		case "one-of-several-credentials-missing":
			creds = append(creds[:mc.pos:mc.pos], creds[mc.pos+1:]...)
		}
		for i, t := range types {
			l := t
			if expires[i] {
				l += "(exp)"
			}
			layout = append(layout, l)
		}
		if control || !controlled {
			// the same credentials in the same order, presented for a shorter time (or, for the other classes, the three
			// valid credentials): accepted, so the case below differs from an acceptable presentation by its one defect
			cp := vpSpec{signer: s.h, aud: []string{w.multi}, exp: time.Now().Add(45 * time.Minute), creds: creds}
			if !control {
				good := make([]json.RawMessage, 3)
				for i, t := range []string{typeReg, typeOrg, typeEmp} {
					good[i] = w.multiCred(s, t, credOpts{})
				}
				cp.creds = good
			}
			tok, jti := w.signVP(cp)
			st := w.postMulti(tok)
			w.r.Count("multi_credential_controls", 1)
			w.note("multi control %v -> %s: %d", layout, short(jti), st)
			if st != 201 {
				w.violation("C16/register/valid-refused/several-credentials", fmt.Sprintf("presentation with three valid credentials (%v) that expires before all of them refused: %d", layout, st), map[string]any{"presentation": tok})
			} else {
				w.multiCur[s.h.DID] = jti
			}
			controlled = true
		}
		// a self-attested credential (issued by the presenter) is covered by the presentation's own signature; whether its
		// inner signature is looked at as well is not something the property speaks about
		mustRefuse := !(mc.class == "bad-signature-on-one-of-several-credentials" && types[mc.pos] == typeReg)
		tok, jti := w.signVP(vpSpec{signer: s.h, aud: []string{w.multi}, exp: vpExp, creds: creds})
		st := w.postMulti(tok)
		w.r.Count("defective_registrations", 1)
		w.r.Count("defective_"+mc.class, 1)
		w.note("multi defective %s at %d of %v -> %s: %d", mc.class, mc.pos, layout, short(jti), st)
		w.r.Case(fmt.Sprintf("multi/%s/pos%d/others%d", mc.class, mc.pos, mc.others), true)
		if st/100 == 2 && !mustRefuse {
			w.r.Unspecified("forged-signature-on-self-attested-credential-accepted")
			w.multiCur[s.h.DID] = jti
		} else if st/100 == 2 {
			w.violation("C16/register/defective-accepted/"+mc.class, fmt.Sprintf("defective registration (%s, offending credential at index %d of %v) accepted", mc.class, mc.pos, layout), map[string]any{"presentation": tok})
			w.multiCur[s.h.DID] = jti // reported; follow the server
		} else {
			if st/100 == 5 {
				w.r.Unspecified("refused-with-5xx/" + mc.class)
			}
			w.multiRejected[jti] = mc.class
		}
	}
	// the service's list on S, and what C finds after polling it
	want := map[string]bool{}
	for _, j := range w.multiCur {
		want[j] = true
	}
	l := w.getList(w.s.Public, w.multi, 0)
	got := map[string]bool{}
	for _, it := range l.entries {
		got[it.jti] = true
		if class, ok := w.multiRejected[it.jti]; ok {
			w.violation("C16/server/refused-presentation-listed/"+class, fmt.Sprintf("presentation %s was refused but is on the list of the service with several credentials", short(it.jti)), nil)
		} else if !want[it.jti] {
			w.violation("C16/server/superseded-entry-listed", fmt.Sprintf("entry %s of the service with several credentials is not the latest of its subject", short(it.jti)), nil)
		}
	}
	for j := range want {
		if !got[j] {
			w.violation("C16/server/entry-missing", fmt.Sprintf("accepted presentation %s is not on the list of the service with several credentials", short(j)), nil)
		}
	}
	for i := 0; i < 2; i++ {
		if err := discovery.VerifClientUpdate(w.cm, w.multi); err != nil {
			w.r.Unspecified("poll-returned-error")
			w.note("poll (several credentials) error: %v", err)
		}
		w.r.Count("polls", 1)
	}
	var wantIDs []string
	for j := range want {
		if got[j] {
			wantIDs = append(wantIDs, j)
		}
	}
	sort.Strings(wantIDs)
	res := ids(w.search(w.c, w.multi, ""))
	w.r.Count("client_searches_several_credentials", 1)
	have := map[string]bool{}
	for _, id := range res {
		have[id] = true
		if class, ok := w.multiRejected[id]; ok {
			w.violation("C16/client/search-returns-refused/"+class, fmt.Sprintf("client search returns %s which the server refused (service with several credentials)", short(id)), nil)
		} else if !want[id] {
			w.violation("C16/client/search-returns-superseded", fmt.Sprintf("client search returns %s which is not live (service with several credentials)", short(id)), nil)
		}
	}
	for _, j := range wantIDs {
		if !have[j] {
			w.violation("C16/convergence/entry-missing"+w.ctxSuffix(), fmt.Sprintf("client search lacks live entry %s of the service with several credentials", short(j)), nil)
		}
	}
	w.r.Case(fmt.Sprintf("multi/list/w%d/%d", w.id, len(wantIDs)), len(wantIDs) > 0)
	// the sweep is self-contained: both copies of this service's list are emptied (seed and timestamp stay), so that the
	// histories' full passes of C do not verify these entries again and again
	w.sdb.Exec("DELETE FROM discovery_presentation WHERE service_id = ?", w.multi)
	w.cdb.Exec("DELETE FROM discovery_presentation WHERE service_id = ?", w.multi)
	w.multiCur = map[string]string{}
}
