// Check C02: access tokens are issued only after full presentation checks; introspection is faithful.
// A complete in-process node acts as authorization server. The harness owns did:jwk holders, lets the
// node issue real credentials to them, and signs its own JWT presentations so that every claim can be
// made defective. Every token request is built from a valid one by a set of defects known to the
// generator; the reference predicate "no defect" decides whether a token may be issued. Issued tokens
// are introspected and compared with what was established at issuance; stored-token writes are
// observed through the session-store hooks; hostile presentation-definition field ids probe whether
// credential-derived claims can override token fields.
package c02

import (
	"encoding/json"
	"fmt"
	"net/url"
	"sort"
	"strings"
	"sync"
	"testing"
	"time"

	"github.com/nuts-foundation/nuts-node/storage"
	"verif/lib/ev"
	"verif/lib/iamflow"
	"verif/lib/node"
	"verif/lib/sched"
)

// response members of the introspection endpoint; a definition field id equal to one of them must never override it
var responseMembers = []string{"active", "aud", "client_id", "cnf", "exp", "iat", "iss", "scope", "sub", "vps", "presentation_definitions", "presentation_submissions"}

type spec struct {
	signer     *iamflow.Holder
	kidOf      *iamflow.Holder // identity named in kid/iss (default signer)
	creds      []json.RawMessage
	credFormat string
	aud        []string
	nbfOff     time.Duration
	validity   time.Duration
	noNonce    bool
	nonce      string
	scope      string
	defID      string
	descPath   string
	descID     string
	noDesc     bool
	clientID   string
	omit       []string
	tamperSig  bool
	second     *spec // a second presentation in the same assertion (array)
	nested     bool  // with second: the submission maps the descriptor into presentation mapIdx through path_nested
	mapIdx     int
	swap       bool // with second: the second presentation comes first in the array
	dpop       *iamflow.Holder
}

type world struct {
	*iamflow.World
	h1, h2     *iamflow.Holder
	ldp1, jwt1 json.RawMessage // credentials for h1
	ldp2       json.RawMessage // credential for h2
	nonceN     int
	mu         sync.Mutex
}

func (w *world) newNonce() string {
	w.mu.Lock()
	defer w.mu.Unlock()
	w.nonceN++
	return fmt.Sprintf("n-%d-%d", time.Now().UnixNano(), w.nonceN)
}

func (w *world) base(format string) *spec {
	s := &spec{signer: w.h1, aud: []string{w.Verifier.URL}, validity: 4 * time.Second, scope: "test", defID: "pd_org",
		descID: "id_org", descPath: "$.verifiableCredential[0]", clientID: "https://client.example/oauth2/h1", credFormat: format, nonce: w.newNonce()}
	if format == "jwt_vc" {
		s.creds = []json.RawMessage{w.jwt1}
	} else {
		s.creds = []json.RawMessage{w.ldp1}
	}
	return s
}

func (w *world) signVP(s *spec) string {
	kid := s.kidOf
	if kid == nil {
		kid = s.signer
	}
	now := time.Now()
	vp := iamflow.VP{Aud: s.aud, NotBefore: now.Add(s.nbfOff), Expires: now.Add(s.nbfOff + s.validity), Credentials: s.creds, Iss: kid.DID, KID: kid.KID}
	if !s.noNonce {
		vp.Nonce = s.nonce
	}
	tok := s.signer.SignVP(vp)
	if s.tamperSig {
		// flip one character in the middle of the signature
		b := []byte(tok)
		i := len(b) - 20
		if b[i] == 'A' {
			b[i] = 'B'
		} else {
			b[i] = 'A'
		}
		tok = string(b)
	}
	return tok
}

func (w *world) build(s *spec) (url.Values, map[string]string) {
	assertion := w.signVP(s)
	path := s.descPath
	if s.second != nil {
		if s.swap {
			assertion = `["` + w.signVP(s.second) + `","` + assertion + `"]`
		} else {
			assertion = `["` + assertion + `","` + w.signVP(s.second) + `"]`
		}
	}
	sub := map[string]any{"id": "sub-" + s.nonce, "definition_id": s.defID, "descriptor_map": []any{}}
	if !s.noDesc {
		sub["descriptor_map"] = []any{map[string]any{"id": s.descID, "format": s.credFormat, "path": path}}
		if s.second != nil && s.nested {
			// (the node decodes the JWT presentations of an array before it evaluates paths: the outer entry then addresses an object)
			sub["descriptor_map"] = []any{map[string]any{"id": s.descID, "format": "ldp_vp", "path": fmt.Sprintf("$[%d]", s.mapIdx),
				"path_nested": map[string]any{"id": s.descID, "format": s.credFormat, "path": path}}}
		}
	}
	sj, _ := json.Marshal(sub)
	f := url.Values{"grant_type": {"vp_token-bearer"}, "assertion": {assertion}, "presentation_submission": {string(sj)}, "scope": {s.scope}, "client_id": {s.clientID}}
	for _, o := range s.omit {
		f.Del(o)
	}
	hdr := map[string]string{"Content-Type": "application/x-www-form-urlencoded"}
	if s.dpop != nil {
		hdr["DPoP"] = s.dpop.DPoPProof("POST", w.Verifier.URL+"/token", "dpop-"+s.nonce, time.Now(), "")
	}
	return f, hdr
}

type defect struct {
	name  string
	apply func(w *world, s *spec) bool // false: not applicable to this spec
}

func tamperCred(c json.RawMessage) json.RawMessage {
	var str string
	if json.Unmarshal(c, &str) == nil { // JWT credential: alter the payload segment
		parts := strings.Split(str, ".")
		p := []byte(parts[1])
		if p[10] == 'A' {
			p[10] = 'B'
		} else {
			p[10] = 'A'
		}
		parts[1] = string(p)
		out, _ := json.Marshal(strings.Join(parts, "."))
		return out
	}
	return json.RawMessage(strings.Replace(string(c), "Caretown", "Othertown", 1))
}

func defects(w *world, revoked, expired json.RawMessage) []defect {
	ds := []defect{
		{"wrong-audience", func(w *world, s *spec) bool { s.aud = []string{w.Client.URL}; return true }},
		{"foreign-audience", func(w *world, s *spec) bool { s.aud = []string{"https://other.example/oauth2/verifier"}; return true }},
		{"missing-audience", func(w *world, s *spec) bool { s.aud = nil; return true }},
		// another authorization server whose identifier merely starts with this one's
		{"audience-text-extension", func(w *world, s *spec) bool { s.aud = []string{w.Verifier.URL + "2"}; return true }},
		{"audience-text-extension-dash", func(w *world, s *spec) bool { s.aud = []string{w.Verifier.URL + "-east"}; return true }},
		{"audience-text-prefix", func(w *world, s *spec) bool { s.aud = []string{w.Verifier.URL[:len(w.Verifier.URL)-1]}; return true }},
		{"audience-other-letter-case", func(w *world, s *spec) bool {
			i := strings.LastIndex(w.Verifier.URL, "/")
			s.aud = []string{w.Verifier.URL[:i+1] + strings.ToUpper(w.Verifier.URL[i+1:])}
			return s.aud[0] != w.Verifier.URL
		}},
		{"validity-too-long", func(w *world, s *spec) bool { s.validity = time.Hour; return true }},
		{"expired-presentation", func(w *world, s *spec) bool { s.nbfOff = -10 * time.Minute; return true }},
		// over-long AND backdated: created long ago, expiring within the next seconds (only the remaining lifetime is short)
		{"validity-too-long-backdated", func(w *world, s *spec) bool {
			s.nbfOff = -10 * time.Minute
			s.validity = 10*time.Minute + 3*time.Second
			return true
		}},
		{"validity-slightly-too-long-backdated", func(w *world, s *spec) bool { s.nbfOff = -8 * time.Second; s.validity = 11 * time.Second; return true }},
		{"not-yet-valid-presentation", func(w *world, s *spec) bool { s.nbfOff = 10 * time.Minute; return true }},
		{"missing-nonce", func(w *world, s *spec) bool { s.noNonce = true; return true }},
		{"signer-not-subject", func(w *world, s *spec) bool { s.signer = w.h2; s.kidOf = nil; return true }},
		{"signature-by-other-key", func(w *world, s *spec) bool { s.signer = w.h2; s.kidOf = w.h1; return true }},
		{"tampered-vp-signature", func(w *world, s *spec) bool { s.tamperSig = true; return true }},
		{"tampered-credential", func(w *world, s *spec) bool {
			if len(s.creds) == 0 {
				return false
			}
			s.creds = []json.RawMessage{tamperCred(s.creds[0])}
			return true
		}},
		{"mixed-subjects", func(w *world, s *spec) bool {
			o := w.base("ldp_vc")
			o.signer, o.creds = w.h2, []json.RawMessage{w.ldp2}
			s.second = o
			return true
		}},
		{"foreign-definition-id", func(w *world, s *spec) bool { s.defID = "pd_other"; return true }},
		{"unknown-definition-id", func(w *world, s *spec) bool { s.defID = "does-not-exist"; return true }},
		{"descriptor-path-elsewhere", func(w *world, s *spec) bool { s.descPath = "$.verifiableCredential[3]"; return true }},
		{"descriptor-unknown-id", func(w *world, s *spec) bool { s.descID = "id_bogus"; return true }},
		{"empty-descriptor-map", func(w *world, s *spec) bool { s.noDesc = true; return true }},
		{"no-credentials", func(w *world, s *spec) bool { s.creds = nil; return true }},
		{"unknown-scope", func(w *world, s *spec) bool { s.scope = "nonexistent"; return true }},
		// scope lists for which no definition is configured as a whole (each value alone may be)
		{"scope-list-known-plus-unknown", func(w *world, s *spec) bool { s.scope = "test admin"; return true }},
		{"scope-list-unknown-plus-known", func(w *world, s *spec) bool { s.scope = "superuser test"; return true }},
		{"scope-list-two-known", func(w *world, s *spec) bool { s.scope = "test other"; return true }},
		{"scope-with-trailing-space", func(w *world, s *spec) bool { s.scope = "test "; return true }},
		{"scope-needing-other-credential", func(w *world, s *spec) bool {
			s.scope = "other"
			s.defID = "pd_other"
			s.descID = "id_other"
			return true
		}},
		{"missing-client_id", func(w *world, s *spec) bool { s.omit = append(s.omit, "client_id"); return true }},
		{"missing-scope", func(w *world, s *spec) bool { s.omit = append(s.omit, "scope"); return true }},
		{"missing-submission", func(w *world, s *spec) bool { s.omit = append(s.omit, "presentation_submission"); return true }},
		{"missing-assertion", func(w *world, s *spec) bool { s.omit = append(s.omit, "assertion"); return true }},
	}
	if revoked != nil {
		ds = append(ds, defect{"revoked-credential", func(w *world, s *spec) bool {
			s.creds = []json.RawMessage{revoked}
			s.credFormat = "ldp_vc"
			return true
		}})
	}
	if expired != nil {
		ds = append(ds, defect{"expired-credential", func(w *world, s *spec) bool {
			s.creds = []json.RawMessage{expired}
			s.credFormat = "ldp_vc"
			return true
		}})
	}
	return ds
}

func otherPD() map[string]any {
	return map[string]any{"id": "pd_other", "name": "other", "input_descriptors": []any{map[string]any{"id": "id_other",
		"constraints": map[string]any{"fields": []any{map[string]any{"path": []string{"$.type"}, "filter": map[string]any{"type": "string", "const": "SomethingElseCredential"}}}}}}}
}

func hostilePD(member string) map[string]any {
	pd := iamflow.OrgPD()
	pd["id"] = "pd_hostile_" + member
	ids := pd["input_descriptors"].([]any)[0].(map[string]any)
	ids["id"] = "id_org"
	fields := ids["constraints"].(map[string]any)["fields"].([]any)
	fields[1].(map[string]any)["id"] = member // organization.name is exposed under the hostile id
	return pd
}

func TestCheck(t *testing.T) {
	r := ev.Start(t, "C02", "exploration")
	defer r.Finish()
	r.SetRule("case = token request built from a valid vp_token-bearer (both credential formats, optional DPoP) or authorization_code request by applying a set of 0, 1 or 2 defects " +
		"known to the generator; reference predicate: token may be issued iff the defect set is empty. Issued tokens are introspected (standard and extended) and compared with issuance facts. " +
		"Non-trivial: the request reached the token endpoint of the real node and got an HTTP answer; distinct by (grant, format, defect set).")
	r.Require(60, 40)
	r.Assume("presentations are JWT (jwt_vp) signed by harness-owned did:jwk holders; JSON-LD presentations are covered only through the node's own client (valid path)")
	r.Assume("authorization-code grant: defects at the token endpoint (client_id, PKCE verifier, replay) on requests captured from the node's own flow; defects inside the wallet's OpenID4VP response are generated by the leg in openid4vp_test.go")

	policy := map[string]any{"test": map[string]any{"organization": iamflow.OrgPD()}, "other": map[string]any{"organization": otherPD()}}
	for _, m := range responseMembers {
		policy["hostile_"+m] = map[string]any{"organization": hostilePD(m)}
	}
	iw := iamflow.NewWorld(t, iamflow.Options{Policy: policy})
	w := &world{World: iw, h1: iamflow.NewHolder(), h2: iamflow.NewHolder()}
	var err error
	if w.ldp1, err = w.IssueTo(w.Client, w.h1.DID, iamflow.IssueOpts{}); err != nil {
		r.Fatalf("issue: %v", err)
	}
	if w.jwt1, err = w.IssueTo(w.Client, w.h1.DID, iamflow.IssueOpts{Format: "jwt_vc"}); err != nil {
		r.Fatalf("issue jwt: %v", err)
	}
	if w.ldp2, err = w.IssueTo(w.Client, w.h2.DID, iamflow.IssueOpts{Name: "Other Org", City: "Elsewhere"}); err != nil {
		r.Fatalf("issue: %v", err)
	}
	// a revoked credential
	var revoked json.RawMessage
	if c, err := w.IssueTo(w.Client, w.h1.DID, iamflow.IssueOpts{StatusList: true}); err == nil {
		id := iamflow.CredentialID(c)
		resp, err := node.Do("DELETE", w.N.Internal+"/internal/vcr/v2/issuer/vc/"+url.QueryEscape(id), nil, nil)
		if err == nil && resp.Status/100 == 2 {
			revoked = c
		} else {
			fmt.Printf("NOTE: property=C02 could not revoke credential (%v %s); defect revoked-credential not generated\n", err, resp)
		}
	} else {
		fmt.Printf("NOTE: property=C02 could not issue credential with status list (%v)\n", err)
	}
	// an expired credential (if the issuer lets us make one)
	var expired json.RawMessage
	if c, err := w.IssueTo(w.Client, w.h1.DID, iamflow.IssueOpts{ExpirationDate: time.Now().Add(-time.Hour).UTC().Format(time.RFC3339)}); err == nil {
		expired = c
	} else {
		fmt.Printf("NOTE: property=C02 issuer refuses to issue an already expired credential; defect expired-credential not generated (%v)\n", err)
	}

	// observe writes to the server-side access-token store
	var putMu sync.Mutex
	tokenPuts := 0
	rec := &sched.Recorder{OnHook: func(name string, args []any) error {
		if name == "session.put" && len(args) > 0 {
			if k, _ := args[0].(string); strings.HasPrefix(k, "serveraccesstoken") {
				putMu.Lock()
				tokenPuts++
				putMu.Unlock()
			}
		}
		return nil
	}}
	un := rec.Install()
	defer un()
	puts := func() int { putMu.Lock(); defer putMu.Unlock(); return tokenPuts }

	ds := defects(w, revoked, expired)
	rnd := r.Rand("pairs")
	type issued struct {
		token, clientID, scope string
		before, after          time.Time
		dpop                   *iamflow.Holder
		orgName                string
	}
	var tokens []issued

	run := func(format string, applied []defect, dpop *iamflow.Holder) {
		s := w.base(format)
		s.dpop = dpop
		var names []string
		for _, d := range applied {
			if !d.apply(w, s) {
				return
			}
			names = append(names, d.name)
		}
		sort.Strings(names)
		f, hdr := w.build(s)
		before := puts()
		t0 := time.Now()
		resp, err := node.Do("POST", w.N.Public+"/oauth2/"+w.Verifier.Name+"/token", f.Encode(), hdr)
		t1 := time.Now()
		if err != nil {
			r.Inconclusive("token request failed at transport level: " + err.Error())
			return
		}
		var body map[string]any
		_ = resp.JSON(&body)
		at, _ := body["access_token"].(string)
		gotToken := resp.Status == 200 && at != ""
		fpr := fmt.Sprintf("s2s/%s/dpop=%v/%s", format, dpop != nil, strings.Join(names, "+"))
		r.Case(fpr, true)
		r.Count("token_requests", 1)
		stored := puts() - before
		w2 := map[string]any{"format": format, "defects": names, "status": resp.Status, "body": string(resp.Body), "form": f}
		if len(names) == 0 {
			if !gotToken {
				// the harness' valid request must be accepted, otherwise every rejection below is meaningless
				r.Fatalf("valid %s token request was refused: %s", format, resp)
			}
			r.Count("tokens_issued", 1)
			tokens = append(tokens, issued{at, s.clientID, s.scope, t0, t1, dpop, "Caresoft B.V."})
			if len(tokens) <= 2 {
				r.Sample(map[string]any{"case": fpr, "status": resp.Status, "expected": "token"})
			}
			return
		}
		r.Count("defective_requests", 1)
		for _, n := range names {
			r.Distinct("defects_exercised", n)
		}
		if gotToken {
			r.Violation("C02/issued-despite/"+strings.Join(names, "+"), fmt.Sprintf("access token issued for a %s request with defect(s) %v", format, names), w2)
			return
		}
		if resp.Status == 200 {
			r.Violation("C02/200-without-token/"+strings.Join(names, "+"), "token endpoint answered 200 without a token", w2)
		}
		if stored != 0 {
			r.Violation("C02/token-stored-despite/"+strings.Join(names, "+"), fmt.Sprintf("%d access-token row(s) written although the request was refused", stored), w2)
		}
		if r.Get("defective_requests") <= 3 {
			r.Sample(map[string]any{"case": fpr, "status": resp.Status, "error": body["error"], "description": body["error_description"], "expected": "refusal"})
		}
	}

	// valid requests (both formats, with and without DPoP), repeated
	for i := 0; i < r.Pick(2, 10); i++ {
		run("ldp_vc", nil, nil)
		run("jwt_vc", nil, nil)
		run("ldp_vc", nil, w.h1)
	}
	// every single defect × both formats
	for _, d := range ds {
		run("ldp_vc", []defect{d}, nil)
		run("jwt_vc", []defect{d}, nil)
	}
	// seeded pairs of defects
	for i := 0; i < r.Pick(60, 600); i++ {
		a, b := ds[rnd.Intn(len(ds))], ds[rnd.Intn(len(ds))]
		if a.name == b.name {
			continue
		}
		fm := []string{"ldp_vc", "jwt_vc"}[rnd.Intn(2)]
		var dp *iamflow.Holder
		if rnd.Intn(4) == 0 {
			dp = w.h1
		}
		run(fm, []defect{a, b}, dp)
	}
	// several presentations in one assertion: every one of them has to verify, wherever the submission points.
	// A carries the credential the descriptor is mapped to (through path_nested); B is a further presentation of the same holder.
	byName := map[string]defect{}
	for _, d := range ds {
		byName[d.name] = d
	}
	multi := func(format, name string, onA, onB []string, bHasCred, bFirst bool) (issuedToken bool, ran bool) {
		a := w.base(format)
		b := w.base(format)
		if !bHasCred {
			b.creds = nil
		}
		for _, n := range onA {
			if d, ok := byName[n]; !ok || !d.apply(w, a) {
				return false, false
			}
		}
		for _, n := range onB {
			if d, ok := byName[n]; !ok || !d.apply(w, b) {
				return false, false
			}
		}
		a.second, a.nested, a.swap = b, true, bFirst
		if bFirst {
			a.mapIdx = 1
		}
		f, hdr := w.build(a)
		before := puts()
		resp, err := node.Do("POST", w.N.Public+"/oauth2/"+w.Verifier.Name+"/token", f.Encode(), hdr)
		if err != nil {
			r.Inconclusive("token request failed at transport level: " + err.Error())
			return false, false
		}
		var body map[string]any
		_ = resp.JSON(&body)
		at, _ := body["access_token"].(string)
		got := resp.Status == 200 && at != ""
		fpr := fmt.Sprintf("s2s-multi/%s/%s", format, name)
		r.Case(fpr, true)
		r.Count("token_requests", 1)
		r.Count("multi_presentation_requests", 1)
		if len(onA)+len(onB) == 0 {
			r.Sample(map[string]any{"case": fpr, "status": resp.Status, "body": string(resp.Body), "expected": "token (control)"})
			return got, true
		}
		r.Count("defective_requests", 1)
		r.Distinct("defects_exercised", "multi/"+name)
		wit := map[string]any{"format": format, "case": name, "defects_on_mapped_presentation": onA, "defects_on_other_presentation": onB, "other_first": bFirst, "status": resp.Status, "body": string(resp.Body), "form": f}
		if got {
			r.Violation("C02/issued-despite/multi/"+name, fmt.Sprintf("access token issued for an assertion of two presentations of which one is defective (%s, %s)", name, format), wit)
		} else if puts() != before {
			r.Violation("C02/token-stored-despite/multi/"+name, "access-token row written although the request was refused", wit)
		}
		return got, true
	}
	for _, format := range []string{"ldp_vc", "jwt_vc"} {
		for _, bFirst := range []bool{false, true} {
			for _, bHasCred := range []bool{false, true} {
				tag := fmt.Sprintf("other-%s-%s", map[bool]string{false: "empty", true: "with-credential"}[bHasCred], map[bool]string{false: "last", true: "first"}[bFirst])
				ok, ran := multi(format, "control/"+tag, nil, nil, bHasCred, bFirst)
				if !ran {
					continue
				}
				if !ok {
					// the node does not take this shape of assertion at all: nothing to learn from refusals of its defective variants
					r.Unspecified("two-presentation-assertion-refused/" + tag)
					continue
				}
				r.Count("multi_presentation_controls_accepted", 1)
				for _, n := range []string{"tampered-credential", "tampered-vp-signature", "revoked-credential", "expired-credential", "wrong-audience", "audience-text-extension",
					"expired-presentation", "validity-too-long", "missing-nonce", "signature-by-other-key"} {
					multi(format, "mapped-presentation-"+n+"/"+tag, []string{n}, nil, bHasCred, bFirst)
					if n == "tampered-credential" || n == "revoked-credential" || n == "expired-credential" {
						if bHasCred {
							multi(format, "other-presentation-"+n+"/"+tag, nil, []string{n}, bHasCred, bFirst)
						}
						continue
					}
					multi(format, "other-presentation-"+n+"/"+tag, nil, []string{n}, bHasCred, bFirst)
				}
			}
		}
	}
	if r.Get("multi_presentation_controls_accepted") == 0 {
		fmt.Printf("NOTE: property=C02 no two-presentation assertion was accepted by the node; defective two-presentation assertions were not judged\n")
	}

	// reused nonce: a second, otherwise valid presentation with the nonce of an accepted one
	for i := 0; i < r.Pick(3, 20); i++ {
		s := w.base("ldp_vc")
		f, hdr := w.build(s)
		r1, _ := node.Do("POST", w.N.Public+"/oauth2/"+w.Verifier.Name+"/token", f.Encode(), hdr)
		s2 := w.base("jwt_vc")
		s2.nonce = s.nonce
		if i%2 == 1 {
			// the nonce is the presentation's: naming another client in the (unbound) client_id parameter changes nothing
			s2.clientID = fmt.Sprintf("https://other-client-%d.example/oauth2/x", i)
		}
		f2, hdr2 := w.build(s2)
		before := puts()
		r2, _ := node.Do("POST", w.N.Public+"/oauth2/"+w.Verifier.Name+"/token", f2.Encode(), hdr2)
		r.Case("s2s/reused-nonce", true)
		r.Count("token_requests", 2)
		r.Distinct("defects_exercised", "reused-nonce")
		if r1.Status != 200 {
			r.Fatalf("valid request refused: %s", r1)
		}
		if r2.Status == 200 || puts() != before {
			r.Violation("C02/issued-despite/reused-nonce", "access token issued for a presentation whose nonce was seen before", map[string]any{"first": r1.String(), "second": r2.String()})
		}
		// the byte-identical presentation once more, under yet another client_id
		f3 := url.Values{}
		for k, v := range f {
			f3[k] = v
		}
		f3.Set("client_id", fmt.Sprintf("https://replaying-client-%d.example/oauth2/y", i))
		before = puts()
		r3, _ := node.Do("POST", w.N.Public+"/oauth2/"+w.Verifier.Name+"/token", f3.Encode(), hdr)
		r.Case("s2s/replayed-presentation-other-client_id", true)
		r.Count("token_requests", 1)
		r.Distinct("defects_exercised", "replayed-presentation-other-client_id")
		if r3.Status == 200 || puts() != before {
			r.Violation("C02/issued-despite/replayed-presentation-other-client_id", "access token issued for a replayed presentation (nonce seen before) presented under another client_id", map[string]any{"first": r1.String(), "replay": r3.String()})
		}
	}

	// reused nonce late in the presentation's acceptance window: a JSON-LD presentation that expires in 2 s is acceptable until
	// expires + 5 s skew; replay it ~3 s after first use (after its own expiry, inside the skew tail). Real waiting, stopwatch-guarded.
	for i := 0; i < r.Pick(1, 3); i++ {
		start := time.Now()
		expires := start.Add(2 * time.Second)
		nonce := w.newNonce()
		vpDoc, err := w.h1.SignLDVP(w.N, iamflow.LDVP{Created: start.Add(-time.Second), Expires: expires, Domain: w.Verifier.URL, Nonce: nonce, Credentials: []json.RawMessage{w.ldp1}})
		if err != nil {
			r.Fatalf("sign JSON-LD presentation: %v", err)
		}
		sub, _ := json.Marshal(map[string]any{"id": "late-" + nonce, "definition_id": "pd_org", "descriptor_map": []any{map[string]any{"id": "id_org", "format": "ldp_vc", "path": "$.verifiableCredential[0]"}}})
		form := url.Values{"grant_type": {"vp_token-bearer"}, "assertion": {string(vpDoc)}, "presentation_submission": {string(sub)}, "scope": {"test"}, "client_id": {"https://client.example/oauth2/h1"}}
		post := func() node.Resp {
			resp, _ := node.Do("POST", w.N.Public+"/oauth2/"+w.Verifier.Name+"/token", form.Encode(), map[string]string{"Content-Type": "application/x-www-form-urlencoded"})
			return resp
		}
		r1 := post()
		r.Count("token_requests", 1)
		if r1.Status != 200 {
			r.Fatalf("valid JSON-LD presentation refused: %s", r1)
		}
		time.Sleep(time.Until(expires.Add(1200 * time.Millisecond)))
		before := puts()
		r2 := post()
		late := time.Since(start)
		r.Count("token_requests", 1)
		r.Case("s2s/reused-nonce-in-skew-tail", true)
		r.Distinct("defects_exercised", "reused-nonce-in-skew-tail")
		if late > 6*time.Second {
			r.Inconclusive(fmt.Sprintf("late replay happened %.1f s after first use (machine too slow)", late.Seconds()))
			continue
		}
		if r2.Status == 200 || puts() != before {
			r.Violation("C02/issued-despite/reused-nonce-in-skew-tail", fmt.Sprintf("access token issued for a presentation whose nonce was used %.1f s earlier (presentation past its expiry but inside the clock-skew tail)", late.Seconds()),
				map[string]any{"first": r1.String(), "second": r2.String()})
		}
	}

	// authorization-code grant: valid, wrong client_id, wrong/missing verifier, replay
	codeCases := map[string]func(url.Values){
		"":                      nil,
		"wrong-client_id":       func(f url.Values) { f.Set("client_id", "https://attacker.example/oauth2/x") },
		"wrong-code_verifier":   func(f url.Values) { f.Set("code_verifier", strings.Repeat("A", 48)) },
		"missing-code_verifier": func(f url.Values) { f.Del("code_verifier") },
		"unknown-code":          func(f url.Values) { f.Set("code", "0000000000000000000000") },
	}
	for round := 0; round < r.Pick(1, 6); round++ {
		for name, edit := range codeCases {
			c, _, _, err := w.RunUserFlow(fmt.Sprintf("u-%d-%s", round, name), w.IsCodeTokenRequest)
			if c == nil {
				r.Fatalf("authorization-code flow did not reach the token request: %v", err)
			}
			f := c.Form()
			if edit != nil {
				edit(f)
			}
			c2 := *c
			c2.Body = []byte(f.Encode())
			before := puts()
			t0 := time.Now()
			resp, _ := w.Replay(&c2)
			t1 := time.Now()
			var body map[string]any
			_ = resp.JSON(&body)
			at, _ := body["access_token"].(string)
			r.Case("authorization_code/"+name, true)
			r.Count("token_requests", 1)
			if name == "" {
				if resp.Status != 200 || at == "" {
					r.Fatalf("valid authorization-code token request refused: %s", resp)
				}
				r.Count("tokens_issued", 1)
				tokens = append(tokens, issued{at, f.Get("client_id"), "test", t0, t1, nil, "Caresoft B.V."})
				// replay of the same code
				resp2, _ := w.Replay(&c2)
				r.Case("authorization_code/replayed-code", true)
				if resp2.Status == 200 {
					r.Violation("C02/issued-despite/replayed-code", "second redemption of an authorization code issued a token", nil)
				}
				continue
			}
			r.Count("defective_requests", 1)
			r.Distinct("defects_exercised", "code:"+name)
			if resp.Status == 200 && at != "" || puts() != before {
				r.Violation("C02/issued-despite/code:"+name, "access token issued for an authorization-code request with defect "+name, map[string]any{"response": resp.String()})
			}
		}
	}

	openid4vpLeg(r, w, revoked, expired, puts) // defects inside the wallet's OpenID4VP response (openid4vp_test.go)

	// ---- introspection ----------------------------------------------------------------------------
	introspect := func(path, token string) (map[string]any, node.Resp) {
		resp, err := node.Do("POST", w.N.Internal+path, "token="+url.QueryEscape(token), map[string]string{"Content-Type": "application/x-www-form-urlencoded"})
		if err != nil {
			r.Fatalf("introspection: %v", err)
		}
		var m map[string]any
		_ = resp.JSON(&m)
		return m, resp
	}
	num := func(v any) int64 { f, _ := v.(float64); return int64(f) }
	for i, tk := range tokens {
		for _, path := range []string{"/internal/auth/v2/accesstoken/introspect", "/internal/auth/v2/accesstoken/introspect_extended"} {
			for rep := 0; rep < 2; rep++ {
				m, resp := introspect(path, tk.token)
				r.Count("introspections", 1)
				r.Case(fmt.Sprintf("introspect/%s/dpop=%v", path[strings.LastIndex(path, "/")+1:], tk.dpop != nil), true)
				bad := []string{}
				if m["active"] != true {
					bad = append(bad, fmt.Sprintf("active=%v", m["active"]))
				}
				if m["iss"] != w.Verifier.URL {
					bad = append(bad, fmt.Sprintf("iss=%v want %s", m["iss"], w.Verifier.URL))
				}
				if m["client_id"] != tk.clientID {
					bad = append(bad, fmt.Sprintf("client_id=%v want %s", m["client_id"], tk.clientID))
				}
				if m["scope"] != tk.scope {
					bad = append(bad, fmt.Sprintf("scope=%v want %s", m["scope"], tk.scope))
				}
				iat, exp := num(m["iat"]), num(m["exp"])
				if iat < tk.before.Unix()-1 || iat > tk.after.Unix()+1 {
					bad = append(bad, fmt.Sprintf("iat=%d not in [%d,%d]", iat, tk.before.Unix(), tk.after.Unix()))
				}
				if exp-iat != 900 {
					bad = append(bad, fmt.Sprintf("exp-iat=%d want 900", exp-iat))
				}
				if tk.dpop != nil {
					cnf, _ := m["cnf"].(map[string]any)
					if cnf == nil || cnf["jkt"] != tk.dpop.Thumbprint() {
						bad = append(bad, fmt.Sprintf("cnf=%v want jkt %s", m["cnf"], tk.dpop.Thumbprint()))
					}
				} else if _, has := m["cnf"]; has {
					bad = append(bad, fmt.Sprintf("cnf=%v on a bearer token", m["cnf"]))
				}
				if m["organization_name"] != tk.orgName {
					bad = append(bad, fmt.Sprintf("organization_name=%v want %s", m["organization_name"], tk.orgName))
				}
				if len(bad) > 0 {
					r.Violation("C02/introspection-mismatch", "introspection differs from issuance facts: "+strings.Join(bad, "; "), map[string]any{"response": string(resp.Body)})
				}
				if i == 0 && rep == 0 {
					r.Sample(map[string]any{"case": "introspect " + path, "response": m})
				}
			}
		}
	}
	// never-issued tokens
	for _, tok := range []string{"", "x", strings.Repeat("A", 43), tokens[0].token + "x", tokens[0].token[:len(tokens[0].token)-1], strings.ToUpper(tokens[0].token), " " + tokens[0].token} {
		m, resp := introspect("/internal/auth/v2/accesstoken/introspect", tok)
		r.Count("introspections", 1)
		r.Case("introspect/never-issued", true)
		if m["active"] == true {
			r.Violation("C02/introspection-active/never-issued", fmt.Sprintf("token %q that was never issued is reported active", tok), map[string]any{"response": string(resp.Body)})
		}
	}
	// expiry: age the stored token through the node's own session store instead of waiting 15 minutes
	eng := node.Engine[storage.Engine](w.N)
	if eng == nil {
		r.Fatalf("storage engine not found")
	}
	store := eng.GetSessionDatabase().GetStore(15*time.Minute, "serveraccesstoken")
	for i, tk := range tokens {
		if i%2 == 1 {
			continue
		}
		var raw map[string]any
		if err := store.Get(tk.token, &raw); err != nil {
			r.Fatalf("stored token not found: %v", err)
		}
		raw["expiration"] = time.Now().Add(-time.Minute).UTC().Format(time.RFC3339Nano)
		if err := store.Put(tk.token, raw); err != nil {
			r.Fatalf("ageing token: %v", err)
		}
		for _, path := range []string{"/internal/auth/v2/accesstoken/introspect", "/internal/auth/v2/accesstoken/introspect_extended"} {
			m, resp := introspect(path, tk.token)
			r.Count("introspections", 1)
			r.Case("introspect/expired", true)
			if m["active"] == true {
				r.Violation("C02/introspection-active/expired", "expired token reported active", map[string]any{"response": string(resp.Body)})
			}
		}
	}

	// ---- hostile definition field ids: credential-derived claims must never override token fields -------------
	for _, member := range responseMembers {
		s := w.base("ldp_vc")
		s.scope, s.defID = "hostile_"+member, "pd_hostile_"+member
		s.dpop = w.h1
		f, hdr := w.build(s)
		resp, err := node.Do("POST", w.N.Public+"/oauth2/"+w.Verifier.Name+"/token", f.Encode(), hdr)
		if err != nil {
			r.Inconclusive(err.Error())
			continue
		}
		var body map[string]any
		_ = resp.JSON(&body)
		at, _ := body["access_token"].(string)
		r.Case("hostile-field-id/"+member, true)
		r.Count("token_requests", 1)
		if at == "" {
			// refusing to issue is a safe outcome
			r.Count("hostile_field_id_refused_at_issuance", 1)
			continue
		}
		for _, path := range []string{"/internal/auth/v2/accesstoken/introspect", "/internal/auth/v2/accesstoken/introspect_extended"} {
			m, iresp := introspect(path, at)
			r.Count("introspections", 1)
			if iresp.Status != 200 || m["active"] != true {
				// refusing to report is a safe outcome too
				r.Count("hostile_field_id_refused_at_introspection", 1)
				continue
			}
			v, has := m[member]
			if has && v == "Caresoft B.V." {
				r.Violation("C02/introspection-override/"+member, fmt.Sprintf("definition field id %q makes the credential value appear as token field %q in the introspection response", member, member),
					map[string]any{"endpoint": path, "response": string(iresp.Body)})
			}
		}
	}
	r.Extra("defects_exercised", r.DistinctN("defects_exercised"))
}
