// Check C02, OpenID4VP leg: defects inside the wallet's authorization response (direct_post).
// The real authorization-code flow is run on the full node up to the point where the node's own wallet would POST its
// response to the verifier's /oauth2/{subject}/response endpoint; that POST is withheld by the proxy, so the verifier session
// (state) and its nonce stay fresh and unused. From there on the HARNESS is the wallet: it signs its own presentation
// (did:jwk holder, credentials issued to that holder by the node) over the session's nonce, builds the presentation
// submission and posts vp_token + presentation_submission + state to the real handler. A code that results is redeemed the way
// the real client does (its /callback endpoint performs the token request with the session's client_id and PKCE verifier).
// Oracle (property text): after a response with a defect no access token may be obtainable - the response is refused, or
// no code results, or the code cannot be redeemed. The valid response must yield a token (calibration).
package c02

import (
	"encoding/base64"
	"encoding/json"
	"fmt"
	"math/rand"
	"net/url"
	"strings"
	"time"

	"verif/lib/ev"
	"verif/lib/iamflow"
	"verif/lib/node"
)

// o4Session is a verifier-side OpenID4VP session waiting for the wallet's response.
type o4Session struct {
	user    string
	state   string // the verifier's state
	nonce   string // the nonce the verifier asked the wallet to sign
	browser *iamflow.Browser
}

// o4Resp describes one wallet response.
type o4Resp struct {
	*spec
	ld       bool     // JSON-LD presentation instead of JWT
	state    string   // form parameter state
	omitForm []string // form parameters left out
	postTo   string   // subject whose /response endpoint is addressed (default: the verifier)
}

// o4Outcome is what could be obtained after a response.
type o4Outcome struct {
	status     int
	body       string
	code       string
	redirect   string
	tokens     int // access tokens handed out by the token endpoint while redeeming
	tokenRows  int // rows written to the server-side access-token store
	redeemNote string
}

func (o o4Outcome) issued() bool { return o.tokens > 0 || o.tokenRows > 0 }

// answerOf condenses what the verifier answered to a defective response (kept in the evidence: which check refused what).
func answerOf(out o4Outcome) string {
	var e struct {
		Error string `json:"error"`
		Desc  string `json:"error_description"`
	}
	_ = json.Unmarshal([]byte(out.body), &e)
	a := fmt.Sprintf("%d %s: %s", out.status, e.Error, e.Desc)
	if out.redirect != "" {
		if u, err := url.Parse(out.redirect); err == nil {
			a = fmt.Sprintf("%d redirect error=%s: %s", out.status, u.Query().Get("error"), u.Query().Get("error_description"))
		}
	}
	if out.code != "" {
		a = fmt.Sprintf("%d code issued; %s; tokens=%d rows=%d", out.status, out.redeemNote, out.tokens, out.tokenRows)
	}
	return a
}

type o4 struct {
	answers map[string]string
	r       *ev.Run
	w       *world
	puts    func() int
	rnd     *rand.Rand
	n       int
}

func (x *o4) randString(n int) string {
	const alpha = "ABCDEFGHIJKLMNOPQRSTUVWXYZabcdefghijklmnopqrstuvwxyz0123456789-_"
	b := make([]byte, n)
	for i := range b {
		b[i] = alpha[x.rnd.Intn(len(alpha))]
	}
	return string(b)
}

// session runs the real flow until the node's wallet posts its response, which is withheld.
func (x *o4) session() *o4Session {
	x.n++
	user := fmt.Sprintf("o4-%d", x.n)
	c, _, b, err := x.w.RunUserFlow(user, x.w.IsResponse)
	if c == nil {
		x.r.Fatalf("OpenID4VP flow did not reach the wallet's response: %v", err)
	}
	f := c.Form()
	s := &o4Session{user: user, state: f.Get("state"), browser: b}
	vp := f.Get("vp_token")
	if parts := strings.Split(vp, "."); len(parts) == 3 && !strings.HasPrefix(strings.TrimSpace(vp), "{") {
		payload, _ := base64.RawURLEncoding.DecodeString(parts[1])
		var claims map[string]any
		_ = json.Unmarshal(payload, &claims)
		s.nonce, _ = claims["nonce"].(string)
	} else {
		var doc struct {
			Proof json.RawMessage `json:"proof"`
		}
		_ = json.Unmarshal([]byte(vp), &doc)
		var proofs []map[string]any
		if json.Unmarshal(doc.Proof, &proofs) != nil {
			var one map[string]any
			_ = json.Unmarshal(doc.Proof, &one)
			proofs = []map[string]any{one}
		}
		for _, p := range proofs {
			if v, _ := p["challenge"].(string); v != "" {
				s.nonce = v
			} else if v, _ := p["nonce"].(string); v != "" && s.nonce == "" {
				s.nonce = v
			}
		}
	}
	if s.state == "" || s.nonce == "" {
		x.r.Fatalf("could not read state/nonce from the withheld wallet response: %s", string(c.Body))
	}
	return s
}

// base is the valid response for a session.
func (x *o4) base(s *o4Session, credFormat string, ld bool) *o4Resp {
	sp := x.w.base(credFormat)
	sp.nonce = s.nonce
	sp.validity = 5 * time.Minute // the node's own wallet uses 15 minutes; the s2s window does not apply here
	return &o4Resp{spec: sp, ld: ld, state: s.state}
}

func (x *o4) sign(sp *spec, ld bool) (string, error) {
	if !ld {
		return x.w.signVP(sp), nil
	}
	now := time.Now()
	p := iamflow.LDVP{Created: now.Add(sp.nbfOff), Expires: now.Add(sp.nbfOff + sp.validity), Credentials: sp.creds}
	if len(sp.aud) > 0 {
		p.Domain = sp.aud[0]
	}
	if !sp.noNonce {
		p.Challenge = sp.nonce
	}
	doc, err := sp.signer.SignLDVP(x.w.N, p)
	if err != nil {
		return "", err
	}
	out := string(doc)
	if sp.tamperSig {
		// alter one character of the detached signature
		i := strings.Index(out, `"jws":"`)
		if i < 0 {
			return "", fmt.Errorf("no jws in proof")
		}
		b := []byte(out)
		j := i + len(`"jws":"`) + strings.Index(out[i+len(`"jws":"`):], `"`) - 20
		if b[j] == 'A' {
			b[j] = 'B'
		} else {
			b[j] = 'A'
		}
		out = string(b)
	}
	return out, nil
}

func (x *o4) form(p *o4Resp) (url.Values, error) {
	s := p.spec
	tok, err := x.sign(s, p.ld)
	if err != nil {
		return nil, err
	}
	if s.second != nil {
		tok2, err := x.sign(s.second, p.ld)
		if err != nil {
			return nil, err
		}
		q := func(t string) string {
			if p.ld {
				return t
			}
			return `"` + t + `"`
		}
		if s.swap {
			tok = "[" + q(tok2) + "," + q(tok) + "]"
		} else {
			tok = "[" + q(tok) + "," + q(tok2) + "]"
		}
	}
	sub := map[string]any{"id": "o4-sub-" + x.randString(8), "definition_id": s.defID, "descriptor_map": []any{}}
	if !s.noDesc {
		sub["descriptor_map"] = []any{map[string]any{"id": s.descID, "format": s.credFormat, "path": s.descPath}}
		if s.second != nil && s.nested {
			sub["descriptor_map"] = []any{map[string]any{"id": s.descID, "format": "ldp_vp", "path": fmt.Sprintf("$[%d]", s.mapIdx),
				"path_nested": map[string]any{"id": s.descID, "format": s.credFormat, "path": s.descPath}}}
		}
	}
	sj, _ := json.Marshal(sub)
	f := url.Values{"vp_token": {tok}, "presentation_submission": {string(sj)}, "state": {p.state}}
	for _, o := range p.omitForm {
		f.Del(o)
	}
	return f, nil
}

// post sends a response form to the real direct_post endpoint.
func (x *o4) post(f url.Values, subject string) (o4Outcome, error) {
	if subject == "" {
		subject = x.w.Verifier.Name
	}
	resp, err := node.Do("POST", x.w.N.Public+"/oauth2/"+subject+"/response", f.Encode(), map[string]string{"Content-Type": "application/x-www-form-urlencoded", "Accept": "application/json"})
	if err != nil {
		return o4Outcome{}, err
	}
	x.r.Count("openid4vp_responses", 1)
	out := o4Outcome{status: resp.Status, body: string(resp.Body)}
	var body struct {
		RedirectURI string `json:"redirect_uri"`
	}
	if resp.Status/100 == 2 && resp.JSON(&body) == nil && body.RedirectURI != "" {
		out.redirect = body.RedirectURI
		if u, err := url.Parse(body.RedirectURI); err == nil {
			out.code = u.Query().Get("code")
		}
	} else if loc := resp.Header.Get("Location"); loc != "" {
		out.redirect = loc
		if u, err := url.Parse(loc); err == nil {
			out.code = u.Query().Get("code")
		}
	}
	if out.code != "" {
		x.r.Count("openid4vp_codes_issued", 1)
	} else {
		x.r.Count("openid4vp_no_code", 1)
	}
	return out, nil
}

// redeem lets the user agent follow the verifier's redirect to the client's callback: the real client then redeems the code with
// the session's client_id and PKCE verifier. Token requests and their answers are read from the proxy log.
func (x *o4) redeem(s *o4Session, out *o4Outcome) {
	if out.code == "" {
		return
	}
	if !strings.HasPrefix(out.redirect, x.w.Proxy.URL+"/oauth2/"+x.w.Client.Name+"/callback") {
		out.redeemNote = "redirect does not lead to the client's callback: " + out.redirect
		return
	}
	n := x.w.Proxy.Len()
	before := x.puts()
	h, err := s.browser.Get(out.redirect)
	if err != nil {
		out.redeemNote = "callback failed at transport level: " + err.Error()
	} else {
		out.redeemNote = fmt.Sprintf("callback answered %d location=%s", h.Status, h.Location)
	}
	for _, c := range x.w.Proxy.Since(n) {
		if !x.w.IsCodeTokenRequest(c) {
			continue
		}
		x.r.Count("openid4vp_code_redemptions", 1)
		var body map[string]any
		_ = json.Unmarshal(c.RespBody, &body)
		if at, _ := body["access_token"].(string); c.Status == 200 && at != "" {
			out.tokens++
		}
	}
	out.tokenRows = x.puts() - before
}

func (x *o4) witness(name string, f url.Values, outs ...o4Outcome) map[string]any {
	w := map[string]any{"defect": name, "form": f}
	for i, o := range outs {
		w[fmt.Sprintf("response_%d", i+1)] = map[string]any{"status": o.status, "body": o.body, "redirect_uri": o.redirect, "code_issued": o.code != "", "redeem": o.redeemNote,
			"tokens_from_token_endpoint": o.tokens, "token_rows_written": o.tokenRows}
	}
	return w
}

// judge decides one defective response.
func (x *o4) judge(fpr, name string, f url.Values, out o4Outcome, unspecified string) {
	r := x.r
	r.Case(fpr, true)
	r.Count("openid4vp_defective_responses", 1)
	r.Distinct("defects_exercised", "openid4vp:"+name)
	x.answers[fpr] = answerOf(out)
	if out.issued() {
		r.Count("openid4vp_tokens_issued", out.tokens)
		if unspecified != "" {
			r.Unspecified(unspecified)
			return
		}
		r.Violation("C02/issued-despite/openid4vp-"+name, "access token obtained after a wallet response (OpenID4VP direct_post) with defect "+name, x.witness(name, f, out))
		return
	}
	if r.Get("openid4vp_defective_responses") <= 3 {
		r.Sample(map[string]any{"case": fpr, "status": out.status, "answer": out.body, "code_issued": out.code != "", "expected": "no token obtainable"})
	}
}

// run1 applies edit to the valid response of a fresh session, posts it, tries to redeem.
func (x *o4) run1(name, credFormat string, ld bool, unspecified string, edit func(p *o4Resp, s *o4Session) bool) (o4Outcome, bool) {
	s := x.session()
	p := x.base(s, credFormat, ld)
	if edit != nil && !edit(p, s) {
		return o4Outcome{}, false
	}
	vpf := "jwt_vp"
	if ld {
		vpf = "ldp_vp"
	}
	fpr := fmt.Sprintf("openid4vp/%s/%s/%s", vpf, credFormat, name)
	f, err := x.form(p)
	if err != nil {
		x.r.Fatalf("building wallet response %s: %v", fpr, err)
	}
	before := x.puts()
	out, err := x.post(f, p.postTo)
	if err != nil {
		x.r.Inconclusive("wallet response failed at transport level: " + err.Error())
		return out, false
	}
	x.redeem(s, &out)
	if d := x.puts() - before; d > out.tokenRows {
		out.tokenRows = d
	}
	if name == "" {
		x.r.Case(fpr, true)
		if out.code == "" || out.tokens != 1 {
			// the harness' valid response must lead to a token, otherwise every refusal below is meaningless
			x.r.Fatalf("valid wallet response (%s) did not lead to an access token: %d %s; code=%v; %s", fpr, out.status, out.body, out.code != "", out.redeemNote)
		}
		x.r.Count("openid4vp_tokens_issued", 1)
		x.r.Count("openid4vp_valid_responses", 1)
		x.r.Sample(map[string]any{"case": fpr, "status": out.status, "code_issued": true, "redeem": out.redeemNote, "expected": "token"})
		return out, true
	}
	x.judge(fpr, name, f, out, unspecified)
	return out, true
}

func openid4vpLeg(r *ev.Run, w *world, revoked, expired json.RawMessage, puts func() int) {
	x := &o4{r: r, w: w, puts: puts, rnd: r.Rand("openid4vp"), answers: map[string]string{}}
	defer func() { r.Extra("openid4vp_answers_to_defective_responses", x.answers) }()
	r.Assume("OpenID4VP wallet responses: the harness is the wallet (did:jwk holder, JWT and JSON-LD presentations over the real session's nonce and state, posted to the real " +
		"/oauth2/{subject}/response handler); codes are redeemed through the real client's callback. Policy: one organisation definition per scope (a single OpenID4VP round per session)")
	byName := map[string]defect{}
	for _, d := range defects(w, revoked, expired) {
		byName[d.name] = d
	}
	credFormats := []string{"ldp_vc", "jwt_vc"}
	pickFormats := func() []string {
		if r.Thorough() {
			return credFormats
		}
		return []string{credFormats[x.rnd.Intn(2)]}
	}

	// a credential of the same holder that does not match the definition
	employee, err := func() (json.RawMessage, error) {
		req := map[string]any{"type": "NutsEmployeeCredential", "issuer": w.Client.DID, "format": "ldp_vc", "withStatusList2021Revocation": false,
			"credentialSubject": map[string]any{"id": w.h1.DID, "name": "Jane", "roleName": "Nurse", "identifier": "481"}}
		resp, err := node.Do("POST", w.N.Internal+"/internal/vcr/v2/issuer/vc", req, nil)
		if err != nil {
			return nil, err
		}
		if resp.Status != 200 {
			return nil, fmt.Errorf("%s", resp)
		}
		return json.RawMessage(strings.TrimSpace(string(resp.Body))), nil
	}()
	if err != nil {
		fmt.Printf("NOTE: property=C02 could not issue a credential of another type (%v); defects with a non-matching credential not generated\n", err)
		employee = nil
	}

	// ---- controls: the valid response leads to a token -------------------------------------------------------------
	for i := 0; i < r.Pick(1, 3); i++ {
		x.run1("", "ldp_vc", false, "", nil)
		x.run1("", "jwt_vc", false, "", nil)
		x.run1("", "ldp_vc", true, "", nil)
	}

	// ---- single defects of the presentation / submission (shared with the s2s leg), JWT presentations ------------------
	shared := []string{"wrong-audience", "foreign-audience", "missing-audience", "audience-text-extension", "audience-text-prefix", "audience-other-letter-case",
		"expired-presentation", "not-yet-valid-presentation", "missing-nonce", "signer-not-subject", "signature-by-other-key", "tampered-vp-signature", "tampered-credential",
		"foreign-definition-id", "unknown-definition-id", "descriptor-path-elsewhere", "descriptor-unknown-id", "empty-descriptor-map", "no-credentials",
		"revoked-credential", "expired-credential"}
	for _, n := range shared {
		d, ok := byName[n]
		if !ok {
			continue // (revoked / expired credential could not be produced)
		}
		for _, cf := range pickFormats() {
			x.run1(n, cf, false, "", func(p *o4Resp, s *o4Session) bool { return d.apply(w, p.spec) })
		}
	}
	// the same on JSON-LD presentations (proof domain / challenge instead of aud / nonce)
	for _, n := range []string{"wrong-audience", "missing-audience", "audience-text-extension", "missing-nonce", "signer-not-subject", "tampered-vp-signature", "tampered-credential",
		"expired-presentation", "descriptor-unknown-id", "revoked-credential"} {
		d, ok := byName[n]
		if !ok {
			continue
		}
		x.run1(n, "ldp_vc", true, "", func(p *o4Resp, s *o4Session) bool { return d.apply(w, p.spec) })
	}

	// ---- defects of nonce, state and addressing that only exist in this flow ------------------------------------------
	type own struct {
		name        string
		unspecified string
		edit        func(p *o4Resp, s *o4Session) bool
	}
	finished := x.session() // a session whose nonce gets used by a valid response first
	{
		p := x.base(finished, "ldp_vc", false)
		f, err := x.form(p)
		if err != nil {
			r.Fatalf("building wallet response: %v", err)
		}
		out, err := x.post(f, "")
		if err != nil || out.code == "" {
			r.Fatalf("valid wallet response refused: %v %d %s", err, out.status, out.body)
		}
	}
	owns := []own{
		{"wrong-nonce", "", func(p *o4Resp, s *o4Session) bool { p.nonce = x.randString(43); return true }},
		{"nonce-altered-last-character", "", func(p *o4Resp, s *o4Session) bool {
			b := []byte(p.nonce)
			if b[len(b)-1] == 'A' {
				b[len(b)-1] = 'B'
			} else {
				b[len(b)-1] = 'A'
			}
			p.nonce = string(b)
			return true
		}},
		{"nonce-is-the-state", "", func(p *o4Resp, s *o4Session) bool { p.nonce = s.state; return true }},
		{"nonce-of-other-session", "", func(p *o4Resp, s *o4Session) bool { p.nonce = x.session().nonce; return true }},
		{"state-of-other-session", "", func(p *o4Resp, s *o4Session) bool { p.state = x.session().state; return true }},
		{"reused-nonce-of-finished-session", "", func(p *o4Resp, s *o4Session) bool { p.nonce = finished.nonce; return true }},
		{"state-of-finished-session", "", func(p *o4Resp, s *o4Session) bool { p.state = finished.state; return true }},
		{"nonce-and-state-of-finished-session", "", func(p *o4Resp, s *o4Session) bool { p.nonce, p.state = finished.nonce, finished.state; return true }},
		{"unknown-state", "", func(p *o4Resp, s *o4Session) bool { p.state = x.randString(43); return true }},
		{"state-is-the-nonce", "", func(p *o4Resp, s *o4Session) bool { p.state = s.nonce; return true }},
		{"empty-state", "", func(p *o4Resp, s *o4Session) bool { p.state = ""; return true }},
		{"missing-state", "", func(p *o4Resp, s *o4Session) bool { p.omitForm = []string{"state"}; return true }},
		{"missing-vp_token", "", func(p *o4Resp, s *o4Session) bool { p.omitForm = []string{"vp_token"}; return true }},
		{"missing-submission", "", func(p *o4Resp, s *o4Session) bool { p.omitForm = []string{"presentation_submission"}; return true }},
		// the credential's signature value altered, its content (and, for a JWT, its JSON) intact
		{"tampered-credential-signature", "", func(p *o4Resp, s *o4Session) bool {
			c := string(p.creds[0])
			end := len(c) - 1 // JWT credential: a JSON string, the signature is its last segment
			if strings.HasPrefix(c, "{") {
				i := strings.Index(c, `"jws":"`)
				if i < 0 {
					return false
				}
				end = i + len(`"jws":"`) + strings.Index(c[i+len(`"jws":"`):], `"`)
			}
			b := []byte(c)
			if b[end-20] == 'A' {
				b[end-20] = 'B'
			} else {
				b[end-20] = 'A'
			}
			p.creds = []json.RawMessage{b}
			return true
		}},
		// the response endpoint of another subject of this node: the presentation is then either not addressed to the server that
		// takes it, or (second case) not addressed to the server whose session - and token - it feeds
		{"posted-to-other-subject", "", func(p *o4Resp, s *o4Session) bool { p.postTo = w.Client.Name; return true }},
		{"posted-to-other-subject-addressed-to-it", "", func(p *o4Resp, s *o4Session) bool {
			p.postTo = w.Client.Name
			p.aud = []string{w.Client.URL}
			return true
		}},
		// the property names a validity window without a length for this flow (the node's wallet uses 15 minutes, s2s allows 5 s)
		{"validity-one-year", "openid4vp-presentation-validity-window", func(p *o4Resp, s *o4Session) bool { p.validity = 365 * 24 * time.Hour; return true }},
	}
	if employee != nil {
		owns = append(owns,
			own{"credential-not-matching-definition", "", func(p *o4Resp, s *o4Session) bool {
				p.creds, p.credFormat = []json.RawMessage{employee}, "ldp_vc"
				return true
			}},
			// permuted map: the matching credential is present, the descriptor points at the other one
			own{"descriptor-points-at-non-matching-credential", "", func(p *o4Resp, s *o4Session) bool {
				p.creds = []json.RawMessage{employee, p.creds[0]}
				return true
			}},
		)
	}
	for _, o := range owns {
		o := o
		for _, cf := range pickFormats() {
			x.run1(o.name, cf, false, o.unspecified, o.edit)
		}
	}
	for _, n := range []string{"wrong-nonce", "nonce-of-other-session", "state-of-other-session", "reused-nonce-of-finished-session"} {
		for _, o := range owns {
			if o.name == n {
				x.run1(o.name, "ldp_vc", true, "", o.edit)
			}
		}
	}

	// ---- second use of a response ------------------------------------------------------------------------------------
	for _, variant := range []string{"response-posted-twice", "response-replayed-after-redemption", "fresh-presentation-same-nonce-after-redemption"} {
		for _, cf := range pickFormats() {
			s := x.session()
			f, err := x.form(x.base(s, cf, false))
			if err != nil {
				r.Fatalf("building wallet response: %v", err)
			}
			before := puts()
			first, err := x.post(f, "")
			if err != nil || first.code == "" {
				r.Fatalf("valid wallet response refused: %v %d %s", err, first.status, first.body)
			}
			if variant != "response-posted-twice" {
				x.redeem(s, &first)
			}
			f2 := f
			if variant == "fresh-presentation-same-nonce-after-redemption" {
				if f2, err = x.form(x.base(s, cf, false)); err != nil {
					r.Fatalf("building wallet response: %v", err)
				}
			}
			second, err := x.post(f2, "")
			if err != nil {
				r.Inconclusive("wallet response failed at transport level: " + err.Error())
				continue
			}
			if variant == "response-posted-twice" {
				x.redeem(s, &first)
			}
			if first.tokens != 1 {
				r.Fatalf("valid wallet response did not lead to a token: %s", first.redeemNote)
			}
			r.Count("openid4vp_tokens_issued", 1)
			x.redeem(s, &second)
			rows := puts() - before
			fpr := fmt.Sprintf("openid4vp/jwt_vp/%s/%s", cf, variant)
			r.Case(fpr, true)
			r.Count("openid4vp_defective_responses", 1)
			r.Distinct("defects_exercised", "openid4vp:"+variant)
			if second.tokens > 0 || rows > 1 {
				r.Count("openid4vp_tokens_issued", second.tokens)
				r.Violation("C02/issued-despite/openid4vp-"+variant, fmt.Sprintf("a second access token was obtained from the second use of one session nonce (%s): %d token rows written for one session", variant, rows),
					x.witness(variant, f2, first, second))
			}
		}
	}
	// a refused response has shown the nonce: a corrected response over the same nonce carries a nonce seen before
	for _, n := range []string{"wrong-audience", "tampered-vp-signature", "descriptor-unknown-id"} {
		d := byName[n]
		s := x.session()
		cf := pickFormats()[0]
		bad := x.base(s, cf, false)
		d.apply(w, bad.spec)
		fb, err := x.form(bad)
		if err != nil {
			r.Fatalf("building wallet response: %v", err)
		}
		before := puts()
		first, err := x.post(fb, "")
		if err != nil {
			r.Inconclusive("wallet response failed at transport level: " + err.Error())
			continue
		}
		x.redeem(s, &first)
		fg, _ := x.form(x.base(s, cf, false))
		second, err := x.post(fg, "")
		if err != nil {
			r.Inconclusive("wallet response failed at transport level: " + err.Error())
			continue
		}
		x.redeem(s, &second)
		name := "valid-retry-with-nonce-of-refused-response/" + n
		fpr := fmt.Sprintf("openid4vp/jwt_vp/%s/%s", cf, name)
		r.Case(fpr, true)
		r.Count("openid4vp_defective_responses", 2)
		r.Distinct("defects_exercised", "openid4vp:"+name)
		if first.issued() {
			r.Violation("C02/issued-despite/openid4vp-"+n, "access token obtained after a wallet response (OpenID4VP direct_post) with defect "+n, x.witness(n, fb, first))
		} else if second.issued() || puts() != before {
			r.Count("openid4vp_tokens_issued", second.tokens)
			r.Violation("C02/issued-despite/openid4vp-valid-retry-with-nonce-of-refused-response", "access token obtained with a presentation whose nonce had been presented before (in a refused response with defect "+n+")",
				x.witness(name, fg, first, second))
		}
	}

	// ---- several presentations in one vp_token: every one of them has to pass every check ---------------------------------
	for _, cf := range pickFormats() {
		type two struct {
			name string
			onA  string // defect on the presentation the descriptor is mapped to
			onB  func(b *spec, s *o4Session)
		}
		mk := func(s *o4Session, bFirst bool) *o4Resp {
			p := x.base(s, cf, false)
			b := x.base(s, cf, false).spec
			b.creds = nil
			p.second, p.nested, p.swap = b, true, bFirst
			if bFirst {
				p.mapIdx = 1
			}
			return p
		}
		for _, bFirst := range []bool{false, true} {
			pos := map[bool]string{false: "other-last", true: "other-first"}[bFirst]
			// control
			s := x.session()
			f, err := x.form(mk(s, bFirst))
			if err != nil {
				r.Fatalf("building wallet response: %v", err)
			}
			ctl, err := x.post(f, "")
			if err != nil {
				r.Inconclusive("wallet response failed at transport level: " + err.Error())
				continue
			}
			x.redeem(s, &ctl)
			r.Case(fmt.Sprintf("openid4vp/jwt_vp/%s/two-presentations/control/%s", cf, pos), true)
			if ctl.tokens == 0 {
				// the node does not take this shape of vp_token at all: nothing to learn from refusals of its defective variants
				r.Unspecified("openid4vp-two-presentation-response-refused/" + pos)
				continue
			}
			r.Count("openid4vp_tokens_issued", ctl.tokens)
			r.Count("openid4vp_two_presentation_controls_accepted", 1)
			cases := []two{
				{"other-presentation-other-nonce", "", func(b *spec, s *o4Session) { b.nonce = x.randString(43) }},
				{"other-presentation-nonce-of-other-session", "", func(b *spec, s *o4Session) { b.nonce = x.session().nonce }},
				{"other-presentation-missing-nonce", "", func(b *spec, s *o4Session) { b.noNonce = true }},
				{"other-presentation-wrong-audience", "", func(b *spec, s *o4Session) { b.aud = []string{w.Client.URL} }},
				{"other-presentation-missing-audience", "", func(b *spec, s *o4Session) { b.aud = nil }},
				{"other-presentation-tampered-vp-signature", "", func(b *spec, s *o4Session) { b.tamperSig = true }},
				{"other-presentation-expired", "", func(b *spec, s *o4Session) { b.nbfOff = -10 * time.Minute }},
				{"other-presentation-other-subject", "", func(b *spec, s *o4Session) { b.signer, b.creds = w.h2, []json.RawMessage{w.ldp2} }},
				{"mapped-presentation-wrong-audience", "wrong-audience", nil},
				{"mapped-presentation-missing-nonce", "missing-nonce", nil},
				{"mapped-presentation-tampered-credential", "tampered-credential", nil},
			}
			for _, c := range cases {
				s := x.session()
				p := mk(s, bFirst)
				if c.onA != "" {
					byName[c.onA].apply(w, p.spec)
				}
				if c.onB != nil {
					c.onB(p.second, s)
				}
				f, err := x.form(p)
				if err != nil {
					r.Fatalf("building wallet response: %v", err)
				}
				before := puts()
				out, err := x.post(f, "")
				if err != nil {
					r.Inconclusive("wallet response failed at transport level: " + err.Error())
					continue
				}
				x.redeem(s, &out)
				if d := puts() - before; d > out.tokenRows {
					out.tokenRows = d
				}
				name := "two-presentations/" + c.name
				x.judge(fmt.Sprintf("openid4vp/jwt_vp/%s/%s/%s", cf, name, pos), name, f, out, "")
			}
		}
	}
	if r.Get("openid4vp_valid_responses") == 0 || r.Get("openid4vp_defective_responses") < 40 {
		r.Fatalf("OpenID4VP leg evaluated too little: %d valid, %d defective responses", r.Get("openid4vp_valid_responses"), r.Get("openid4vp_defective_responses"))
	}
}
