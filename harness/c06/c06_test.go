// Check C06: only valid, signed, causally complete transactions enter the DAG, exactly once.
//
// Real dag.State on bbolt with the production verifiers (NewPrevTransactionsVerifier, NewTransactionSignatureVerifier over the
// production dag.SourceTXKeyResolver on a real didstore on bbolt that is fed, as in production, by a persistent "vdr" subscriber for
// did+json payloads) and persistent subscribers whose receiver calls and job shelves are recorded. Generated DAGs (gen_test.go) are
// offered in perturbed orders together with hostile variants of their transactions; a reference admission model that only uses what
// the generator knows it built decides what must be refused. After every offer the complete store (every bbolt bucket, byte for
// byte), the public digests and the receiver calls are compared with what the model allows. Concurrent submissions (conc_test.go)
// are steered at the Add hooks and checked for linearizability against the sequential model with porcupine.
package c06

import (
	"bytes"
	"context"
	"crypto/sha256"
	"encoding/binary"
	"encoding/hex"
	"encoding/json"
	"errors"
	"fmt"
	"io"
	"os"
	"sort"
	"strings"
	"sync"
	"testing"

	"github.com/nuts-foundation/go-did/did"
	"github.com/nuts-foundation/go-stoabs"
	"github.com/nuts-foundation/nuts-node/core"
	"github.com/nuts-foundation/nuts-node/crypto/hash"
	"github.com/nuts-foundation/nuts-node/network/dag"
	"github.com/nuts-foundation/nuts-node/storage"
	"github.com/nuts-foundation/nuts-node/vdr/didnuts/didstore"
	"github.com/sirupsen/logrus"
	"go.etcd.io/bbolt"
	"verif/lib/dagx"
	"verif/lib/ev"
	"verif/lib/faultstore"
)

// ---- environment: real state, real didstore, recording subscribers -------------------------------------------

type provider struct{ db stoabs.KVStore }

func (p provider) GetKVStore(string, storage.Class) (stoabs.KVStore, error) { return p.db, nil }

type env struct {
	dir       string
	db        stoabs.KVStore
	fs        *faultstore.Store
	st        dag.State
	didDB     stoabs.KVStore
	dids      didstore.Store
	notifiers []dag.Notifier

	mu      sync.Mutex
	calls   map[string]map[hash.SHA256Hash]int // subscriber -> transaction -> receiver calls
	total   int
	vdrErrs []string

	m    *model
	last *snap
}

const didDocumentType = "application/did+json"

func openEnv(dir string, withDID bool) *env {
	db, err := dagx.OpenStore(dir, false)
	if err != nil {
		panic(err)
	}
	e := &env{dir: dir, db: db, fs: faultstore.New(db), calls: map[string]map[hash.SHA256Hash]int{}}
	var verifiers []dag.Verifier
	if withDID {
		if err := os.MkdirAll(dir+"/did", 0o755); err != nil {
			panic(err)
		}
		if e.didDB, err = dagx.OpenStore(dir+"/did", false); err != nil {
			panic(err)
		}
		e.dids = didstore.New(provider{e.didDB})
		if err := e.dids.(core.Configurable).Configure(core.ServerConfig{}); err != nil {
			panic(err)
		}
		// as network.Configure wires it
		verifiers = []dag.Verifier{dag.NewPrevTransactionsVerifier(), dag.NewTransactionSignatureVerifier(dag.SourceTXKeyResolver{Resolver: e.dids})}
	} else {
		verifiers = []dag.Verifier{dag.NewPrevTransactionsVerifier(), dag.NewTransactionSignatureVerifier(nil)}
	}
	if e.st, err = dag.NewState(e.fs, verifiers...); err != nil {
		panic(err)
	}
	isTx := func(ev dag.Event) bool { return ev.Type == dag.TransactionEventType }
	isPayload := func(ev dag.Event) bool { return ev.Type == dag.PayloadEventType }
	held := func(dag.Event) (bool, error) { return false, dag.EventFatal{Err: errors.New("kept in the job shelf")} }
	done := func(dag.Event) (bool, error) { return true, nil }
	e.subscribe("txs", done, isTx)
	e.subscribe("payloads", done, isPayload)
	e.subscribe("held", held, isTx)
	e.subscribe("heldp", held, isPayload)
	if withDID {
		// the ambassador's subscription (vdr/didnuts/ambassador.go): payload events of DID documents; stores the document version
		e.subscribe("vdr", e.vdrReceiver, func(ev dag.Event) bool {
			return ev.Type == dag.PayloadEventType && ev.Transaction.PayloadType() == didDocumentType
		})
	}
	dag.VerifLoadState(e.st)
	return e
}

func (e *env) subscribe(name string, fn dag.ReceiverFn, filter dag.NotificationFilter) {
	e.calls[name] = map[hash.SHA256Hash]int{}
	n, err := e.st.Notifier(name, func(ev dag.Event) (bool, error) {
		e.mu.Lock()
		e.calls[name][ev.Hash]++
		e.total++
		e.mu.Unlock()
		return fn(ev)
	}, dag.WithPersistency(e.fs), dag.WithSelectionFilter(filter))
	if err != nil {
		panic(err)
	}
	e.notifiers = append(e.notifiers, n)
}

func (e *env) vdrReceiver(ev dag.Event) (bool, error) {
	var doc did.Document
	err := json.Unmarshal(ev.Payload, &doc)
	if err == nil {
		tx := ev.Transaction
		err = e.dids.Add(doc, didstore.Transaction{Clock: tx.Clock(), PayloadHash: tx.PayloadHash(), Previous: tx.Previous(), Ref: tx.Ref(), SigningTime: tx.SigningTime()})
	}
	if err != nil {
		e.mu.Lock()
		e.vdrErrs = append(e.vdrErrs, err.Error())
		e.mu.Unlock()
		return false, dag.EventFatal{Err: err}
	}
	return true, nil
}

func (e *env) callsOf(sub string, ref hash.SHA256Hash) int {
	e.mu.Lock()
	defer e.mu.Unlock()
	return e.calls[sub][ref]
}

func (e *env) totalCalls() int { e.mu.Lock(); defer e.mu.Unlock(); return e.total }

func (e *env) close() {
	for _, n := range e.notifiers {
		_ = n.Close()
	}
	_ = e.st.Shutdown()
	_ = e.db.Close(context.Background())
	if e.didDB != nil {
		_ = e.didDB.Close(context.Background())
	}
}

func tmp(t *testing.T, name string) string {
	d, err := os.MkdirTemp("", "c06-"+name+"-")
	if err != nil {
		t.Fatal(err)
	}
	t.Cleanup(func() { os.RemoveAll(d) })
	return d
}

// ---- snapshot: every bucket byte for byte + the public digests ------------------------------------------------

type snap struct {
	raw  [32]byte
	per  map[string][32]byte
	docs map[hash.SHA256Hash]struct{} // keys of the transactions shelf
	held map[hash.SHA256Hash]struct{} // keys of the "held" subscriber's job shelf
	api  map[string]string
	size int
}

func (e *env) snapshot() *snap {
	s := &snap{per: map[string][32]byte{}, docs: map[hash.SHA256Hash]struct{}{}, held: map[hash.SHA256Hash]struct{}{}, api: map[string]string{}}
	var names []string
	err := e.db.Read(context.Background(), func(tx stoabs.ReadTx) error {
		btx := tx.Unwrap().(*bbolt.Tx)
		return btx.ForEach(func(name []byte, b *bbolt.Bucket) error {
			h := sha256.New()
			var l [8]byte
			shelf := string(name)
			err := b.ForEach(func(k, v []byte) error {
				binary.BigEndian.PutUint32(l[:4], uint32(len(k)))
				binary.BigEndian.PutUint32(l[4:], uint32(len(v)))
				h.Write(l[:])
				h.Write(k)
				h.Write(v)
				s.size += len(k) + len(v)
				switch shelf {
				case "documents":
					s.docs[hash.FromSlice(k)] = struct{}{}
				case "_held_jobs":
					s.held[hash.FromSlice(k)] = struct{}{}
				}
				return nil
			})
			var d [32]byte
			copy(d[:], h.Sum(nil))
			s.per[shelf] = d
			names = append(names, shelf)
			return err
		})
	})
	if err != nil {
		panic(err)
	}
	sort.Strings(names)
	all := sha256.New()
	for _, n := range names {
		d := s.per[n]
		all.Write([]byte(n))
		all.Write(d[:])
	}
	copy(s.raw[:], all.Sum(nil))
	x, xc := e.st.XOR(dag.MaxLamportClock)
	s.api["xor"] = fmt.Sprintf("%s@%d", x, xc)
	ib, ic := e.st.IBLT(dag.MaxLamportClock)
	ibb, _ := ib.MarshalBinary()
	id := sha256.Sum256(ibb)
	s.api["iblt"] = fmt.Sprintf("%s@%d", hex.EncodeToString(id[:8]), ic)
	head, err := e.st.Head(context.Background())
	s.api["head"] = fmt.Sprintf("%s %v", head, err)
	// (Diagnostics() re-parses every job of every subscriber shelf; the counters it reports are compared by dagx.Compare at intervals and
	// are covered here through the raw metadata shelf)
	return s
}

// diff lists what differs between two snapshots (shelf names, public values).
func (a *snap) diff(b *snap) []string {
	var out []string
	for n, d := range a.per {
		if o, ok := b.per[n]; !ok {
			out = append(out, "shelf "+n+" disappeared")
		} else if o != d {
			out = append(out, "shelf "+n+" changed")
		}
	}
	for n := range b.per {
		if _, ok := a.per[n]; !ok {
			out = append(out, "shelf "+n+" appeared")
		}
	}
	for k, v := range a.api {
		if b.api[k] != v {
			out = append(out, fmt.Sprintf("%s: %s -> %s", k, v, b.api[k]))
		}
	}
	sort.Strings(out)
	return out
}

// ---- reference admission model --------------------------------------------------------------------------------

type model struct {
	present map[hash.SHA256Hash]int64 // ref -> clock
	hasRoot bool
	docs    map[hash.SHA256Hash]*docVer // document versions the DID store was told about, by transaction
	led     *dagx.Ledger
}

func newModel() *model {
	return &model{present: map[hash.SHA256Hash]int64{}, docs: map[hash.SHA256Hash]*docVer{}, led: dagx.NewLedger()}
}

type verdict int

const (
	mustReject verdict = iota
	mustAdmit
	either
	presentNoop
)

func (v verdict) String() string {
	return [...]string{"must-be-refused", "must-be-admitted", "unspecified", "already-present"}[v]
}

// resolve: the key that kid denotes in the signer's DID document as of the referenced transactions.
func (m *model) resolve(kid string, prevs []hash.SHA256Hash) (*keyT, string) {
	i := strings.IndexByte(kid, '#')
	if !strings.HasPrefix(kid, "did:") || i < 0 {
		return nil, "none"
	}
	didID := kid[:i]
	var answers []*keyT
	for _, p := range prevs {
		if dv := m.docs[p]; dv != nil && dv.did.id == didID {
			answers = append(answers, dv.keys[kid])
		}
	}
	if len(answers) == 0 {
		return nil, "none"
	}
	for _, a := range answers[1:] {
		if a != answers[0] {
			return nil, "ambiguous" // references span document versions that disagree about the key
		}
	}
	if answers[0] == nil {
		return nil, "none"
	}
	return answers[0], "found"
}

// judge decides from the generator's facts alone.
func (m *model) judge(ref hash.SHA256Hash, f *facts, payload []byte) (verdict, string) {
	if _, ok := m.present[ref]; ok {
		return presentNoop, "present"
	}
	if f.bad != "" {
		return mustReject, f.bad
	}
	hi := int64(-1)
	for _, p := range f.prevs {
		c, ok := m.present[p]
		if !ok {
			return mustReject, "a referenced transaction is not present"
		}
		if c > hi {
			hi = c
		}
	}
	if f.lc != hi+1 {
		return mustReject, fmt.Sprintf("clock %d is not %d", f.lc, hi+1)
	}
	if len(f.prevs) == 0 && m.hasRoot {
		return mustReject, "second root"
	}
	un := f.unspec
	if f.kid != "" {
		k, st := m.resolve(f.kid, f.prevs)
		switch st {
		case "none":
			return mustReject, "kid denotes no key as of the referenced transactions"
		case "ambiguous":
			un = "kid-prevs-span-document-versions"
		default:
			if k != f.signer {
				return mustReject, "not signed by the key kid denotes"
			}
		}
	}
	if payload != nil && !hash.SHA256Sum(payload).Equals(f.phash) {
		return mustReject, "supplied payload does not hash to the declared payload hash"
	}
	if un != "" {
		return either, un
	}
	return mustAdmit, ""
}

func (m *model) admit(ref hash.SHA256Hash, f *facts, payload []byte) {
	// the effective clock of an admitted item is max(prev)+1 by the rules above
	hi := int64(-1)
	for _, p := range f.prevs {
		if c, ok := m.present[p]; ok && c > hi {
			hi = c
		}
	}
	m.present[ref] = hi + 1
	m.led.Add(ref, uint32(hi+1))
	if len(f.prevs) == 0 {
		m.hasRoot = true
	}
	if f.doc != nil && payload != nil {
		m.docs[ref] = f.doc
	}
}

// ---- offering one item and checking everything around it --------------------------------------------------------

type seqRun struct {
	t    *testing.T
	r    *ev.Run
	e    *env
	dag  string
	cls  map[string]int
	stat map[string]int
	fp   string // extra dimensions of the case fingerprint (young-DAG matrix: format version / key family / private)
}

func stage(perr, aerr error) string {
	switch {
	case perr != nil:
		return "parse"
	case aerr == nil:
		return "admitted"
	case strings.Contains(aerr.Error(), "transaction verification failed"):
		return "verify"
	}
	return "write"
}

func short(b []byte) string {
	if len(b) > 2600 {
		return string(b[:2600]) + "…"
	}
	return string(b)
}

// offer submits one item through dag.ParseTransaction + State.Add and compares every observable with the model. light skips the
// snapshot (bulk prefixes of long DAGs); the next full offer takes a fresh one.
func (q *seqRun) offer(o *offerT, slot string, light bool) bool {
	e, r, m := q.e, q.r, q.e.m
	ref := o.ref()
	if e.last == nil && !light {
		e.last = e.snapshot()
	}
	before := e.last
	callsBefore := e.totalCalls()
	writesBefore := e.fs.Writes
	v, why := m.judge(ref, &o.f, o.payload)

	var tx dag.Transaction
	var perr, aerr error
	func() {
		defer func() {
			if p := recover(); p != nil {
				perr = fmt.Errorf("panic: %v", p)
				r.Violation("C06/panic/ParseTransaction", fmt.Sprintf("ParseTransaction panicked on a %s variant: %v", o.f.class, p), map[string]any{"class": o.f.class, "data": short(o.data)})
			}
		}()
		tx, perr = dag.ParseTransaction(o.data)
	}()
	if perr == nil && v == mustAdmit && !light && before != nil {
		// every third valid offer is first made to fail in the store (rotating: commit refused, caller gone during the write, n-th Put
		// failing): the refused Add may leave nothing behind, in the shelves or in what XOR/IBLT/Head report (incl. the clock)
		q.stat["valid_offers"]++
		if n := q.stat["valid_offers"]; n%3 == 0 {
			kinds := []string{"commit-refused", "caller-gone-in-write", "put-1-failed", "put-2-failed", "put-3-failed", "put-4-failed"}
			kind := kinds[(n/3)%len(kinds)]
			ctx, cancel := context.WithCancel(context.Background())
			plan := &faultstore.Plan{Once: true}
			switch kind {
			case "commit-refused":
				plan.FailAtEnd = true
			case "caller-gone-in-write":
				plan.AtEnd = cancel
			default:
				plan.FailOp = int(kind[4] - '0')
			}
			faultsBefore := e.fs.Faults
			e.fs.Arm(plan)
			ferr := e.st.Add(ctx, tx, o.payload)
			e.fs.Arm(nil)
			cancel()
			switch {
			case ferr == nil:
				// the fault did not bite (fewer Puts than n, or the store does not consult the context): the transaction is in;
				// the regular Add below is then a re-submission of a present transaction
				r.Count("failed_write_fault_not_effective", 1)
				m.admit(ref, &o.f, o.payload)
				r.Count("admitted", 1)
				e.last = e.snapshot()
				before = e.last
				callsBefore = e.totalCalls()
				v, why = presentNoop, "present"
			default:
				r.Count("failed_writes_of_valid_transactions", 1)
				r.Case("failed-write/"+kind+"/"+o.f.group, true)
				_ = faultsBefore
				afterFault := e.snapshot()
				if d := before.diff(afterFault); afterFault.raw != before.raw || len(d) > 0 {
					r.Violation("C06/refused-left-trace/write-failed/"+kind, fmt.Sprintf("a valid transaction (%s) whose Add failed (%s: %v) changed the store or the digests: %s", o.f.class, kind, ferr, strings.Join(d, "; ")),
						map[string]any{"dag": q.dag, "class": o.f.class, "slot": slot, "fault": kind, "error": ferr.Error(), "differences": d, "transaction": short(o.data)})
				}
				if present, _ := e.st.IsPresent(context.Background(), ref); present {
					r.Violation("C06/presence/write-failed/"+kind, fmt.Sprintf("IsPresent=true after an Add that failed (%s: %v)", kind, ferr), map[string]any{"dag": q.dag, "class": o.f.class, "fault": kind})
				}
				if c := e.totalCalls(); c != callsBefore {
					r.Violation("C06/refused-notified/write-failed/"+kind, fmt.Sprintf("subscribers were called %d times for a transaction whose Add failed (%s)", c-callsBefore, kind), map[string]any{"dag": q.dag, "class": o.f.class, "fault": kind})
					callsBefore = c
				}
			}
		}
	}
	if perr == nil {
		func() {
			defer func() {
				if p := recover(); p != nil {
					aerr = fmt.Errorf("panic: %v", p)
					r.Violation("C06/panic/State.Add", fmt.Sprintf("State.Add panicked on a %s variant: %v", o.f.class, p), map[string]any{"class": o.f.class, "data": short(o.data)})
				}
			}()
			aerr = e.st.Add(context.Background(), tx, o.payload)
		}()
	}
	st := stage(perr, aerr)
	refused := st != "admitted"
	q.cls[o.f.class]++
	q.stat["offers"]++
	q.stat["offers_"+o.f.group]++
	r.Count("offers", 1)
	witness := func() map[string]any {
		w := map[string]any{"dag": q.dag, "class": o.f.class, "slot": slot, "model": v.String(), "model_reason": why, "result": st,
			"transaction": short(o.data), "present_before": len(m.present)}
		if perr != nil {
			w["error"] = perr.Error()
		} else if aerr != nil {
			w["error"] = aerr.Error()
		}
		if o.payload != nil {
			w["payload_hex"] = hex.EncodeToString(o.payload[:min(len(o.payload), 64)])
		}
		return w
	}
	key := o.f.key
	if key == "" {
		key = o.f.class
	}

	admitted := false
	switch v {
	case presentNoop:
		r.Count("readds_of_present", 1)
		if refused {
			r.Violation("C06/readd-refused/"+o.f.group, fmt.Sprintf("re-submitting a present transaction (%s) failed at %s", o.f.class, st), witness())
		}
	case mustReject:
		if !refused {
			if o.f.key != "" {
				r.Count("lenient_reencodings_admitted(known-finding classes)", 1)
			} else {
				r.Count("model_disagreements", 1)
			}
			r.Violation("C06/admitted/"+key, fmt.Sprintf("a %s variant entered the DAG although %s", o.f.class, why), witness())
			admitted = true // follow the code so that later comparisons stay meaningful
		} else {
			r.Count("refused_at_"+st, 1)
		}
	case mustAdmit:
		if refused {
			r.Count("model_disagreements", 1)
			r.Violation("C06/valid-refused/"+key, fmt.Sprintf("a valid transaction (%s) was refused at %s", o.f.class, st), witness())
		} else {
			admitted = true
		}
	case either:
		if refused {
			r.Unspecified(why + "/refused")
		} else {
			r.Unspecified(why + "/admitted")
			admitted = true
		}
	}
	if admitted {
		m.admit(ref, &o.f, o.payload)
		r.Count("admitted", 1)
	} else if v != presentNoop {
		r.Count("refused", 1)
	}

	// observation after the call
	present, perr2 := e.st.IsPresent(context.Background(), ref)
	_, inModel := m.present[ref]
	if perr2 != nil || present != inModel {
		r.Violation("C06/presence/"+o.f.group, fmt.Sprintf("IsPresent=%v (err %v) after a %s offer whose result was %s", present, perr2, o.f.class, st), witness())
	}
	if light {
		e.last = nil
		q.caseDone(o, slot, v, st)
		return admitted
	}
	after := e.snapshot()
	e.last = after
	r.Count("snapshots_compared", 1)
	callsNow := e.totalCalls()
	if !admitted {
		// refused, or a re-submission of a present transaction: nothing may have changed, no-one may have been called
		if after.raw != before.raw || len(before.diff(after)) > 0 {
			k := "C06/refused-left-trace/" + st + "/" + o.f.group
			what := "a refused"
			if v == presentNoop {
				k, what = "C06/readd-changed-state/"+o.f.group, "a re-submitted present"
			}
			w := witness()
			w["differences"] = before.diff(after)
			r.Violation(k, fmt.Sprintf("%s transaction (%s) changed the store or the digests: %s", what, o.f.class, strings.Join(before.diff(after), "; ")), w)
		}
		if callsNow != callsBefore {
			k := "C06/refused-notified/" + st + "/" + o.f.group
			if v == presentNoop {
				k = "C06/readd-notified/" + o.f.group
			}
			r.Violation(k, fmt.Sprintf("%d receiver call(s) after a %s offer with result %s (model: %s)", callsNow-callsBefore, o.f.class, st, v), witness())
		}
		if e.fs.Writes > writesBefore && v != presentNoop {
			// refused after the write transaction had begun: whatever it wrote (payload, subscriber jobs) was rolled back
			r.Count("refused_inside_write_tx", 1)
			r.Count("write_ops_rolled_back", len(e.fs.LastOps()))
		}
	} else {
		q.checkAdmitted(o, ref, tx, before, after, callsNow-callsBefore, witness)
	}
	// the set of present transactions equals the model's
	if len(after.docs) != len(m.present) {
		r.Violation("C06/present-set/"+o.f.group, fmt.Sprintf("the store holds %d transactions, the model %d after a %s offer", len(after.docs), len(m.present), o.f.class), witness())
	} else {
		for ref := range m.present {
			if _, ok := after.docs[ref]; !ok {
				r.Violation("C06/present-set/"+o.f.group, fmt.Sprintf("transaction %s of the model is not in the store after a %s offer", ref, o.f.class), witness())
				break
			}
		}
	}
	q.caseDone(o, slot, v, st)
	return admitted
}

func (q *seqRun) caseDone(o *offerT, slot string, v verdict, st string) {
	kind := "jwk"
	if o.f.kid != "" {
		kind = "kid"
	}
	root := ""
	if len(o.f.prevs) == 0 {
		root = "/root"
	}
	q.r.Case(fmt.Sprintf("%s/%s/%s%s/%s/%s%s", o.f.class, slot, kind, root, v, st, q.fp), true)
	if st != "admitted" && v == mustReject && o.f.group != "order" && q.r.Get("hostile_samples") < 3 && q.stat["sampled_"+o.f.group] == 0 {
		q.stat["sampled_"+o.f.group] = 1
		q.r.Count("hostile_samples", 1)
		q.r.Sample(map[string]any{"scenario": "hostile-variant", "dag": q.dag, "class": o.f.class, "refused_at": st, "present_transactions": len(q.e.m.present), "transaction": short(o.data[:min(len(o.data), 400)])})
	}
}

func (q *seqRun) checkAdmitted(o *offerT, ref hash.SHA256Hash, tx dag.Transaction, before, after *snap, calls int, witness func() map[string]any) {
	e, r := q.e, q.r
	ctx := context.Background()
	if after.raw == before.raw {
		r.Violation("C06/admitted-without-trace/"+o.f.group, "Add returned nil for an absent transaction but the store did not change", witness())
	}
	got, err := e.st.GetTransaction(ctx, ref)
	if err != nil || !bytes.Equal(got.Data(), o.data) {
		r.Violation("C06/stored-bytes/"+o.f.group, fmt.Sprintf("GetTransaction after admission: err=%v, bytes equal=%v", err, err == nil && bytes.Equal(got.Data(), o.data)), witness())
	}
	wantCalls := 2 // txs, held
	if o.payload != nil {
		wantCalls += 2 // payloads, heldp
		pl, err := e.st.ReadPayload(ctx, hash.SHA256Sum(o.payload))
		if err != nil || !bytes.Equal(pl, o.payload) {
			r.Violation("C06/stored-payload/"+o.f.group, fmt.Sprintf("ReadPayload after admission with payload: err=%v", err), witness())
		}
		if e.dids != nil && o.f.doc != nil {
			wantCalls++
		}
	}
	if calls != wantCalls {
		r.Violation("C06/exactly-once/receiver-calls/"+o.f.group, fmt.Sprintf("%d receiver calls for one admitted transaction, expected %d", calls, wantCalls), witness())
	}
	for _, sub := range []string{"txs", "held", "payloads", "heldp", "vdr"} {
		if n := e.callsOf(sub, ref); n > 1 {
			r.Violation("C06/exactly-once/"+sub, fmt.Sprintf("subscriber %s was called %d times for one transaction", sub, n), witness())
		}
	}
	r.Count("receiver_calls", calls)
	if _, ok := after.held[ref]; !ok {
		r.Violation("C06/subscriber-shelf/"+o.f.group, "the job of an admitted transaction is missing from a persistent subscriber's shelf", witness())
	}
	if len(after.held) != len(e.m.present) {
		r.Violation("C06/subscriber-shelf/"+o.f.group, fmt.Sprintf("the persistent subscriber's shelf holds %d jobs for %d admitted transactions", len(after.held), len(e.m.present)), witness())
	}
}

// compare checks digests, listing, head and counters against an independent fold over the model's set (dagx.Compare).
func (q *seqRun) compare(where string, full bool) {
	bad := dagx.Compare(q.e.st, q.e.m.led, q.r.Rand("probe"+q.dag+where), full)
	q.r.Count("fold_comparisons", 1)
	if len(bad) > 0 {
		q.r.Violation("C06/state-differs-from-model-set/"+where, "digests/listing/counters differ from the fold over the model's set: "+strings.Join(bad, "; "),
			map[string]any{"dag": q.dag, "where": where, "mismatches": bad, "transactions": q.e.m.led.Len()})
	}
}

// ---- sequential workload -----------------------------------------------------------------------------------------

type dagSpec struct {
	shape   dagx.Shape
	n       int
	withDID bool
	long    bool
}

func dagSpecs(r *ev.Run) []dagSpec {
	rnd := r.Rand("specs")
	shapes := []dagx.Shape{dagx.Random, dagx.Fan, dagx.Diamond, dagx.Chain}
	var out []dagSpec
	n := r.Pick(29, 294)
	for i := 0; i < n; i++ {
		out = append(out, dagSpec{shape: shapes[i%4], n: 7 + rnd.Intn(r.Pick(30, 50)), withDID: i%3 != 2})
	}
	// clocks crossing the page size (512) and, in the thorough tier, the first tree growth (1024)
	out = append(out, dagSpec{shape: dagx.Chain, n: 517, long: true})
	if r.Thorough() {
		out = append(out, dagSpec{shape: dagx.Diamond, n: 780, long: true}, dagSpec{shape: dagx.Chain, n: 1030, long: true},
			dagSpec{shape: dagx.Chain, n: 520, long: true, withDID: true}, dagSpec{shape: dagx.Fan, n: 2300, long: true}, dagSpec{shape: dagx.Random, n: 1100, long: true})
	}
	return out
}

func sequential(t *testing.T, r *ev.Run, ks *keyring) {
	classes := map[string]int{}
	var mu sync.Mutex
	specs := dagSpecs(r)
	jobs := make(chan int)
	var wg sync.WaitGroup
	// every DAG has its own store, model and PRNG stream: they run side by side (the case list does not depend on the interleaving)
	for w := 0; w < 12; w++ {
		wg.Add(1)
		go func() {
			defer wg.Done()
			for di := range jobs {
				local := map[string]int{}
				runDAG(t, r, ks, di, specs[di], local)
				mu.Lock()
				for k, v := range local {
					classes[k] += v
				}
				mu.Unlock()
			}
		}()
	}
	// long ones first
	for di := range specs {
		if specs[di].long {
			jobs <- di
		}
	}
	for di := range specs {
		if !specs[di].long {
			jobs <- di
		}
	}
	close(jobs)
	wg.Wait()
	r.Count("model_disagreements", 0)
	r.Extra("variants_by_class", classes)
	r.Extra("variant_classes_offered", len(classes))
}

func runDAG(t *testing.T, r *ev.Run, ks *keyring, di int, sp dagSpec, classes map[string]int) {
	rnd := r.Rand(fmt.Sprintf("dag%d", di))
	tag := fmt.Sprintf("s%dd%d", r.Seed(), di)
	d := genDAG(rnd, ks, sp.shape, sp.n, sp.withDID, tag)
	e := openEnv(tmp(t, "seq"), sp.withDID)
	e.m = newModel()
	q := &seqRun{t: t, r: r, e: e, dag: fmt.Sprintf("%s-%d-%s", sp.shape, len(d.nodes), tag), cls: classes, stat: map[string]int{}}
	defer func() {
		q.e.close()
		os.RemoveAll(e.dir)
	}()

	// targets whose variants are offered
	targets := map[int][]*offerT{}
	var order []int
	pick := func(i int) {
		if _, ok := targets[i]; !ok && i >= 0 && i < len(d.nodes) {
			targets[i] = nil
			order = append(order, i)
		}
	}
	if sp.long {
		for _, n := range d.nodes {
			if c := n.lc % 512; n.lc >= 510 && (c <= 1 || c == 511) && len(order) < 8 {
				pick(n.idx)
			}
		}
		pick(len(d.nodes) - 1)
	} else {
		for _, n := range d.nodes {
			if n.kind == "kid" || n.kind == "doc-update" {
				if len(order) < 2 || rnd.Intn(3) == 0 {
					pick(n.idx)
				}
			}
		}
		if di%3 == 0 {
			pick(0)
		}
		for _, n := range d.nodes {
			if len(n.prevs) > 1 && n.kind == "plain" {
				pick(n.idx)
				break
			}
		}
		for len(order) < r.Pick(3, 5) {
			pick(1 + rnd.Intn(len(d.nodes)-1))
		}
	}
	for ti, i := range order {
		all := variants(d, d.nodes[i], ks, rnd)
		quota := r.Pick(18, 32)
		if r.Thorough() && ti < 2 {
			quota = len(all)
		}
		rnd.Shuffle(len(all), func(a, b int) { all[a], all[b] = all[b], all[a] })
		// every DAG gets the core classes on its first target; targets signed with `kid` always get every key-reference class
		isKid := d.nodes[i].f.kid != ""
		must := func(o *offerT) bool {
			return coreClasses[o.f.class] && (ti == 0 || isKid) || isKid && (o.f.group == "kid" || o.f.group == "key")
		}
		var sel []*offerT
		for _, o := range all {
			if must(o) {
				sel = append(sel, o)
			}
		}
		for _, o := range all {
			if len(sel) >= quota {
				break
			}
			if !must(o) {
				sel = append(sel, o)
			}
		}
		for _, o := range sel {
			// a second copy of a DID document under another transaction would put the DID store into its conflict-merge mode, which is
			// C09/C10's subject: variants of document transactions never carry the document
			if d.nodes[i].f.doc != nil && o.f.class != "payload/supplied-does-not-hash" && o.f.class != "payload/declared-hash-of-other-content" {
				o.payload = nil
			}
			if o.slot == "any" {
				o.slot = []string{"pre", "post"}[rnd.Intn(2)]
			}
			if i == 0 && o.slot == "pre" {
				// whatever enters an empty DAG first IS the root: only variants the model refuses even there go before the real root
				// (the leniently decoded re-encodings, reported under their own keys, would take the root's place)
				if v, _ := newModel().judge(o.ref(), &o.f, o.payload); v != mustReject || o.f.key != "" {
					o.slot = "post"
				}
			}
		}
		targets[i] = sel
		r.Count("variants_generated", len(sel))
	}

	// arrival order: the generation order perturbed locally; items whose references are missing are refused and come back later
	queue := make([]int, len(d.nodes))
	for i := range queue {
		queue[i] = i
	}
	from := 1
	if sp.long {
		from = len(queue) - 12
	}
	for i := from; i+1 < len(queue); i++ {
		if rnd.Intn(3) == 0 {
			j := min(len(queue)-1, i+1+rnd.Intn(3))
			queue[i], queue[j] = queue[j], queue[i]
		}
	}
	deferred := map[int]int{}
	var admittedNodes []*node
	steps := 0
	for len(queue) > 0 {
		i := queue[0]
		queue = queue[1:]
		n := d.nodes[i]
		vs := targets[i]
		light := sp.long && vs == nil && i < len(d.nodes)-14 && i%64 != 0
		valid := &offerT{data: n.data, f: n.f, node: n}
		if n.give {
			valid.payload = n.content
		}
		ready := true
		for _, p := range n.f.prevs {
			if _, ok := e.m.present[p]; !ok {
				ready = false
			}
		}
		if !ready {
			// out-of-order arrival: must be refused for the missing reference, nothing else
			q.offer(&offerT{data: n.data, payload: valid.payload, f: withClass(n.f, "order/arrived-before-its-prevs")}, "early", false)
			if deferred[i]++; deferred[i] > 200 {
				r.Fatalf("arrival order does not make progress in %s: node %d kind %s prevs %v queue %v", q.dag, i, n.kind, n.prevs, queue)
			}
			// comes back shortly after the last of its missing references
			at := 0
			for qi, qn := range queue {
				for _, p := range n.prevs {
					if p == qn {
						at = qi + 1
					}
				}
			}
			at = min(len(queue), at+rnd.Intn(2))
			queue = append(queue[:at], append([]int{i}, queue[at:]...)...)
			continue
		}
		// occasionally a variant of a later target arrives now (its references are mostly missing)
		if !sp.long && rnd.Intn(8) == 0 {
			for _, ti := range order {
				if _, in := e.m.present[d.nodes[ti].ref]; !in && ti != i && len(targets[ti]) > 0 {
					o := targets[ti][rnd.Intn(len(targets[ti]))]
					if len(o.f.prevs) > 0 && o.f.group != "root" {
						q.offer(o, "early", false)
					}
					break
				}
			}
		}
		for _, o := range vs {
			if o.slot == "pre" {
				q.offer(o, "pre", false)
				if o.f.class == "payload/supplied-does-not-hash" && n.f.doc == nil && i != 0 {
					// the same bytes with the right payload right after the refusal
					q.offer(&offerT{data: o.data, payload: n.content, f: withClass(o.f, "payload/right-payload-after-refusal")}, "pre", false)
				}
			}
		}
		if !q.offer(valid, "valid", light) {
			// a generated valid transaction did not enter: the rest of this DAG cannot be built
			if r.Violations() == 0 {
				v, why := e.m.judge(n.ref, &n.f, valid.payload)
				r.Fatalf("generated transaction %d (%s) of %s did not enter and the model did not object: %s %s", i, n.kind, q.dag, v, why)
			}
			return
		}
		steps++
		admittedNodes = append(admittedNodes, n)
		for _, o := range vs {
			if o.slot == "post" {
				q.offer(o, "post", false)
			}
		}
		if !light && (vs != nil || rnd.Intn(4) == 0) {
			// re-submissions of present transactions: same payload, none, a wrong one
			dn := d.nodes[i]
			if rnd.Intn(2) == 0 {
				dn = admittedNodes[rnd.Intn(len(admittedNodes))]
			}
			pl := [][]byte{dn.content, nil, []byte("wrong payload")}[rnd.Intn(3)]
			q.offer(&offerT{data: dn.data, payload: pl, f: withClass(dn.f, "dup/present-resubmitted")}, "post", false)
		}
		if !light && steps%16 == 0 {
			q.compare("during", false)
		}
	}
	q.compare("end", true)
	if len(e.vdrErrs) > 0 {
		r.Fatalf("the vdr subscriber of the harness failed: %v", e.vdrErrs[0])
	}
	// exactly once over the whole DAG
	for ref := range e.m.present {
		if n := e.callsOf("txs", ref); n != 1 {
			r.Violation("C06/exactly-once/txs", fmt.Sprintf("subscriber txs was called %d times for an admitted transaction", n), map[string]any{"dag": q.dag, "ref": ref.String()})
		}
	}
	for sub, byRef := range e.calls {
		for ref, n := range byRef {
			if _, ok := e.m.present[ref]; !ok {
				r.Violation("C06/refused-notified/"+sub, fmt.Sprintf("subscriber %s was called %d times for a transaction that is not in the DAG", sub, n), map[string]any{"dag": q.dag, "ref": ref.String()})
			}
		}
	}
	// nothing differs after closing and reopening the store
	final := e.snapshot()
	withDID := e.dids != nil
	dir, mdl := e.dir, e.m
	e.close()
	e = openEnv(dir, withDID)
	e.m = mdl
	q.e = e
	if re := e.snapshot(); re.raw != final.raw || len(final.diff(re)) > 0 {
		r.Violation("C06/reopen-differs", "store or digests differ after reopening: "+strings.Join(final.diff(re), "; "), map[string]any{"dag": q.dag})
	}
	q.compare("reopen", true)
	r.Count("dags", 1)
	r.Count("dag_transactions", len(d.nodes))
	hi := uint32(0)
	kids := 0
	for _, n := range d.nodes {
		hi = max(hi, n.lc)
		if n.f.kid != "" {
			kids++
		}
	}
	if hi >= 512 {
		r.Count("dags_crossing_clock_512", 1)
	}
	r.Count("kid_transactions", kids)
	if di < 1 || sp.long && di < 40 {
		r.Sample(map[string]any{"scenario": "dag", "dag": q.dag, "transactions": len(d.nodes), "highest_clock": hi, "kid_transactions": kids,
			"did_documents": len(d.dids), "targets": len(order), "offers": q.stat["offers"], "store_bytes": final.size})
	}
}

func withClass(f facts, class string) facts {
	c := f.clone()
	c.class, c.group, c.key = class, groupOf(class), ""
	return c
}

// ---- entry point ---------------------------------------------------------------------------------------------------

func TestCheck(t *testing.T) {
	r := ev.Start(t, "C06", "exploration")
	defer r.Finish()
	logrus.SetOutput(io.Discard)
	r.SetRule("sequential cases = (generated DAG, arrival position, offered item): the item is a generated valid transaction, a re-submission, an out-of-order arrival or one of ~150 classes of " +
		"hostile/unspecified variants of a target transaction (headers removed/retyped/duplicated, algorithms, serialisations, kid/jwk, key rotation, prevs, clock, payload, second root, bit flips, " +
		"re-encodings), submitted through dag.ParseTransaction + State.Add to a real State. Young-DAG matrix: for every (format version 1|2, key family, private or not) a three-transaction " +
		"DAG whose root and first child receive EVERY variant class, the root's ones against the EMPTY DAG (where an absent/null/retyped lc, prevs or sigt would default to the very value a root needs). A reference model that uses only what the generator built decides must-be-refused / must-be-admitted / " +
		"unspecified; after every offer the full store dump (all buckets), digests, presence set and receiver calls are compared. Concurrent cases = (template, steered interleaving) of <=12 " +
		"transactions, checked with porcupine against the sequential set model plus exactly-once observations. A case is non-trivial when an Add/Parse result was compared with the model on a " +
		"store that the snapshot monitor observed; distinct by (class, slot, key reference kind, model verdict, stage of refusal) resp. (template, interleaving).")
	r.Require(300, 60)
	r.Assume("did:nuts documents reach the DID store through a subscriber that mirrors the ambassador's subscription (payload events of application/did+json) without the ambassador's own authorisation rules (C09)")
	r.Assume("ECDSA/RSA key values and signatures come from crypto/rand; no verdict depends on them")
	ks := newKeyring()
	sequential(t, r, ks)
	young(t, r, ks)
	concurrent(t, r, ks)
}
