package c06

// Young-DAG matrix. The generated DAGs of the sequential workload offer a quota of variant classes to a few targets, almost all of them
// version-2 transactions somewhere in the middle of a DAG. What that never produces systematically is the place where a malformed
// transaction has the best chance to slip through: the EMPTY DAG (and its first child), where the value a lenient parser would
// substitute for an absent / null / retyped header (clock 0, no references, zero time) is exactly the value the admission rules ask of a
// root - for BOTH accepted format versions and every allowed key family, with and without a participant list (private transaction).
//
// For every (version 1|2) x (P-256, P-384, P-521, RSA) [+ private yes/no, key resolver present yes/no alternating] a three-transaction
// chain is built in which every transaction has that version/key; the root receives EVERY variant class of gen_test.go (those the model
// refuses even on an empty DAG are offered BEFORE the real root, in shuffled order, the others after it), the first child receives every
// class too (quick: the header/clock/prevs/root/key/alg/serialisation groups). Oracle and monitors are those of the sequential workload
// (seqRun.offer: model verdict from the generator's facts, full store dump, digests, presence set, receiver calls).

import (
	"encoding/base64"
	"fmt"
	"os"
	"strconv"
	"sync"
	"testing"

	"github.com/nuts-foundation/nuts-node/crypto/hash"
	"verif/lib/dagx"
	"verif/lib/ev"
)

type youngSpec struct {
	ver     string
	key     *keyT
	pal     bool
	withDID bool
	round   int
}

func youngSpecs(r *ev.Run, ks *keyring) []youngSpec {
	rnd := r.Rand("young-specs")
	var out []youngSpec
	for round := 0; round < r.Pick(1, 3); round++ {
		i := round
		for _, ver := range []string{"1", "2"} {
			for _, k := range []*keyT{ks.plain[rnd.Intn(len(ks.plain))], ks.p384, ks.p521, ks.rsa} {
				out = append(out, youngSpec{ver: ver, key: k, pal: i%3 == 2, withDID: i%2 == 1, round: round})
				i++
			}
		}
	}
	return out
}

// force rewrites a freshly generated plain node to the given format version, key and privacy and re-signs it.
func force(n *node, ver string, key *keyT, pal bool) {
	h := n.sp.h.del("pal").set("ver", ver).set("alg", strconv.Quote(key.alg())).set("jwk", key.pub)
	if pal {
		h = append(h, hf{"pal", `["` + base64.StdEncoding.EncodeToString([]byte(fmt.Sprintf("pal-young-%d", n.idx))) + `"]`})
		n.give = false
	}
	n.sp.h, n.sp.sigAlg, n.sp.key, n.f.signer = h, key.alg(), key, key
	n.data = n.sp.compact()
	n.ref = hash.SHA256Sum(n.data)
}

var youngQuickGroups = map[string]bool{"hdr": true, "lc": true, "prevs": true, "root": true, "key": true, "alg": true, "ser": true, "ver": true, "sigt": true, "valid": true}

func young(t *testing.T, r *ev.Run, ks *keyring) {
	specs := youngSpecs(r, ks)
	classes := map[string]int{}
	var mu sync.Mutex
	jobs := make(chan int)
	var wg sync.WaitGroup
	for w := 0; w < 8; w++ {
		wg.Add(1)
		go func() {
			defer wg.Done()
			for yi := range jobs {
				local := map[string]int{}
				runYoung(t, r, ks, yi, specs[yi], local)
				mu.Lock()
				for k, v := range local {
					classes[k] += v
				}
				mu.Unlock()
			}
		}()
	}
	for yi := range specs {
		jobs <- yi
	}
	close(jobs)
	wg.Wait()
	r.Extra("young_dag_variants_by_class", classes)
	r.Extra("young_dag_variant_classes_offered", len(classes))
	// the matrix is a pure function of (seed, tier): what it offers does not depend on what the code answered
	for _, ver := range []string{"1", "2"} {
		if n := r.Get("empty_dag_hostile_offers_ver" + ver); n < 300 && r.Violations() == 0 {
			r.Fatalf("young-DAG matrix: only %d hostile offers reached an empty DAG for format version %s", n, ver)
		}
	}
}

func runYoung(t *testing.T, r *ev.Run, ks *keyring, yi int, ys youngSpec, classes map[string]int) {
	rnd := r.Rand(fmt.Sprintf("young%d", yi))
	tag := fmt.Sprintf("s%dy%d", r.Seed(), yi)
	d := &dagT{shape: dagx.Chain, tag: tag}
	e := openEnv(tmp(t, "young"), ys.withDID)
	e.m = newModel()
	priv := ""
	if ys.pal {
		priv = "/private"
	}
	q := &seqRun{t: t, r: r, e: e, dag: fmt.Sprintf("young-ver%s-%s%s-%s", ys.ver, ys.key.curve, priv, tag), cls: classes, stat: map[string]int{},
		fp: "/young/ver" + ys.ver + "/" + ys.key.curve + priv}
	defer func() {
		q.e.close()
		os.RemoveAll(e.dir)
	}()
	for i := 0; i < 3; i++ {
		var prevs []int
		if i > 0 {
			prevs = []int{i - 1}
		}
		d.addNode(rnd, ks, i, "plain", 0, prevs)
		n := d.nodes[i]
		force(n, ys.ver, ys.key, ys.pal)
		var vs []*offerT
		if i < 2 {
			for _, o := range variants(d, n, ks, rnd) {
				if i == 1 && !r.Thorough() && !youngQuickGroups[o.f.group] {
					continue
				}
				if ys.pal && o.payload != nil && o.f.class != "payload/supplied-does-not-hash" && o.f.class != "payload/declared-hash-of-other-content" {
					o.payload = nil // the payload of a private transaction travels separately
				}
				if o.slot == "any" {
					o.slot = []string{"pre", "post"}[rnd.Intn(2)]
				}
				if i == 0 && o.slot == "pre" {
					// whatever enters an empty DAG first IS the root: only what the model refuses even there goes before the real root
					if v, _ := newModel().judge(o.ref(), &o.f, o.payload); v != mustReject || o.f.key != "" {
						o.slot = "post"
					}
				}
				vs = append(vs, o)
			}
			rnd.Shuffle(len(vs), func(a, b int) { vs[a], vs[b] = vs[b], vs[a] })
			r.Count("variants_generated", len(vs))
		}
		for _, o := range vs {
			if o.slot != "pre" {
				continue
			}
			q.offer(o, "pre", false)
			if i == 0 {
				r.Count("empty_dag_hostile_offers_ver"+ys.ver, 1)
			}
			if o.f.class == "payload/supplied-does-not-hash" && i != 0 && !ys.pal {
				q.offer(&offerT{data: o.data, payload: n.content, f: withClass(o.f, "payload/right-payload-after-refusal")}, "pre", false)
			}
		}
		valid := &offerT{data: n.data, f: n.f, node: n}
		if n.give {
			valid.payload = n.content
		}
		if !q.offer(valid, "valid", false) {
			if r.Violations() == 0 {
				v, why := e.m.judge(n.ref, &n.f, valid.payload)
				r.Fatalf("young-DAG matrix: generated transaction %d of %s did not enter and the model did not object: %s %s", i, q.dag, v, why)
			}
			return
		}
		for _, o := range vs {
			if o.slot == "post" {
				q.offer(o, "post", false)
			}
		}
		pl := [][]byte{n.content, nil, []byte("wrong payload")}[rnd.Intn(3)]
		if ys.pal {
			pl = nil
		}
		q.offer(&offerT{data: n.data, payload: pl, f: withClass(n.f, "dup/present-resubmitted")}, "post", false)
	}
	q.compare("young-end", true)
	for ref := range e.m.present {
		if n := e.callsOf("txs", ref); n != 1 {
			r.Violation("C06/exactly-once/txs", fmt.Sprintf("subscriber txs was called %d times for an admitted transaction", n), map[string]any{"dag": q.dag, "ref": ref.String()})
		}
	}
	for sub, byRef := range e.calls {
		for ref, n := range byRef {
			if _, ok := e.m.present[ref]; !ok {
				r.Violation("C06/refused-notified/"+sub, fmt.Sprintf("subscriber %s was called %d times for a transaction that is not in the DAG", sub, n), map[string]any{"dag": q.dag, "ref": ref.String()})
			}
		}
	}
	r.Count("young_dags", 1)
	if yi == 0 {
		r.Sample(map[string]any{"scenario": "young-dag", "dag": q.dag, "offers": q.stat["offers"], "transactions_present": len(e.m.present)})
	}
}
