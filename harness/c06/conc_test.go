package c06

// Concurrent submissions: the same transaction from several goroutines, siblings, parent and child, competing roots and hostile
// variants next to their valid twins, steered by lib/sched at the hook points in State.Add (dag.add.verified = between the read
// transaction that verifies and the locked write transaction that re-checks presence; dag.add.inwrite; dag.add.committed;
// dag.add.rollback). Each history (<= 12 transactions) is checked with porcupine against the sequential set model, followed by the
// exactly-once observations (receiver calls per transaction, transaction count, digests = fold over the resulting set, no payload of
// a refused submission in the payload shelf).

import (
	"context"
	"fmt"
	"math/rand"
	"strconv"
	"strings"
	"sync"
	"sync/atomic"
	"testing"
	"time"

	"github.com/anishathalye/porcupine"
	"github.com/nuts-foundation/nuts-node/crypto/hash"
	"github.com/nuts-foundation/nuts-node/network/dag"
	"verif/lib/dagx"
	"verif/lib/ev"
	"verif/lib/sched"
)

type citem struct {
	name    string
	data    []byte
	ref     hash.SHA256Hash
	tx      dag.Transaction
	static  bool  // well-formed, allowed algorithm, signed by the embedded key (known by construction)
	prev    []int // indices of referenced items; -1 = a transaction nobody has
	lc      int64 // declared clock
	lcOK    bool  // declared clock = max(declared clock of the references)+1
	content []byte
	base    bool
}

type cop struct {
	item      int
	payload   []byte
	payloadOK bool
}

type cbuild struct {
	ks    *keyring
	rnd   *rand.Rand
	tag   string
	items []*citem
}

// mk builds an item referencing prev (indices), with the declared clock off by lcDelta, optionally signed by another key than the embedded one.
func (b *cbuild) mk(name string, prev []int, lcDelta int64, foreignSig bool) int {
	key := b.ks.plain[b.rnd.Intn(len(b.ks.plain))]
	it := &citem{name: name, prev: prev, static: !foreignSig, content: []byte(fmt.Sprintf("c06c/%s/%s/%d", b.tag, name, len(b.items)))}
	hi := int64(-1)
	var refs []hash.SHA256Hash
	for _, p := range prev {
		if p < 0 {
			refs = append(refs, randomHash(b.rnd))
			continue
		}
		refs = append(refs, b.items[p].ref)
		hi = max(hi, b.items[p].lc)
	}
	it.lc = hi + 1 + lcDelta
	it.lcOK = lcDelta == 0
	h := hdr{{"alg", `"ES256"`}, {"crit", critAll}, {"cty", `"application/x-verif"`}, {"jwk", key.pub}, {"lc", strconv.FormatInt(it.lc, 10)},
		{"prevs", hashJSON(refs)}, {"sigt", strconv.Itoa(1700000000 + len(b.items))}, {"ver", "2"}}
	sp := spec{h: h, payload: hash.SHA256Sum(it.content).String(), sigAlg: "ES256", key: key}
	if foreignSig {
		sp.key = b.ks.attacker
	}
	it.data = sp.compact()
	it.ref = hash.SHA256Sum(it.data)
	tx, err := dag.ParseTransaction(it.data)
	if err != nil {
		panic(fmt.Sprintf("concurrent item %s does not parse: %v", name, err))
	}
	it.tx = tx
	b.items = append(b.items, it)
	return len(b.items) - 1
}

func (b *cbuild) op(i int, payload string) cop {
	switch payload {
	case "right":
		return cop{item: i, payload: b.items[i].content, payloadOK: true}
	case "wrong":
		return cop{item: i, payload: []byte("wrong/" + b.items[i].name + "/" + b.tag), payloadOK: false}
	}
	return cop{item: i, payloadOK: true}
}

var templates = []string{"same-tx", "siblings", "parent-child", "competing-roots", "hostile-twins", "diamond-join"}

// history builds the initial DAG (base items) and the concurrent operations of one template.
func (b *cbuild) history(tmpl string) []cop {
	rnd := b.rnd
	pl := func() string { return []string{"right", "none", "right", "wrong"}[rnd.Intn(4)] }
	tip := -1
	if tmpl != "competing-roots" {
		tip = b.mk("base0", nil, 0, false)
		for i, n := 1, rnd.Intn(4); i <= n; i++ {
			tip = b.mk(fmt.Sprintf("base%d", i), []int{tip}, 0, false)
		}
		for _, it := range b.items {
			it.base = true
		}
	}
	var ops []cop
	switch tmpl {
	case "same-tx":
		x := b.mk("x", []int{tip}, 0, false)
		for i, k := 0, 2+rnd.Intn(3); i < k; i++ {
			ops = append(ops, b.op(x, pl()))
		}
		if rnd.Intn(2) == 0 {
			ops = append(ops, b.op(b.mk("child-of-x", []int{x}, 0, false), "none"))
		}
	case "siblings":
		var sib []int
		for i, k := 0, 2+rnd.Intn(2); i < k; i++ {
			sib = append(sib, b.mk(fmt.Sprintf("sib%d", i), []int{tip}, 0, false))
			ops = append(ops, b.op(sib[i], pl()))
		}
		ops = append(ops, b.op(sib[rnd.Intn(len(sib))], pl()))
	case "parent-child":
		p := b.mk("parent", []int{tip}, 0, false)
		c := b.mk("child", []int{p}, 0, false)
		g := b.mk("grandchild", []int{c, p}, 0, false)
		ops = []cop{b.op(p, pl()), b.op(c, pl()), b.op(g, "none"), b.op(c, pl())}
	case "competing-roots":
		r1 := b.mk("root1", nil, 0, false)
		r2 := b.mk("root2", nil, 0, false)
		c1 := b.mk("child-of-root1", []int{r1}, 0, false)
		ops = []cop{b.op(r1, pl()), b.op(r2, pl()), b.op(c1, "none"), b.op([]int{r1, r2}[rnd.Intn(2)], pl())}
	case "hostile-twins":
		a := b.mk("a", []int{tip}, 0, false)
		ops = []cop{b.op(a, pl()), b.op(a, "wrong"),
			b.op(b.mk("a-clock-plus-one", []int{tip}, 1, false), pl()),
			b.op(b.mk("a-foreign-signature", []int{tip}, 0, true), pl()),
			b.op(b.mk("a-unknown-prev", []int{tip, -1}, 0, false), pl())}
	case "diamond-join":
		l := b.mk("left", []int{tip}, 0, false)
		r := b.mk("right", []int{tip}, 0, false)
		j := b.mk("join", []int{l, r}, 0, false)
		ops = []cop{b.op(l, pl()), b.op(r, pl()), b.op(j, pl()), b.op(j, pl())}
	}
	rnd.Shuffle(len(ops), func(i, j int) { ops[i], ops[j] = ops[j], ops[i] })
	return ops
}

type cin struct {
	read      bool
	item      int
	payloadOK bool
}

// setModel is the sequential specification: the state is the set of present transactions (bit per item).
func setModel(items []*citem, init uint32) porcupine.Model {
	var roots uint32
	masks := make([]uint32, len(items))
	unknown := make([]bool, len(items))
	for i, it := range items {
		if len(it.prev) == 0 {
			roots |= 1 << uint(i)
		}
		for _, p := range it.prev {
			if p < 0 {
				unknown[i] = true
			} else {
				masks[i] |= 1 << uint(p)
			}
		}
	}
	return porcupine.Model{
		Init: func() interface{} { return init },
		Step: func(state, input, output interface{}) (bool, interface{}) {
			s, in, ok := state.(uint32), input.(cin), output.(bool)
			bit := uint32(1) << uint(in.item)
			if in.read {
				return ok == (s&bit != 0), s
			}
			if s&bit != 0 {
				return ok, s // present: nothing to do, no error
			}
			it := items[in.item]
			valid := it.static && it.lcOK && !unknown[in.item] && s&masks[in.item] == masks[in.item] && (len(it.prev) > 0 || s&roots == 0) && in.payloadOK
			if valid {
				return ok, s | bit
			}
			return !ok, s
		},
		DescribeOperation: func(input, output interface{}) string {
			in := input.(cin)
			if in.read {
				return fmt.Sprintf("IsPresent(%s)=%v", items[in.item].name, output)
			}
			return fmt.Sprintf("Add(%s,payloadOK=%v) ok=%v", items[in.item].name, in.payloadOK, output)
		},
	}
}

func concurrent(t *testing.T, r *ev.Run, ks *keyring) {
	episodes := r.Pick(180, 2000)
	watch := map[string]bool{"dag.add.verified": true, "dag.add.inwrite": true, "dag.add.committed": true, "dag.add.rollback": true}
	for epi := 0; epi < episodes; epi++ {
		tmpl := templates[epi%len(templates)]
		rnd := r.Rand(fmt.Sprintf("conc%d", epi))
		b := &cbuild{ks: ks, rnd: rnd, tag: fmt.Sprintf("s%de%d", r.Seed(), epi)}
		ops := b.history(tmpl)
		items := b.items
		if len(items) > 12 {
			r.Fatalf("history with %d transactions", len(items))
		}
		e := openEnv(tmp(t, "conc"), false)
		led := dagx.NewLedger()
		var init uint32
		for i, it := range items {
			if it.base {
				if err := e.st.Add(context.Background(), it.tx, it.content); err != nil {
					r.Fatalf("concurrent setup: %v", err)
				}
				init |= 1 << uint(i)
				led.Add(it.ref, uint32(it.lc))
			}
		}
		callsBase := e.totalCalls()

		steered := epi%10 != 9 // a few histories run free (real parallelism under the race detector)
		var ep *sched.Episode
		if steered {
			ep = sched.Begin(sched.Options{Actors: len(ops), Rand: r.Rand(fmt.Sprintf("sched%d", epi)), Stall: 12 * time.Millisecond,
				Watch: func(p string, _ []any) bool { return watch[p] }})
		}
		var clock atomic.Int64
		hist := make([]porcupine.Operation, len(ops))
		errs := make([]error, len(ops))
		panics := make([]any, len(ops))
		var wg sync.WaitGroup
		for i := range ops {
			wg.Add(1)
			go func(i int) {
				defer wg.Done()
				defer func() {
					if ep != nil {
						ep.ActorDone()
					}
				}()
				defer func() {
					if p := recover(); p != nil {
						panics[i] = p
						hist[i].Return = clock.Add(1)
					}
				}()
				o := ops[i]
				hist[i] = porcupine.Operation{ClientId: i, Input: cin{item: o.item, payloadOK: o.payloadOK}, Call: clock.Add(1)}
				errs[i] = e.st.Add(context.Background(), items[o.item].tx, o.payload)
				hist[i].Output = errs[i] == nil
				hist[i].Return = clock.Add(1)
			}(i)
		}
		done := make(chan struct{})
		go func() { wg.Wait(); close(done) }()
		select {
		case <-done:
		case <-time.After(3 * time.Minute):
			r.Inconclusive("concurrent history " + tmpl + " did not finish (watchdog)")
			return
		}
		inter := "free-running"
		if ep != nil {
			inter = ep.End()
			r.Count("scheduler_stalls", ep.Stalls)
		}
		r.Distinct("interleavings", tmpl+": "+inter)
		w := func() map[string]any {
			var lines []string
			for i, o := range ops {
				lines = append(lines, fmt.Sprintf("[%d,%d] Add(%s, payload=%v) -> %v", hist[i].Call, hist[i].Return, items[o.item].name, o.payload != nil && o.payloadOK || o.payload == nil, errs[i]))
			}
			return map[string]any{"template": tmpl, "interleaving": inter, "operations": lines, "base_transactions": callsBase / 2}
		}
		for i, p := range panics {
			if p != nil {
				r.Violation("C06/panic/State.Add", fmt.Sprintf("State.Add panicked in a concurrent history: %v", p), w())
				hist[i].Output = false
			}
		}
		// observations at quiescence become read operations of the history
		present := make([]bool, len(items))
		for i, it := range items {
			op := porcupine.Operation{ClientId: len(ops), Input: cin{read: true, item: i}, Call: clock.Add(1)}
			present[i], _ = e.st.IsPresent(context.Background(), it.ref)
			op.Output = present[i]
			op.Return = clock.Add(1)
			hist = append(hist, op)
			if present[i] {
				led.Add(it.ref, uint32(it.lc))
			}
		}
		res := porcupine.CheckOperationsTimeout(setModel(items, init), hist, 20*time.Second)
		r.Case("concurrent/"+tmpl+"/"+inter, true)
		r.Count("concurrent_histories", 1)
		r.Count("concurrent_operations", len(ops))
		switch res {
		case porcupine.Illegal:
			r.Violation("C06/concurrent/not-linearizable/"+tmpl, "results of concurrent Adds and the resulting set have no sequential explanation under the admission model", w())
		case porcupine.Unknown:
			r.Inconclusive("porcupine timed out on a history of " + strconv.Itoa(len(hist)) + " operations")
		}
		// exactly once
		added := 0
		for i, it := range items {
			n := e.callsOf("txs", it.ref)
			if n > 1 {
				r.Violation("C06/concurrent/notified-more-than-once/"+tmpl, fmt.Sprintf("subscriber txs was called %d times for %s", n, it.name), w())
			}
			if !present[i] && (n > 0 || e.callsOf("payloads", it.ref) > 0) {
				r.Violation("C06/concurrent/refused-notified/"+tmpl, fmt.Sprintf("a subscriber was called for %s which is not in the DAG", it.name), w())
			}
			for _, sub := range []string{"payloads", "held", "heldp"} {
				if c := e.callsOf(sub, it.ref); c > 1 {
					r.Violation("C06/concurrent/notified-more-than-once/"+tmpl, fmt.Sprintf("subscriber %s was called %d times for %s", sub, c, it.name), w())
				}
			}
			if present[i] && !it.base {
				added++
				if n == 0 {
					r.Count("concurrent_admitted_not_yet_notified", 1) // at-least-once delivery is C14's subject
				}
			}
			if !present[i] {
				if has, _ := e.st.IsPayloadPresent(context.Background(), hash.SHA256Sum(it.content)); has {
					r.Violation("C06/concurrent/refused-left-payload/"+tmpl, "the payload of a transaction that is not in the DAG is in the payload shelf", w())
				}
			}
		}
		for _, o := range ops {
			if !o.payloadOK {
				if has, _ := e.st.IsPayloadPresent(context.Background(), hash.SHA256Sum(o.payload)); has {
					r.Violation("C06/concurrent/refused-left-payload/"+tmpl, "a payload that does not hash to the declared payload hash is in the payload shelf", w())
				}
			}
		}
		r.Count("concurrent_admitted", added)
		if bad := dagx.Compare(e.st, led, nil, true); len(bad) > 0 {
			wi := w()
			wi["mismatches"] = bad
			r.Violation("C06/concurrent/state-differs-from-set/"+tmpl, "digests, listing or counters differ from the fold over the resulting set: "+strings.Join(bad, "; "), wi)
		}
		sn := e.snapshot()
		if len(sn.docs) != led.Len() || len(sn.held) != led.Len() {
			r.Violation("C06/concurrent/shelves/"+tmpl, fmt.Sprintf("%d stored transactions, %d jobs of the persistent subscriber, %d transactions present", len(sn.docs), len(sn.held), led.Len()), w())
		}
		if epi < len(templates) && epi%3 == 0 {
			r.Sample(w())
		}
		e.close()
	}
	r.Extra("distinct_interleavings_observed", r.DistinctN("interleavings"))
}
