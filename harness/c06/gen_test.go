package c06

// Generator side of the C06 check: harness-owned keys, a raw JWS builder with byte-level control over the
// protected header (ordered members, duplicates, retyped values), generated DAGs with did:nuts document
// versions (key rotation), and the hostile variants of a transaction. Every generated item carries `facts`:
// what the GENERATOR knows it built. The admission model (c06_test.go) judges from the facts only; nothing here
// or there parses a transaction with the code under test.

import (
	"crypto"
	"crypto/ecdsa"
	"crypto/elliptic"
	"crypto/hmac"
	crand "crypto/rand"
	"crypto/rsa"
	"crypto/sha256"
	_ "crypto/sha512" // registers SHA-384/512 for crypto.Hash.New
	"crypto/x509"
	"encoding/asn1"
	"encoding/base64"
	"encoding/hex"
	"encoding/json"
	"fmt"
	"math/big"
	"math/rand"
	"strconv"
	"strings"

	"github.com/lestrrat-go/jwx/v2/jwk"
	ssi "github.com/nuts-foundation/go-did"
	"github.com/nuts-foundation/go-did/did"
	"github.com/nuts-foundation/nuts-node/crypto/hash"
	"verif/lib/dagx"
)

var b64 = base64.RawURLEncoding

// ---- keys ------------------------------------------------------------------------------------------------

type keyT struct {
	name  string
	curve string // P-256, P-384, P-521, RSA
	ec    *ecdsa.PrivateKey
	rsa   *rsa.PrivateKey
	pub   string // public JWK (JSON)
	priv  string // private JWK (JSON)
	der   []byte // PKIX DER of the public key: the HMAC secret of the HS256 algorithm-confusion variant
}

func (k *keyT) public() crypto.PublicKey {
	if k.ec != nil {
		return k.ec.Public()
	}
	return k.rsa.Public()
}

// alg is the allowed algorithm that fits the key.
func (k *keyT) alg() string {
	switch k.curve {
	case "P-256":
		return "ES256"
	case "P-384":
		return "ES384"
	case "P-521":
		return "ES512"
	}
	return "PS256"
}

func finishKey(k *keyT, priv any) *keyT {
	pj, err := jwk.FromRaw(k.public())
	if err != nil {
		panic(err)
	}
	b, _ := json.Marshal(pj)
	k.pub = string(b)
	sj, err := jwk.FromRaw(priv)
	if err != nil {
		panic(err)
	}
	b, _ = json.Marshal(sj)
	k.priv = string(b)
	k.der, _ = x509.MarshalPKIXPublicKey(k.public())
	return k
}

// Key values come from crypto/rand: they never influence which cases are generated or any verdict.
func newEC(name string, c elliptic.Curve) *keyT {
	p, err := ecdsa.GenerateKey(c, crand.Reader)
	if err != nil {
		panic(err)
	}
	return finishKey(&keyT{name: name, curve: c.Params().Name, ec: p}, p)
}

func newRSA(name string) *keyT {
	p, err := rsa.GenerateKey(crand.Reader, 2048)
	if err != nil {
		panic(err)
	}
	return finishKey(&keyT{name: name, curve: "RSA", rsa: p}, p)
}

type keyring struct {
	plain    []*keyT // P-256 keys embedded in ordinary transactions
	didKeys  []*keyT // P-256 keys published in did:nuts documents
	p384     *keyT
	p521     *keyT
	rsa      *keyT
	attacker *keyT // P-256, never published anywhere
}

func newKeyring() *keyring {
	ks := &keyring{p384: newEC("p384", elliptic.P384()), p521: newEC("p521", elliptic.P521()), rsa: newRSA("rsa"), attacker: newEC("attacker", elliptic.P256())}
	for i := 0; i < 4; i++ {
		ks.plain = append(ks.plain, newEC(fmt.Sprintf("plain%d", i), elliptic.P256()))
	}
	for i := 0; i < 6; i++ {
		ks.didKeys = append(ks.didKeys, newEC(fmt.Sprintf("did%d", i), elliptic.P256()))
	}
	return ks
}

func ecSig(k *keyT, h crypto.Hash, in []byte) []byte {
	hh := h.New()
	hh.Write(in)
	r, s, err := ecdsa.Sign(crand.Reader, k.ec, hh.Sum(nil))
	if err != nil {
		panic(err)
	}
	n := (k.ec.Curve.Params().BitSize + 7) / 8
	out := make([]byte, 2*n)
	r.FillBytes(out[:n])
	s.FillBytes(out[n:])
	return out
}

// signRaw produces the signature bytes for alg over in with k, without any of the consistency checks a JOSE library applies.
func signRaw(alg string, k *keyT, in []byte) []byte {
	switch alg {
	case "none":
		return nil
	case "HS256":
		m := hmac.New(sha256.New, k.der)
		m.Write(in)
		return m.Sum(nil)
	case "ES256", "ES256K":
		return ecSig(k, crypto.SHA256, in)
	case "ES384":
		return ecSig(k, crypto.SHA384, in)
	case "ES512":
		return ecSig(k, crypto.SHA512, in)
	case "PS256":
		d := sha256.Sum256(in)
		s, err := rsa.SignPSS(crand.Reader, k.rsa, crypto.SHA256, d[:], &rsa.PSSOptions{SaltLength: rsa.PSSSaltLengthEqualsHash})
		if err != nil {
			panic(err)
		}
		return s
	case "RS256":
		d := sha256.Sum256(in)
		s, err := rsa.SignPKCS1v15(crand.Reader, k.rsa, crypto.SHA256, d[:])
		if err != nil {
			panic(err)
		}
		return s
	}
	panic("signRaw: " + alg)
}

// ---- raw JWS ---------------------------------------------------------------------------------------------

type hf struct{ k, v string } // member name, raw JSON value

type hdr []hf

func (h hdr) clone() hdr { return append(hdr{}, h...) }

func (h hdr) get(k string) (string, bool) {
	for _, f := range h {
		if f.k == k {
			return f.v, true
		}
	}
	return "", false
}

// set replaces the (first) member k or appends it.
func (h hdr) set(k, v string) hdr {
	out := h.clone()
	for i := range out {
		if out[i].k == k {
			out[i].v = v
			return out
		}
	}
	return append(out, hf{k, v})
}

func (h hdr) del(k string) hdr {
	var out hdr
	for _, f := range h {
		if f.k != k {
			out = append(out, f)
		}
	}
	return out
}

// dup returns the header with member k twice: first with value first, last with value last.
func (h hdr) dup(k, first, last string) hdr {
	out := hdr{{k, first}}
	out = append(out, h.del(k)...)
	return append(out, hf{k, last})
}

func (h hdr) json() string {
	parts := make([]string, len(h))
	for i, f := range h {
		parts[i] = strconv.Quote(f.k) + ":" + f.v
	}
	return "{" + strings.Join(parts, ",") + "}"
}

// spec is everything needed to produce the bytes of a transaction.
type spec struct {
	h       hdr
	hjson   string // overrides h.json() when set (whitespace variants)
	payload string // JWS payload (normally the hex payload hash)
	sigAlg  string // algorithm the signature is actually computed with
	key     *keyT  // key the signature is actually computed with
	rawPay  bool   // RFC 7797: payload segment is not base64url encoded
}

func (s spec) clone() spec { c := s; c.h = s.h.clone(); return c }

func (s spec) headerJSON() string {
	if s.hjson != "" {
		return s.hjson
	}
	return s.h.json()
}

func (s spec) segments() (string, string, string) {
	hp := b64.EncodeToString([]byte(s.headerJSON()))
	pp := b64.EncodeToString([]byte(s.payload))
	if s.rawPay {
		pp = s.payload
	}
	sig := signRaw(s.sigAlg, s.key, []byte(hp+"."+pp))
	return hp, pp, b64.EncodeToString(sig)
}

func (s spec) compact() []byte {
	a, b, c := s.segments()
	return []byte(a + "." + b + "." + c)
}

// ---- facts: what the generator knows about an item ---------------------------------------------------------

type facts struct {
	class  string
	group  string
	key    string            // violation key suffix when admitted although it must be rejected (default: class)
	bad    string            // non-empty: a condition of the property is false by construction (reason)
	unspec string            // non-empty: the property text does not decide this class
	benign bool              // a deliberately valid variant
	prevs  []hash.SHA256Hash // references the item declares
	lc     int64             // Lamport clock the item declares (as written, before any conversion)
	phash  hash.SHA256Hash   // payload hash the item declares
	kid    string            // key id the item names ("" = embedded jwk)
	signer *keyT             // key that produced the signature
	doc    *docVer           // set when the payload is a did:nuts document version
}

func (f facts) clone() facts { c := f; c.prevs = append([]hash.SHA256Hash{}, f.prevs...); return c }

// ---- DAG generation ----------------------------------------------------------------------------------------

type didT struct {
	id   string
	vers []*docVer
}

type docVer struct {
	did  *didT
	n    int
	node *node
	keys map[string]*keyT // key id -> key
	json []byte
}

type node struct {
	idx     int
	kind    string // plain, doc-create, doc-update, kid
	prevs   []int
	lc      uint32
	sp      spec
	f       facts
	data    []byte
	ref     hash.SHA256Hash
	content []byte
	give    bool // payload supplied together with the valid transaction
	did     *didT
}

type dagT struct {
	shape dagx.Shape
	nodes []*node
	dids  []*didT
	tag   string
}

func hashJSON(hs []hash.SHA256Hash) string {
	parts := make([]string, len(hs))
	for i, h := range hs {
		parts[i] = `"` + h.String() + `"`
	}
	return "[" + strings.Join(parts, ",") + "]"
}

const critAll = `["sigt","ver","prevs","lc"]`

func buildDoc(id string, keys map[string]*keyT, order []string) []byte {
	d := did.MustParseDID(id)
	doc := did.Document{Context: []interface{}{did.DIDContextV1URI()}, ID: d}
	for _, kid := range order {
		vm, err := did.NewVerificationMethod(did.MustParseDIDURL(kid), ssi.JsonWebKey2020, d, keys[kid].public())
		if err != nil {
			panic(err)
		}
		doc.AddCapabilityInvocation(vm)
	}
	b, err := json.Marshal(doc)
	if err != nil {
		panic(err)
	}
	return b
}

type role struct {
	kind string
	did  int
}

// genDAG generates n+1 transactions (root first) of the given shape in a valid order. With withDID the DAG also carries one or two
// did:nuts documents: creation (embedded jwk), updates that rotate the key (signed with `kid` of the previous version) and ordinary
// transactions signed with `kid`, each referencing the document version whose key it uses.
func genDAG(rnd *rand.Rand, ks *keyring, shape dagx.Shape, n int, withDID bool, tag string) *dagT {
	d := &dagT{shape: shape, tag: tag}
	total := n + 1
	roles := map[int]role{}
	if withDID && total >= 8 {
		cX := 1 + rnd.Intn(max(1, total/5))
		u1 := cX + 1 + rnd.Intn(max(1, total/3))
		roles[cX] = role{"doc-create", 0}
		if u1 < total-1 {
			roles[u1] = role{"doc-update", 0}
			if u2 := u1 + 2 + rnd.Intn(max(1, total/3)); u2 < total-1 && rnd.Intn(2) == 0 {
				roles[u2] = role{"doc-update", 0}
			}
		}
		d.dids = append(d.dids, &didT{id: "did:nuts:" + tag + "X"})
		if total >= 12 {
			for try := 0; try < 8; try++ {
				cY := 1 + rnd.Intn(total/2)
				if _, used := roles[cY]; !used {
					roles[cY] = role{"doc-create", 1}
					d.dids = append(d.dids, &didT{id: "did:nuts:" + tag + "Y"})
					break
				}
			}
		}
	}
	var fanPrev []int
	fanLeft := 0
	var diaTip, diaA, diaB int
	for i := 0; i < total; i++ {
		var prevs []int
		if i > 0 {
			switch shape {
			case dagx.Chain:
				prevs = []int{i - 1}
			case dagx.Fan:
				if fanLeft == 0 {
					fanPrev = d.topLevel()
					fanLeft = 2 + rnd.Intn(5)
				}
				prevs = append([]int{}, fanPrev...)
				fanLeft--
			case dagx.Diamond:
				switch (i - 1) % 3 {
				case 0:
					diaTip, diaA = i-1, i
					prevs = []int{diaTip}
				case 1:
					diaB = i
					prevs = []int{diaTip}
				default:
					prevs = []int{diaA, diaB}
				}
			default:
				k := 1 + rnd.Intn(3)
				seen := map[int]bool{}
				for j := 0; j < k; j++ {
					p := i - 1 - rnd.Intn(min(8, i))
					if !seen[p] {
						seen[p] = true
						prevs = append(prevs, p)
					}
				}
			}
		}
		ro, has := roles[i]
		if !has && i > 0 && len(d.dids) > 0 && rnd.Intn(5) == 0 {
			// ordinary transaction signed with a published key, when some document exists already
			var cands []int
			for di, dd := range d.dids {
				if len(dd.vers) > 0 {
					cands = append(cands, di)
				}
			}
			if len(cands) > 0 {
				ro, has = role{"kid", cands[rnd.Intn(len(cands))]}, true
			}
		}
		if has && ro.kind == "doc-update" && len(d.dids[ro.did].vers) == 0 {
			has = false
		}
		kind := "plain"
		if has {
			kind = ro.kind
		}
		d.addNode(rnd, ks, i, kind, ro.did, prevs)
	}
	return d
}

func (d *dagT) topLevel() []int {
	var hi uint32
	for _, n := range d.nodes {
		if n.lc > hi {
			hi = n.lc
		}
	}
	var out []int
	for _, n := range d.nodes {
		if n.lc == hi {
			out = append(out, n.idx)
		}
	}
	if len(out) > 6 {
		out = out[:6]
	}
	return out
}

// onlyVersion drops references to other versions of cur's document: a `kid` transaction must not reference two versions of the
// signer's document at once (that case is generated as a variant, its outcome is not decided by the property).
func (d *dagT) onlyVersion(prevs []int, cur *docVer) []int {
	var clean []int
	for _, p := range prevs {
		if pn := d.nodes[p]; pn.f.doc != nil && pn.did == cur.did && pn.f.doc != cur {
			continue
		}
		clean = append(clean, p)
	}
	return clean
}

func addUnique(xs []int, x int) []int {
	for _, v := range xs {
		if v == x {
			return xs
		}
	}
	return append(xs, x)
}

func (d *dagT) refs(idx []int) []hash.SHA256Hash {
	out := make([]hash.SHA256Hash, len(idx))
	for i, p := range idx {
		out[i] = d.nodes[p].ref
	}
	return out
}

func (d *dagT) lcAfter(idx []int) uint32 {
	var lc uint32
	for _, p := range idx {
		if d.nodes[p].lc+1 > lc {
			lc = d.nodes[p].lc + 1
		}
	}
	return lc
}

func (d *dagT) addNode(rnd *rand.Rand, ks *keyring, i int, kind string, didIdx int, prevs []int) {
	n := &node{idx: i, kind: kind}
	ptype := "application/x-verif"
	content := []byte(fmt.Sprintf("c06/%s/%d/%x", d.tag, i, rnd.Int63()))
	var key *keyT
	kid := ""
	switch kind {
	case "plain":
		switch v := rnd.Intn(20); {
		case v == 0:
			key = ks.p384
		case v == 1:
			key = ks.p521
		case v == 2:
			key = ks.rsa
		default:
			key = ks.plain[rnd.Intn(len(ks.plain))]
		}
	case "doc-create":
		dd := d.dids[didIdx]
		n.did = dd
		key = ks.didKeys[didIdx*3]
		k1 := dd.id + "#k1"
		ver := &docVer{did: dd, n: 0, node: n, keys: map[string]*keyT{k1: key}}
		ver.json = buildDoc(dd.id, ver.keys, []string{k1})
		dd.vers = append(dd.vers, ver)
		n.f.doc = ver
		content = ver.json
		ptype = "application/did+json"
	case "doc-update":
		dd := d.dids[didIdx]
		n.did = dd
		cur := dd.vers[len(dd.vers)-1]
		// signed with a key of the current version; the new version replaces that key (rotation: old key removed)
		for id, k := range cur.keys {
			kid, key = id, k
		}
		newKid := fmt.Sprintf("%s#k%d", dd.id, len(dd.vers)+1)
		newKey := ks.didKeys[didIdx*3+len(dd.vers)%3]
		ver := &docVer{did: dd, n: len(dd.vers), node: n, keys: map[string]*keyT{newKid: newKey}}
		ver.json = buildDoc(dd.id, ver.keys, []string{newKid})
		prevs = d.onlyVersion(addUnique(prevs, cur.node.idx), cur)
		dd.vers = append(dd.vers, ver)
		n.f.doc = ver
		content = ver.json
		ptype = "application/did+json"
	case "kid":
		dd := d.dids[didIdx]
		n.did = dd
		cur := dd.vers[len(dd.vers)-1]
		for id, k := range cur.keys {
			kid, key = id, k
		}
		prevs = d.onlyVersion(addUnique(prevs, cur.node.idx), cur)
	}
	n.prevs = prevs
	n.lc = d.lcAfter(prevs)
	n.content = content
	n.give = kind != "plain" || rnd.Intn(2) == 0
	ph := hash.SHA256Sum(content)
	ver := "2"
	if kind == "plain" && rnd.Intn(12) == 0 {
		ver = "1"
	}
	h := hdr{{"alg", strconv.Quote(key.alg())}, {"crit", critAll}, {"cty", strconv.Quote(ptype)}}
	if kid == "" {
		h = append(h, hf{"jwk", key.pub})
	} else {
		h = append(h, hf{"kid", strconv.Quote(kid)})
	}
	h = append(h, hf{"lc", strconv.Itoa(int(n.lc))}, hf{"prevs", hashJSON(d.refs(prevs))}, hf{"sigt", strconv.Itoa(1700000000 + i)}, hf{"ver", ver})
	if kind == "plain" && rnd.Intn(8) == 0 {
		// private transaction: participant address list present, payload travels separately
		h = append(h, hf{"pal", `["` + base64.StdEncoding.EncodeToString([]byte(fmt.Sprintf("pal-%d", i))) + `"]`})
		n.give = false
	}
	n.sp = spec{h: h, payload: ph.String(), sigAlg: key.alg(), key: key}
	n.f.class, n.f.group, n.f.benign = "valid/"+kind, "valid", true
	n.f.prevs, n.f.lc, n.f.phash, n.f.kid, n.f.signer = d.refs(prevs), int64(n.lc), ph, kid, key
	n.data = n.sp.compact()
	n.ref = hash.SHA256Sum(n.data)
	d.nodes = append(d.nodes, n)
}

// ---- offers and hostile variants ----------------------------------------------------------------------------

type offerT struct {
	data    []byte
	payload []byte
	f       facts
	slot    string // pre: before the target is admitted (its prevs are present); post: after it
	node    *node  // set for the generated valid transactions themselves
}

func (o *offerT) ref() hash.SHA256Hash { return hash.SHA256Sum(o.data) }

type vbuilder struct {
	d   *dagT
	t   *node
	ks  *keyring
	rnd *rand.Rand
	out []*offerT
}

func groupOf(class string) string { return class[:strings.IndexByte(class, '/')] }

// sv adds a variant built by changing the spec and re-signing. The mutation states what it breaks by editing the facts.
func (b *vbuilder) sv(class string, mut func(s *spec, f *facts)) *offerT {
	s, f := b.t.sp.clone(), b.t.f.clone()
	f.class, f.group, f.benign, f.key = class, groupOf(class), false, ""
	mut(&s, &f)
	o := &offerT{data: s.compact(), f: f, slot: "pre"}
	if b.rnd.Intn(2) == 0 {
		o.payload = b.t.content
	}
	b.out = append(b.out, o)
	return o
}

// bv adds a variant built by changing the bytes of a freshly signed, otherwise valid copy of the target.
func (b *vbuilder) bv(class string, mut func(hp, pp, sp string) string, edit func(f *facts)) *offerT {
	hp, pp, sp := b.t.sp.segments()
	f := b.t.f.clone()
	f.class, f.group, f.benign, f.key = class, groupOf(class), false, ""
	edit(&f)
	o := &offerT{data: []byte(mut(hp, pp, sp)), f: f, slot: "pre"}
	if b.rnd.Intn(2) == 0 {
		o.payload = b.t.content
	}
	b.out = append(b.out, o)
	return o
}

func bad(why string) func(f *facts)    { return func(f *facts) { f.bad = why } }
func unspec(cls string) func(f *facts) { return func(f *facts) { f.unspec = cls } }

func randomHash(rnd *rand.Rand) hash.SHA256Hash {
	var b [32]byte
	rnd.Read(b[:])
	return hash.FromSlice(b[:])
}

func jsonGeneral(pp string, sigs ...[2]string) string {
	var parts []string
	for _, s := range sigs {
		parts = append(parts, fmt.Sprintf(`{"protected":%q,"signature":%q}`, s[0], s[1]))
	}
	return fmt.Sprintf(`{"payload":%q,"signatures":[%s]}`, pp, strings.Join(parts, ","))
}

func pad(seg string) (string, bool) {
	if len(seg)%4 == 0 {
		return seg, false
	}
	return seg + strings.Repeat("=", 4-len(seg)%4), true
}

const b64alphabet = "ABCDEFGHIJKLMNOPQRSTUVWXYZabcdefghijklmnopqrstuvwxyz0123456789-_"

// variants returns the hostile (and a few deliberately valid or unspecified) variants of target t.
func variants(d *dagT, t *node, ks *keyring, rnd *rand.Rand) []*offerT {
	b := &vbuilder{d: d, t: t, ks: ks, rnd: rnd}
	isJWK := t.f.kid == ""
	keyHdr := "kid"
	if isJWK {
		keyHdr = "jwk"
	}
	lc := int64(t.lc)
	lcs := strconv.FormatInt(lc, 10)
	prevsJSON, _ := t.sp.h.get("prevs")

	// -- mandatory headers: removed, retyped, duplicated
	for _, h := range []string{"alg", "lc", "prevs", "sigt", "ver", keyHdr} {
		h := h
		b.sv("hdr/remove-"+h, func(s *spec, f *facts) { s.h = s.h.del(h); f.bad = "mandatory header " + h + " absent" })
	}
	// a mandatory header absent AND not announced as critical (or no crit list at all): whatever the crit list says, the header itself
	// is mandatory by the property text. (Where the target is a root, an absent lc/prevs "defaults" to exactly the right value.)
	for _, h := range []string{"lc", "prevs", "sigt", "ver"} {
		h := h
		var rest []string
		for _, c := range []string{"sigt", "ver", "prevs", "lc"} {
			if c != h {
				rest = append(rest, strconv.Quote(c))
			}
		}
		b.sv("hdr/remove-"+h+"-and-from-crit", func(s *spec, f *facts) {
			s.h = s.h.del(h).set("crit", "["+strings.Join(rest, ",")+"]")
			f.bad = "mandatory header " + h + " absent (and not listed in crit)"
		})
		b.sv("hdr/remove-"+h+"-no-crit", func(s *spec, f *facts) {
			s.h = s.h.del(h).del("crit")
			f.bad = "mandatory header " + h + " absent (no crit list)"
		})
	}
	b.sv("hdr/remove-cty", func(s *spec, f *facts) { s.h = s.h.del("cty"); f.unspec = "cty-absent-or-not-a-mime-type" })
	b.sv("hdr/cty-no-slash", func(s *spec, f *facts) { s.h = s.h.set("cty", `"text"`); f.unspec = "cty-absent-or-not-a-mime-type" })
	b.sv("hdr/remove-crit", func(s *spec, f *facts) { s.h = s.h.del("crit"); f.unspec = "crit-list-absent-or-incomplete" })
	b.sv("hdr/crit-empty", func(s *spec, f *facts) { s.h = s.h.set("crit", `[]`); f.unspec = "crit-list-absent-or-incomplete" })
	b.sv("hdr/crit-partial", func(s *spec, f *facts) {
		s.h = s.h.set("crit", `["sigt","lc"]`)
		f.unspec = "crit-list-absent-or-incomplete"
	})
	b.sv("hdr/crit-unknown-extension", func(s *spec, f *facts) {
		s.h = s.h.set("crit", `["sigt","ver","prevs","lc","x-unknown"]`).set("x-unknown", `1`)
		f.unspec = "crit-names-unknown-extension"
	})
	for _, rt := range [][3]string{
		{"alg-number", "alg", `256`}, {"cty-number", "cty", `7`}, {"crit-string", "crit", `"sigt"`},
		{"lc-string", "lc", `"` + lcs + `"`}, {"lc-bool", "lc", `true`}, {"lc-array", "lc", `[` + lcs + `]`}, {"lc-null", "lc", `null`},
		{"prevs-string", "prevs", `"` + strings.Trim(prevsJSON, `[]"`) + `"`}, {"prevs-object", "prevs", `{}`}, {"prevs-null", "prevs", `null`},
		{"prevs-elem-number", "prevs", `[1]`}, {"prevs-elem-shorthex", "prevs", `["abcd"]`},
		{"sigt-string", "sigt", `"1700000000"`}, {"sigt-bool", "sigt", `false`}, {"sigt-null", "sigt", `null`},
		{"lc-empty-string", "lc", `""`}, {"lc-object", "lc", `{}`}, {"lc-empty-array", "lc", `[]`},
		{"prevs-bool", "prevs", `false`}, {"prevs-empty-string", "prevs", `""`}, {"prevs-number", "prevs", `0`}, {"prevs-elem-null", "prevs", `[null]`}, {"prevs-elem-empty", "prevs", `[""]`},
		{"sigt-array", "sigt", `[1700000000]`}, {"sigt-object", "sigt", `{}`}, {"sigt-empty-string", "sigt", `""`},
		{"ver-bool", "ver", `true`}, {"ver-array", "ver", `[2]`}, {"ver-unsupported-negative", "ver", `-1`}, {"ver-empty-string", "ver", `""`},
		{"ver-string", "ver", `"2"`}, {"ver-unsupported-3", "ver", `3`}, {"ver-unsupported-0", "ver", `0`}, {"ver-null", "ver", `null`},
	} {
		rt := rt
		b.sv("hdr/retype-"+rt[0], func(s *spec, f *facts) {
			s.h = s.h.set(rt[1], rt[2])
			f.bad = "header " + rt[1] + " has the wrong type or an unsupported value"
		})
	}
	if isJWK {
		for _, rt := range [][2]string{{"string", `"x"`}, {"null", `null`}, {"number", `5`}, {"array", `[]`}} {
			rt := rt
			b.sv("key/jwk-retyped-"+rt[0], func(s *spec, f *facts) { s.h = s.h.set("jwk", rt[1]); f.bad = "jwk is not a key" })
		}
	} else {
		b.sv("key/kid-retyped-number", func(s *spec, f *facts) { s.h = s.h.set("kid", `5`); f.bad = "kid is not a string" })
	}
	// duplicate member names: RFC 7515 lets a parser take the lexically last one, so "bad value first, good value last" is unspecified here,
	// "good first, bad last" must be refused through the rule the bad value breaks.
	type dupT struct {
		h, good, badv string
		apply         func(f *facts)
	}
	dups := []dupT{
		{"lc", lcs, strconv.FormatInt(lc+1, 10), func(f *facts) { f.lc = lc + 1 }},
		{"sigt", "1700000000", `"x"`, bad("last sigt member is a string")},
		{"ver", "2", "3", bad("last ver member is unsupported")},
		{"alg", strconv.Quote(t.sp.sigAlg), `"none"`, bad("last alg member is none")},
		{"prevs", prevsJSON, `["` + randomHash(rnd).String() + `"]`, nil},
	}
	for _, du := range dups {
		du := du
		b.sv("hdr/dup-"+du.h+"-bad-last", func(s *spec, f *facts) {
			s.h = s.h.dup(du.h, du.good, du.badv)
			if du.apply != nil {
				du.apply(f)
			} else {
				f.prevs = []hash.SHA256Hash{mustHash(strings.Trim(du.badv, `[]"`))}
			}
		})
		b.sv("hdr/dup-"+du.h+"-good-last", func(s *spec, f *facts) {
			s.h = s.h.dup(du.h, du.badv, du.good)
			f.unspec = "duplicate-header-names-last-wins"
		})
	}
	b.sv("hdr/extra-unknown", func(s *spec, f *facts) { s.h = s.h.set("x-extra", `{"a":[1,2]}`); f.benign = true })
	b.sv("hdr/json-whitespace-reordered", func(s *spec, f *facts) {
		h := s.h.clone()
		rnd.Shuffle(len(h), func(i, j int) { h[i], h[j] = h[j], h[i] })
		parts := make([]string, len(h))
		for i, m := range h {
			parts[i] = strconv.Quote(m.k) + " :\t" + m.v
		}
		s.hjson = "{ " + strings.Join(parts, " ,\r\n  ") + "\n}"
		f.benign = true
	})
	b.sv("hdr/json-surrounding-whitespace", func(s *spec, f *facts) {
		s.hjson = " " + s.h.json() + "\n"
		f.unspec = "header-json-surrounded-by-whitespace"
	})

	// -- algorithms
	b.sv("alg/none-empty-signature", func(s *spec, f *facts) { s.h = s.h.set("alg", `"none"`); s.sigAlg = "none"; f.bad = "alg none" })
	b.sv("alg/none-keep-signature", func(s *spec, f *facts) { s.h = s.h.set("alg", `"none"`); f.bad = "alg none" })
	b.sv("alg/HS256-keyed-with-public-key", func(s *spec, f *facts) { s.h = s.h.set("alg", `"HS256"`); s.sigAlg = "HS256"; f.bad = "alg HS256" })
	b.sv("alg/ES256K", func(s *spec, f *facts) { s.h = s.h.set("alg", `"ES256K"`); f.bad = "alg ES256K" })
	b.sv("alg/lowercase", func(s *spec, f *facts) { s.h = s.h.set("alg", `"es256"`); f.bad = "alg es256" })
	if t.sp.key.ec != nil {
		b.sv("alg/PS256-over-ec-key", func(s *spec, f *facts) {
			s.h = s.h.set("alg", `"PS256"`)
			f.bad = "PS256 header, ECDSA signature and key"
		})
	}
	if isJWK {
		b.sv("alg/RS256-valid-rsa-signature", func(s *spec, f *facts) {
			s.h = s.h.set("alg", `"RS256"`).set("jwk", ks.rsa.pub)
			s.sigAlg, s.key = "RS256", ks.rsa
			f.signer, f.bad = ks.rsa, "alg RS256"
		})
		b.sv("alg/ES256-with-P384-key", func(s *spec, f *facts) {
			s.h = s.h.set("alg", `"ES256"`).set("jwk", ks.p384.pub)
			s.sigAlg, s.key = "ES256", ks.p384
			f.signer, f.unspec = ks.p384, "ecdsa-curve-does-not-match-alg"
		})
		b.sv("alg/ES384-with-P256-key", func(s *spec, f *facts) {
			k := ks.plain[0]
			s.h = s.h.set("alg", `"ES384"`).set("jwk", k.pub)
			s.sigAlg, s.key = "ES384", k
			f.signer, f.unspec = k, "ecdsa-curve-does-not-match-alg"
		})
		b.sv("alg/ES256-with-rsa-jwk", func(s *spec, f *facts) {
			s.h = s.h.set("alg", `"ES256"`).set("jwk", ks.rsa.pub)
			s.sigAlg, s.key = "ES256", ks.plain[0]
			f.bad = "RSA key, ES256 signature"
		})
		for _, k := range []*keyT{ks.p384, ks.p521, ks.rsa, ks.plain[1]} {
			k := k
			b.sv("alg/valid-"+k.alg()+"-"+k.curve, func(s *spec, f *facts) {
				s.h = s.h.set("alg", strconv.Quote(k.alg())).set("jwk", k.pub)
				s.sigAlg, s.key = k.alg(), k
				f.signer, f.benign = k, true
			})
		}
	}

	// -- serialisation
	b.bv("ser/json-flattened", func(hp, pp, sp string) string {
		return fmt.Sprintf(`{"payload":%q,"protected":%q,"signature":%q}`, pp, hp, sp)
	}, unspec("json-serialisation-single-signature"))
	b.bv("ser/json-general-one-signature", func(hp, pp, sp string) string { return jsonGeneral(pp, [2]string{hp, sp}) }, unspec("json-serialisation-single-signature"))
	b.bv("ser/json-flattened-unprotected-header", func(hp, pp, sp string) string {
		return fmt.Sprintf(`{"payload":%q,"protected":%q,"header":{"lc":%d,"x":1},"signature":%q}`, pp, hp, lc+7, sp)
	}, unspec("json-serialisation-single-signature"))
	b.bv("ser/json-general-two-signatures", func(hp, pp, sp string) string {
		hp2, _, sp2 := b.t.sp.segments()
		return jsonGeneral(pp, [2]string{hp, sp}, [2]string{hp2, sp2})
	}, bad("two signatures"))
	b.bv("ser/json-general-two-signatures-second-foreign", func(hp, pp, sp string) string {
		o := b.t.sp.clone()
		o.key, o.sigAlg = ks.attacker, "ES256"
		o.h = o.h.del("kid").set("alg", `"ES256"`).set("jwk", ks.attacker.pub)
		hp2, _, sp2 := o.segments()
		return jsonGeneral(pp, [2]string{hp, sp}, [2]string{hp2, sp2})
	}, bad("two signatures"))
	b.bv("ser/json-general-no-signature", func(hp, pp, sp string) string { return jsonGeneral(pp) }, bad("no signature"))
	{
		// mandatory headers only in the unprotected header of a flattened JWS: not covered by the signature
		s := t.sp.clone()
		var prot, unprot hdr
		for _, f := range s.h {
			if f.k == "alg" || f.k == "jwk" || f.k == "kid" || f.k == "crit" {
				prot = append(prot, f)
			} else {
				unprot = append(unprot, f)
			}
		}
		hp := b64.EncodeToString([]byte(prot.json()))
		pp := b64.EncodeToString([]byte(s.payload))
		sig := b64.EncodeToString(signRaw(s.sigAlg, s.key, []byte(hp+"."+pp)))
		f := t.f.clone()
		f.class, f.group, f.benign, f.bad = "ser/json-mandatory-headers-unprotected", "ser", false, "mandatory headers outside the protected header"
		b.out = append(b.out, &offerT{data: []byte(fmt.Sprintf(`{"payload":%q,"protected":%q,"header":%s,"signature":%q}`, pp, hp, unprot.json(), sig)), f: f, slot: "pre"})
	}
	b.sv("ser/rfc7797-unencoded-payload", func(s *spec, f *facts) {
		s.h = s.h.set("b64", `false`).set("crit", `["sigt","ver","prevs","lc","b64"]`)
		s.rawPay = true
		f.unspec = "rfc7797-unencoded-payload"
	})

	// -- key reference
	if isJWK {
		b.sv("key/both-kid-and-jwk", func(s *spec, f *facts) {
			s.h = s.h.set("kid", `"did:nuts:someone#k1"`)
			f.bad = "both kid and jwk"
		})
		b.sv("key/empty-kid-next-to-jwk", func(s *spec, f *facts) { s.h = s.h.set("kid", `""`); f.unspec = "empty-kid-next-to-jwk" })
		b.sv("key/jwk-private", func(s *spec, f *facts) { s.h = s.h.set("jwk", s.key.priv); f.unspec = "private-jwk-embedded(C17)" })
		b.sv("key/jwk-symmetric", func(s *spec, f *facts) {
			s.h = s.h.set("jwk", `{"kty":"oct","k":"`+b64.EncodeToString(s.key.der)+`"}`)
			f.bad = "symmetric jwk"
		})
		b.sv("key/jwk-of-other-key", func(s *spec, f *facts) {
			s.h = s.h.set("jwk", ks.attacker.pub)
			f.bad = "signature not by the embedded key"
		})
		b.sv("key/signed-by-other-key", func(s *spec, f *facts) {
			s.key, s.sigAlg = ks.attacker, "ES256"
			f.signer, f.bad = ks.attacker, "signature not by the embedded key"
		})
	} else {
		// the attack the kid/jwk exclusion exists for: name the victim's kid, embed and use the own key
		b.sv("key/both-kid-and-jwk", func(s *spec, f *facts) {
			s.h = s.h.set("jwk", ks.attacker.pub)
			s.key, s.sigAlg = ks.attacker, "ES256"
			f.signer, f.bad = ks.attacker, "both kid and jwk"
		})
		b.sv("kid/signed-by-other-key", func(s *spec, f *facts) { s.key, s.sigAlg, f.signer = ks.attacker, "ES256", ks.attacker })
		b.sv("kid/unknown-did", func(s *spec, f *facts) {
			f.kid = "did:nuts:" + d.tag + "nobody#k1"
			s.h = s.h.set("kid", strconv.Quote(f.kid))
		})
		b.sv("kid/unknown-fragment", func(s *spec, f *facts) { f.kid = t.did.id + "#nope"; s.h = s.h.set("kid", strconv.Quote(f.kid)) })
		b.sv("kid/not-a-did-url", func(s *spec, f *facts) { f.kid = "k1"; s.h = s.h.set("kid", `"k1"`) })
		b.sv("kid/empty", func(s *spec, f *facts) { s.h = s.h.set("kid", `""`); f.bad = "neither kid nor jwk" })
		setPrevs := func(s *spec, f *facts, idx []int) {
			f.prevs = d.refs(idx)
			f.lc = int64(d.lcAfter(idx))
			s.h = s.h.set("prevs", hashJSON(f.prevs)).set("lc", strconv.FormatInt(f.lc, 10))
		}
		// which version of the document does the target reference
		var cur *docVer
		var nonDoc []int
		for _, p := range t.prevs {
			if pn := d.nodes[p]; pn.f.doc != nil && pn.did == t.did {
				cur = pn.f.doc
			} else {
				nonDoc = append(nonDoc, p)
			}
		}
		if cur != nil {
			b.sv("kid/no-document-version-referenced", func(s *spec, f *facts) {
				idx := nonDoc
				if len(idx) == 0 {
					idx = []int{0}
					if t.did.vers[0].node.idx == 0 {
						idx = []int{cur.node.idx - 1}
					}
				}
				setPrevs(s, f, idx)
			})
			if cur.n > 0 {
				old := t.did.vers[cur.n-1]
				var oldKid string
				var oldKey *keyT
				for id, k := range old.keys {
					oldKid, oldKey = id, k
				}
				// the rotated-out key, as of the version that no longer lists it
				b.sv("kid/removed-key-as-of-later-version", func(s *spec, f *facts) {
					f.kid, f.signer = oldKid, oldKey
					s.h = s.h.set("kid", strconv.Quote(oldKid))
					s.key, s.sigAlg = oldKey, oldKey.alg()
				})
				// the rotated-out key, referencing both the version that lists it and the one that does not
				for _, first := range []string{"old-first", "new-first"} {
					first := first
					b.sv("kid/removed-key-prevs-span-versions-"+first, func(s *spec, f *facts) {
						f.kid, f.signer = oldKid, oldKey
						s.h = s.h.set("kid", strconv.Quote(oldKid))
						s.key, s.sigAlg = oldKey, oldKey.alg()
						idx := append([]int{old.node.idx, cur.node.idx}, nonDoc...)
						if first == "new-first" {
							idx[0], idx[1] = idx[1], idx[0]
						}
						setPrevs(s, f, idx)
					})
				}
				// the rotated-out key as of the version that lists it: valid by the property text
				b.sv("kid/old-key-as-of-old-version", func(s *spec, f *facts) {
					f.kid, f.signer = oldKid, oldKey
					s.h = s.h.set("kid", strconv.Quote(oldKid))
					s.key, s.sigAlg = oldKey, oldKey.alg()
					setPrevs(s, f, append([]int{old.node.idx}, nonDoc...))
					f.benign = true
				})
				// the current key as of a version that does not list it yet
				b.sv("kid/key-not-yet-in-referenced-version", func(s *spec, f *facts) { setPrevs(s, f, append([]int{old.node.idx}, nonDoc...)) })
			}
		}
		for _, od := range d.dids {
			if od == t.did || len(od.vers) == 0 || od.vers[0].node.idx >= t.idx {
				continue
			}
			ov := od.vers[len(od.vers)-1]
			if ov.node.idx >= t.idx {
				ov = od.vers[0]
			}
			var oKid string
			var oKey *keyT
			for id, k := range ov.keys {
				oKid, oKey = id, k
			}
			b.sv("kid/other-did-key-not-referenced", func(s *spec, f *facts) {
				f.kid, f.signer = oKid, oKey
				s.h = s.h.set("kid", strconv.Quote(oKid))
				s.key, s.sigAlg = oKey, oKey.alg()
			})
			b.sv("kid/other-did-kid-own-signature", func(s *spec, f *facts) {
				f.kid = oKid
				s.h = s.h.set("kid", strconv.Quote(oKid))
				setPrevs(s, f, addUnique(append([]int{}, t.prevs...), ov.node.idx))
			})
			break
		}
	}

	// -- prevs
	unknown := randomHash(rnd)
	b.sv("prevs/only-unknown", func(s *spec, f *facts) {
		f.prevs = []hash.SHA256Hash{unknown}
		s.h = s.h.set("prevs", hashJSON(f.prevs))
	})
	b.sv("prevs/one-unknown-added", func(s *spec, f *facts) { f.prevs = append(f.prevs, unknown); s.h = s.h.set("prevs", hashJSON(f.prevs)) })
	b.sv("prevs/self-reference-to-original", func(s *spec, f *facts) { f.prevs = append(f.prevs, t.ref); s.h = s.h.set("prevs", hashJSON(f.prevs)) })
	b.sv("prevs/original-as-prev-clock-adjusted", func(s *spec, f *facts) {
		// valid child of the target once the target is present; a dangling reference before
		f.prevs = append(f.prevs, t.ref)
		f.lc = lc + 1
		s.h = s.h.set("prevs", hashJSON(f.prevs)).set("lc", strconv.FormatInt(f.lc, 10))
		if f.kid == "" {
			f.benign = true
		}
	}).slot = "any"
	if len(t.prevs) > 0 {
		b.sv("prevs/one-replaced-by-unknown", func(s *spec, f *facts) {
			f.prevs[rnd.Intn(len(f.prevs))] = unknown
			s.h = s.h.set("prevs", hashJSON(f.prevs))
		})
		b.sv("prevs/duplicated", func(s *spec, f *facts) {
			f.prevs = append(f.prevs, f.prevs[0])
			s.h = s.h.set("prevs", hashJSON(f.prevs))
			f.unspec = "duplicate-prevs"
		})
		b.sv("prevs/empty-clock-kept", func(s *spec, f *facts) { f.prevs = nil; s.h = s.h.set("prevs", `[]`) })
		b.sv("prevs/uppercase-hex", func(s *spec, f *facts) {
			s.h = s.h.set("prevs", strings.ToUpper(prevsJSON))
			f.unspec = "hex-in-uppercase"
		})
		if isJWK {
			b.sv("root/second-root", func(s *spec, f *facts) {
				f.prevs, f.lc = nil, 0
				s.h = s.h.set("prevs", `[]`).set("lc", `0`)
			})
		}
	}
	if len(t.prevs) > 1 {
		b.sv("prevs/reordered", func(s *spec, f *facts) {
			f.prevs[0], f.prevs[len(f.prevs)-1] = f.prevs[len(f.prevs)-1], f.prevs[0]
			s.h = s.h.set("prevs", hashJSON(f.prevs))
			f.benign = f.kid == "" // with kid the order of prevs takes part in key resolution
			if f.kid != "" {
				f.unspec = "kid-prevs-reordered"
			}
		})
		// drop the reference with the highest clock, keep the clock
		hi := 0
		for i, p := range t.prevs {
			if d.nodes[p].lc > d.nodes[t.prevs[hi]].lc {
				hi = i
			}
		}
		if isJWK {
			b.sv("prevs/highest-dropped-clock-kept", func(s *spec, f *facts) {
				f.prevs = append(f.prevs[:hi:hi], f.prevs[hi+1:]...)
				s.h = s.h.set("prevs", hashJSON(f.prevs))
				if int64(d.lcAfter(append(append([]int{}, t.prevs[:hi]...), t.prevs[hi+1:]...))) == lc {
					f.benign = true // the other references reach the same clock: still valid
				}
			})
		}
	}
	if t.idx == 0 {
		b.sv("root/second-root", func(s *spec, f *facts) { s.h = s.h.set("sigt", "1600000000") }).slot = "post"
		b.sv("root/second-root-other-key", func(s *spec, f *facts) {
			s.h = s.h.set("jwk", ks.attacker.pub).set("alg", `"ES256"`)
			s.key, s.sigAlg, f.signer = ks.attacker, "ES256", ks.attacker
		}).slot = "post"
	}

	// -- lamport clock
	setLC := func(class, text string, declared int64, more func(f *facts)) {
		b.sv(class, func(s *spec, f *facts) {
			s.h = s.h.set("lc", text)
			f.lc = declared
			if more != nil {
				more(f)
			}
		})
	}
	setLC("lc/plus-one", strconv.FormatInt(lc+1, 10), lc+1, nil)
	setLC("lc/plus-512", strconv.FormatInt(lc+512, 10), lc+512, nil)
	setLC("lc/negative-one", "-1", -1, nil)
	if lc > 0 {
		setLC("lc/minus-one", strconv.FormatInt(lc-1, 10), lc-1, nil)
		setLC("lc/zero", "0", 0, nil)
	}
	setLC("lc/fraction-truncating-to-right-value", lcs+".5", lc, unspec("fractional-lc"))
	setLC("lc/fraction-truncating-to-wrong-value", strconv.FormatInt(lc+1, 10)+".25", lc+1, unspec("fractional-lc"))
	setLC("lc/float-notation", lcs+".0", lc, unspec("lc-integral-in-float-notation"))
	setLC("lc/exponent-notation", lcs+"e0", lc, unspec("lc-integral-in-float-notation"))
	setLC("lc/wraps-uint32", strconv.FormatInt(lc+1<<32, 10), lc+1<<32, nil)
	setLC("lc/wraps-uint32-twice", strconv.FormatInt(lc+2<<32, 10), lc+2<<32, nil)
	setLC("lc/wraps-uint32-negative", strconv.FormatInt(lc-1<<32, 10), lc-1<<32, nil)
	setLC("lc/huge-1e30", "1e30", 1<<62, nil)

	// -- other numeric headers
	b.sv("sigt/fraction", func(s *spec, f *facts) { s.h = s.h.set("sigt", "1700000000.5"); f.unspec = "sigt-unusual-number" })
	b.sv("sigt/negative", func(s *spec, f *facts) { s.h = s.h.set("sigt", "-5"); f.unspec = "sigt-unusual-number" })
	b.sv("sigt/huge", func(s *spec, f *facts) { s.h = s.h.set("sigt", "1e300"); f.unspec = "sigt-unusual-number" })
	b.sv("ver/fraction", func(s *spec, f *facts) { s.h = s.h.set("ver", "2.5"); f.unspec = "fractional-ver" })
	b.sv("ver/other-allowed", func(s *spec, f *facts) {
		v, _ := s.h.get("ver")
		s.h = s.h.set("ver", map[string]string{"1": "2", "2": "1"}[v])
		f.unspec = "ver-1-or-2"
	})

	// -- payload
	other := []byte("other payload " + d.tag)
	if o := b.sv("payload/supplied-does-not-hash", func(s *spec, f *facts) { f.benign = true }); true {
		o.payload = other // the transaction itself is valid: the model refuses it for the payload only
	}
	b.sv("payload/declared-hash-of-other-content", func(s *spec, f *facts) {
		f.phash = hash.SHA256Sum(other)
		s.payload = f.phash.String()
		f.benign = true
	}).payload = t.content
	b.sv("payload/short-hash", func(s *spec, f *facts) { s.payload = s.payload[:62]; f.bad = "payload is not a SHA-256 hash" })
	b.sv("payload/not-hex", func(s *spec, f *facts) { s.payload = "zz" + s.payload[2:]; f.bad = "payload is not a SHA-256 hash" })
	b.sv("payload/binary-hash", func(s *spec, f *facts) {
		s.payload = string(f.phash.Slice())
		f.bad = "payload is not a hex SHA-256 hash"
	})
	b.sv("payload/empty", func(s *spec, f *facts) { s.payload = ""; f.phash = hash.EmptyHash(); f.unspec = "empty-jws-payload" }).payload = nil
	b.sv("payload/uppercase-hex", func(s *spec, f *facts) { s.payload = strings.ToUpper(s.payload); f.unspec = "hex-in-uppercase" })

	// -- bit flips and signature mangling
	flipDecoded := func(seg string, avoidTail int) string {
		raw, err := b64.DecodeString(seg)
		if err != nil || len(raw) <= avoidTail {
			return seg + "A"
		}
		i := rnd.Intn(len(raw) - avoidTail)
		raw[i] ^= 1 << uint(rnd.Intn(8))
		return b64.EncodeToString(raw)
	}
	b.bv("flip/signature-bit", func(hp, pp, sp string) string { return hp + "." + pp + "." + flipDecoded(sp, 0) }, bad("signature altered"))
	b.bv("flip/protected-header-bit", func(hp, pp, sp string) string { return flipDecoded(hp, 0) + "." + pp + "." + sp }, bad("protected header altered after signing"))
	b.bv("flip/payload-bit", func(hp, pp, sp string) string { return hp + "." + flipDecoded(pp, 0) + "." + sp }, bad("payload altered after signing"))
	b.bv("flip/protected-header-base64-char", func(hp, pp, sp string) string {
		i := rnd.Intn(len(hp) - 2)
		c := b64alphabet[(strings.IndexByte(b64alphabet, hp[i])+1+rnd.Intn(62))%64]
		return hp[:i] + string(c) + hp[i+1:] + "." + pp + "." + sp
	}, bad("protected header altered after signing"))
	b.bv("sig/truncated", func(hp, pp, sp string) string { return hp + "." + pp + "." + sp[:len(sp)-3] }, bad("signature truncated"))
	b.bv("sig/empty", func(hp, pp, sp string) string { return hp + "." + pp + "." }, bad("signature absent"))
	b.bv("sig/extended", func(hp, pp, sp string) string {
		raw, _ := b64.DecodeString(sp)
		return hp + "." + pp + "." + b64.EncodeToString(append(raw, 0))
	}, bad("signature has extra bytes"))
	b.bv("sig/of-other-transaction", func(hp, pp, sp string) string {
		o := d.nodes[(t.idx+1)%len(d.nodes)]
		if o == t {
			return hp + "." + pp + "." + flipDecoded(sp, 0)
		}
		return hp + "." + pp + "." + string(o.data[strings.LastIndexByte(string(o.data), '.')+1:])
	}, bad("signature of another transaction"))
	if t.sp.key.ec != nil {
		b.bv("sig/asn1-der-encoded", func(hp, pp, sp string) string {
			raw, _ := b64.DecodeString(sp)
			n := len(raw) / 2
			der, _ := asn1.Marshal(struct{ R, S *big.Int }{new(big.Int).SetBytes(raw[:n]), new(big.Int).SetBytes(raw[n:])})
			return hp + "." + pp + "." + b64.EncodeToString(der)
		}, bad("signature not in JWS r||s form"))
		b.bv("sig/ecdsa-s-negated", func(hp, pp, sp string) string {
			raw, _ := b64.DecodeString(sp)
			n := len(raw) / 2
			s := new(big.Int).SetBytes(raw[n:])
			s.Sub(t.sp.key.ec.Curve.Params().N, s)
			s.FillBytes(raw[n:])
			return hp + "." + pp + "." + b64.EncodeToString(raw)
		}, unspec("ecdsa-signature-s-negated-by-third-party"))
		if len(b64.EncodeToString(make([]byte, 2*((t.sp.key.ec.Curve.Params().BitSize+7)/8))))%4 != 0 {
			b.bv("sig/base64-unused-trailing-bits", func(hp, pp, sp string) string {
				last := strings.IndexByte(b64alphabet, sp[len(sp)-1])
				return hp + "." + pp + "." + sp[:len(sp)-1] + string(b64alphabet[last|1])
			}, func(f *facts) {
				f.unspec = "base64-unused-trailing-bits"
			})
		}
	}

	// -- re-encodings of the compact form (a third party can produce them from any valid transaction)
	xseg := func(f *facts) { f.bad, f.key = "not a three-segment compact JWS", "enc/extra-segment" }
	lb64 := func(f *facts) { f.bad, f.key = "segments are not unpadded base64url", "enc/lenient-base64" }
	b.bv("enc/trailing-dot", func(hp, pp, sp string) string { return hp + "." + pp + "." + sp + "." }, xseg)
	b.bv("enc/extra-segment", func(hp, pp, sp string) string { return hp + "." + pp + "." + sp + ".garbage" }, xseg)
	b.bv("enc/two-segments", func(hp, pp, sp string) string { return hp + "." + pp }, bad("two segments"))
	b.bv("enc/leading-dot", func(hp, pp, sp string) string { return "." + hp + "." + pp + "." + sp }, bad("empty first segment"))
	b.bv("enc/trailing-newline", func(hp, pp, sp string) string { return hp + "." + pp + "." + sp + "\n" }, lb64)
	b.bv("enc/newline-inside-header-segment", func(hp, pp, sp string) string { return hp[:8] + "\r\n" + hp[8:] + "." + pp + "." + sp }, lb64)
	b.bv("enc/leading-space", func(hp, pp, sp string) string { return " " + hp + "." + pp + "." + sp }, bad("leading whitespace"))
	b.bv("enc/trailing-space", func(hp, pp, sp string) string { return hp + "." + pp + "." + sp + " " }, bad("trailing whitespace"))
	b.bv("enc/padded-signature", func(hp, pp, sp string) string {
		p, _ := pad(sp)
		return hp + "." + pp + "." + p
	}, func(f *facts) {
		lb64(f)
		if _, _, sp := t.sp.segments(); len(sp)%4 == 0 {
			f.bad, f.key, f.benign = "", "", true // nothing to pad: an ordinary re-signed copy
		}
	})
	b.bv("enc/standard-alphabet-signature", func(hp, pp, sp string) string {
		return hp + "." + pp + "." + strings.NewReplacer("-", "+", "_", "/").Replace(sp)
	}, func(f *facts) {
		// decided after the bytes are known, see fixup below
		lb64(f)
	})
	// fix up the classes whose mutation may have been a no-op on the bytes drawn
	for _, o := range b.out {
		if o.f.class == "enc/standard-alphabet-signature" {
			sig := string(o.data[strings.LastIndexByte(string(o.data), '.')+1:])
			if !strings.ContainsAny(sig, "+/") {
				o.f.bad, o.f.key, o.f.benign = "", "", true
			}
		}
	}
	b.sv("valid/resigned-copy", func(s *spec, f *facts) { f.benign = true })
	return b.out
}

func mustHash(s string) hash.SHA256Hash {
	b, err := hex.DecodeString(s)
	if err != nil || len(b) != 32 {
		panic("mustHash: " + s)
	}
	return hash.FromSlice(b)
}

// coreClasses are offered for at least one target of every DAG (so that each run exercises every rule of the property).
var coreClasses = map[string]bool{
	"lc/plus-one": true, "lc/minus-one": true, "payload/supplied-does-not-hash": true, "root/second-root": true, "key/both-kid-and-jwk": true,
	"prevs/only-unknown": true, "flip/signature-bit": true, "alg/none-empty-signature": true, "hdr/remove-sigt": true,
	"ser/json-general-two-signatures": true, "kid/signed-by-other-key": true, "kid/removed-key-as-of-later-version": true,
	"key/signed-by-other-key": true, "lc/wraps-uint32": true, "enc/extra-segment": true, "valid/resigned-copy": true,
}
