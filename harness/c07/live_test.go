package c07

// Live mode (thorough tier): the same real nodes, but driven through the production entry point grpc.Protocol.Handle (one goroutine
// per message, TransactionLists through the list handler's channel), real gossip tickers at 20 ms, a lossy/duplicating network of
// goroutines, transactions created while syncing and forged messages with tampered transactions - all under the race detector.
// It runs in a child process (a panic in one of production's background goroutines must not take the monitor down).
// Verdicts: safety (never an invalid transaction, never a removal, end state consistent) and race reports can alarm; convergence is
// "held" or INCONCLUSIVE (wall-clock watchdog), never a violation.

import (
	"context"
	"encoding/json"
	"fmt"
	"hash/fnv"
	"io"
	"math/rand"
	"os"
	"path/filepath"
	"strconv"
	"strings"
	"sync"
	"sync/atomic"
	"testing"
	"time"

	"github.com/nuts-foundation/nuts-node/crypto/hash"
	"github.com/nuts-foundation/nuts-node/network/dag"
	"github.com/nuts-foundation/nuts-node/network/transport/grpc"
	v2 "github.com/nuts-foundation/nuts-node/network/transport/v2"
	"github.com/sirupsen/logrus"
	"google.golang.org/protobuf/proto"
	"verif/lib/dagx"
	"verif/lib/ev"
	"verif/lib/worker"
)

func TestMain(m *testing.M) {
	worker.Register("c07live", liveWorker)
	worker.Main(m)
}

const (
	liveGossipMs = 25
	liveTimeout  = 4 * time.Second
)

type liveLine struct {
	Kind     string         `json:"kind"` // violation | inconclusive | scenario | fatal
	Key      string         `json:"key,omitempty"`
	What     string         `json:"what,omitempty"`
	Witness  map[string]any `json:"witness,omitempty"`
	Counters map[string]int `json:"counters,omitempty"`
	Sample   map[string]any `json:"sample,omitempty"`
}

// liveMode (parent side): runs the child and turns its ledger into verdicts and evidence.
func liveMode(t *testing.T, r *ev.Run, su *suite) {
	out := filepath.Join(su.dir, "live.ledger")
	res := worker.Run("c07live", []string{strconv.FormatInt(r.Seed(), 10), out, su.dir}, 12*time.Minute)
	scenarios, converged := 0, 0
	for _, ln := range worker.ReadLedger(out) {
		var l liveLine
		if err := json.Unmarshal([]byte(ln), &l); err != nil {
			continue
		}
		switch l.Kind {
		case "violation":
			r.Violation(l.Key, l.What, l.Witness)
		case "inconclusive":
			r.Inconclusive(l.What)
		case "fatal":
			r.Fatalf("live mode: %s", l.What)
		case "scenario":
			scenarios++
			for k, v := range l.Counters {
				r.Count("live/"+k, v)
			}
			if l.Sample["converged"] == true {
				converged++
			}
			r.Case("live|"+fmt.Sprint(l.Sample["fingerprint"]), true)
			if scenarios <= 2 {
				r.Sample(l.Sample)
			}
		}
	}
	r.Extra("live_mode", map[string]any{"scenarios": scenarios, "converged_before_watchdog": converged, "child_exit": res.ExitCode, "child_timed_out": res.TimedOut})
	switch {
	case res.TimedOut:
		r.Inconclusive("live mode child process did not finish within its watchdog")
	case res.ExitCode == 66 && !res.Signaled && !strings.Contains(res.Output, "panic:"):
		// exit status of the race detector: the reports are in the race log, which ./check parses and gates on
		r.Extra("live_mode_race_detector_exit", true)
	case res.ExitCode != 0 || res.Signaled:
		tail := res.Output
		if len(tail) > 3000 {
			tail = tail[len(tail)-3000:]
		}
		if i := strings.Index(res.Output, "panic:"); i >= 0 {
			fn := panicFunction(res.Output[i:])
			r.Violation("C07/panic/live/"+fn, "the live-mode process died from a panic in a background goroutine of the node", map[string]any{"output_tail": tail})
		} else {
			r.Fatalf("live mode child failed (exit %d): %s", res.ExitCode, tail)
		}
	case scenarios == 0:
		r.Fatalf("live mode produced no scenario result")
	}
}

// ---- child ---------------------------------------------------------------------------------------------------------------

func streamRand(seed int64, stream string) *rand.Rand {
	h := fnv.New64a()
	h.Write([]byte(stream))
	return rand.New(rand.NewSource(seed*1000003 + int64(h.Sum64()&0x7fffffffffff)))
}

func liveWorker(args []string) int {
	logrus.SetOutput(io.Discard)
	logrus.SetLevel(logrus.PanicLevel)
	seed, _ := strconv.ParseInt(args[0], 10, 64)
	led := worker.OpenLedger(args[1])
	emit := func(l liveLine) {
		b, _ := json.Marshal(l)
		led.Log("%s", b)
	}
	dir, err := os.MkdirTemp(args[2], "live-")
	if err != nil {
		emit(liveLine{Kind: "fatal", What: err.Error()})
		return 3
	}
	su := &suite{dir: dir, tmpl: map[string]*template{}, rand: func(stream string) *rand.Rand { return streamRand(seed, "live-"+stream) },
		fatalf: func(f string, a ...any) { emit(liveLine{Kind: "fatal", What: fmt.Sprintf(f, a...)}); os.Exit(3) }}
	su.capOK, su.capFail = measureIbltCapacity(su.rand("iblt-capacity"))
	for _, sp := range []struct {
		name string
		n    int
	}{{"long", 1100}, {"p1", 520}} {
		tp, err := buildTemplate(dir, sp.name, su.rand("template-"+sp.name), dagx.Chain, sp.n)
		if err != nil {
			su.fatalf("%v", err)
		}
		su.tmpl[sp.name] = tp
	}
	specs := []struct {
		class string
		n     int
		size  int
	}{{"disjoint", 3, 200}, {"behind", 2, 300}, {"arbitrary", 4, 250}, {"private", 3, 150}, {"multi-page", 3, 150}, {"iblt-overflow", 2, 0},
		{"far-behind", 2, 0}, {"disjoint", 4, 400}, {"iblt-overflow-late", 3, 0}, {"arbitrary", 2, 500}, {"multi-page", 4, 300}, {"behind", 4, 200}}
	for i, sp := range specs {
		sc := su.build(5000+i, sp.class, sp.n, sp.size, "live")
		runLive(su, sc, emit)
	}
	return 0
}

type liveNet struct {
	sc      *scenario
	nodes   []*simNode
	rnd     *rand.Rand
	rmu     sync.Mutex
	links   map[[2]int]chan []byte
	stop    chan struct{}
	wg      sync.WaitGroup
	cnt     sync.Map // string -> *int64
	evilMu  sync.Mutex
	loss    int // percent
	stopped atomic.Bool
}

func (ln *liveNet) count(k string, d int) {
	v, _ := ln.cnt.LoadOrStore(k, new(int64))
	atomic.AddInt64(v.(*int64), int64(d))
}

func (ln *liveNet) intn(n int) int {
	ln.rmu.Lock()
	defer ln.rmu.Unlock()
	return ln.rnd.Intn(n)
}

func (ln *liveNet) send(from, to int, envelope interface{}) error {
	if ln.stopped.Load() {
		return nil
	}
	env := envelope.(*v2.Envelope)
	wire, err := proto.Marshal(env)
	if err != nil {
		return err
	}
	typ := envType(env)
	ln.count("sent/"+typ, 1)
	x := ln.intn(100)
	if x < ln.loss {
		ln.count("lost/"+typ, 1)
		return nil
	}
	copies := 1
	if x >= 96 {
		copies = 2
		ln.count("duplicated/"+typ, 1)
	}
	for i := 0; i < copies; i++ {
		select {
		case ln.links[[2]int{from, to}] <- wire:
		default:
			ln.count("lost_link_full/"+typ, 1)
		}
	}
	return nil
}

// pump delivers one directed link in order (as a gRPC stream does) through the production Handle.
func (ln *liveNet) pump(from, to int, w *world) {
	defer ln.wg.Done()
	dest := ln.nodes[to]
	conn := dest.conns[from]
	handler := dest.p.(grpc.Protocol)
	ch := ln.links[[2]int{from, to}]
	for {
		select {
		case <-ln.stop:
			return
		case wire := <-ch:
			env := &v2.Envelope{}
			if err := proto.Unmarshal(wire, env); err != nil {
				panic(err)
			}
			ln.count("handled/"+envType(env), 1)
			_ = handler.Handle(conn, env)
			// a hostile peer answers queries for refs it announced with the tampered transactions
			if q := env.GetTransactionListQuery(); q != nil {
				var entries []*v2.Transaction
				ln.evilMu.Lock()
				for _, rb := range q.Refs {
					if e, ok := w.evil[hash.FromSlice(rb)]; ok {
						entries = append(entries, &v2.Transaction{Data: e.data, Payload: e.payload})
					}
				}
				ln.evilMu.Unlock()
				if len(entries) > 0 {
					ln.count("forged_list_answers", 1)
					ln.count("invalid_offered", len(entries))
					forged, _ := proto.Marshal(&v2.Envelope{Message: &v2.Envelope_TransactionList{TransactionList: &v2.TransactionList{
						ConversationID: q.ConversationID, Transactions: entries, TotalMessages: 1, MessageNumber: 1}}})
					select {
					case ln.links[[2]int{to, from}] <- forged:
					default:
					}
				}
			}
		}
	}
}

func runLive(su *suite, sc *scenario, emit func(liveLine)) {
	dir, err := os.MkdirTemp(su.dir, fmt.Sprintf("l%d-", sc.idx))
	if err != nil {
		su.fatalf("tmp: %v", err)
	}
	defer os.RemoveAll(dir)
	rnd := su.rand(sc.stream())
	ln := &liveNet{sc: sc, rnd: rnd, links: map[[2]int]chan []byte{}, stop: make(chan struct{}), loss: 3 + rnd.Intn(15)}
	w := sc.w
	violation := func(key, what string, wit map[string]any) {
		if wit == nil {
			wit = map[string]any{}
		}
		wit["scenario"], wit["class"], wit["nodes"], wit["topology"], wit["mode"] = sc.idx, sc.class, sc.n, sc.topo, "live"
		emit(liveLine{Kind: "violation", Key: key, What: fmt.Sprintf("[live scenario %d %s N=%d %s] %s", sc.idx, sc.class, sc.n, sc.topo, what), Witness: wit})
	}
	for i := 0; i < sc.n; i++ {
		n, err := newNode(dir, i, sc.tmpl[i], sc.init[i], liveGossipMs)
		if err != nil {
			su.fatalf("live scenario %d: %v", sc.idx, err)
		}
		ln.nodes = append(ln.nodes, n)
	}
	initial := make([]map[hash.SHA256Hash]bool, sc.n)
	for i, n := range ln.nodes {
		initial[i] = n.listing
	}
	for _, e := range sc.edges {
		for _, d := range [][2]int{{e[0], e[1]}, {e[1], e[0]}} {
			ln.links[d] = make(chan []byte, 4096)
		}
	}
	for _, e := range sc.edges {
		a, b := e[0], e[1]
		ln.nodes[a].connect(b, func(_ grpc.Protocol, env interface{}, _ bool) error { return ln.send(a, b, env) })
		ln.nodes[b].connect(a, func(_ grpc.Protocol, env interface{}, _ bool) error { return ln.send(b, a, env) })
	}
	for _, e := range sc.edges {
		ln.wg.Add(2)
		go ln.pump(e[0], e[1], w)
		go ln.pump(e[1], e[0], w)
	}
	// virtual conversation timeouts (production: 30 s of wall clock). The period must stay well above the time one response takes to be
	// produced and admitted under the race detector (seconds for a two-page range), otherwise every response would be stale on arrival.
	ln.wg.Add(1)
	go func() {
		defer ln.wg.Done()
		tk := time.NewTicker(liveTimeout)
		defer tk.Stop()
		for {
			select {
			case <-ln.stop:
				return
			case <-tk.C:
				for _, n := range ln.nodes {
					v2.VerifEvictConversations(n.p) // those that expired one period ago
					v2.VerifExpireConversations(n.p)
					ln.count("virtual_timeouts", 1)
				}
			}
		}
	}()
	// the nodes' own applications create transactions while the sync runs; a hostile peer announces tampered ones
	var wmu sync.Mutex // guards w.valid / w.order while transactions are created
	created := 0
	crnd := su.rand(sc.stream() + "-create")
	for k := 0; k < 6; k++ {
		time.Sleep(time.Duration(10+crnd.Intn(40)) * time.Millisecond)
		n := ln.nodes[crnd.Intn(sc.n)]
		head, err := n.st.Head(context.Background())
		if err != nil || head.Equals(hash.EmptyHash()) {
			continue
		}
		prev, err := n.st.GetTransaction(context.Background(), head)
		if err != nil {
			continue
		}
		payload := make([]byte, 16)
		crnd.Read(payload)
		wmu.Lock()
		g := w.child(payload, prev)
		wmu.Unlock()
		if err := n.st.Add(context.Background(), g.tx, g.payload); err != nil {
			su.fatalf("live create: %v", err)
		}
		created++
		// forged Gossip from a neighbour announcing tampered refs
		b := ln.nodes[crnd.Intn(sc.n)]
		a := b.nbrs[crnd.Intn(len(b.nbrs))]
		x, lc := b.st.XOR(dag.MaxLamportClock)
		ln.evilMu.Lock()
		wmu.Lock()
		e := w.anyEvil(crnd, 0, lc+2)
		wmu.Unlock()
		ln.evilMu.Unlock()
		if e != nil {
			forged, _ := proto.Marshal(&v2.Envelope{Message: &v2.Envelope_Gossip{Gossip: &v2.Gossip{XOR: x.Xor(e.ref).Slice(), LC: lc, Transactions: [][]byte{e.ref.Slice()}}}})
			select {
			case ln.links[[2]int{a, b.idx}] <- forged:
				ln.count("forged_gossip", 1)
			default:
			}
		}
	}
	wmu.Lock()
	var ux hash.SHA256Hash
	for ref := range w.valid {
		ux = ux.Xor(ref)
	}
	unionSize := len(w.valid)
	wmu.Unlock()

	// wait for convergence (watchdog: wall clock, inconclusive only)
	start := time.Now()
	watchdog := 100 * time.Second
	conv := false
	for time.Since(start) < watchdog {
		all := true
		for _, n := range ln.nodes {
			if x, _ := n.st.XOR(dag.MaxLamportClock); !x.Equals(ux) {
				all = false
				break
			}
		}
		if all {
			conv = true
			break
		}
		time.Sleep(40 * time.Millisecond)
	}
	elapsed := time.Since(start)
	if conv {
		time.Sleep(200 * time.Millisecond) // keep gossiping at the fixpoint for a moment: nothing may change any more
	}
	// stop: no new messages, handlers drain
	ln.stopped.Store(true)
	close(ln.stop)
	ln.wg.Wait()
	for _, n := range ln.nodes {
		n.p.Stop()
	}
	time.Sleep(400 * time.Millisecond) // handler goroutines spawned by Handle finish (their context is cancelled)

	// ---- safety verdicts
	union := dagx.NewLedger()
	for _, g := range w.order {
		union.Add(g.tx.Ref(), g.tx.Clock())
	}
	admissions := 0
	for i, n := range ln.nodes {
		seen := map[hash.SHA256Hash]bool{}
		for _, tx := range n.drain() {
			admissions++
			if _, ok := w.valid[tx.Ref()]; !ok {
				kind := "unknown-transaction"
				if e, bad := w.evil[tx.Ref()]; bad {
					kind = e.kind
				}
				violation("C07/safety/invalid-admitted/"+kind, fmt.Sprintf("node %s admitted %s which is not one of the generated valid transactions", n.name, tx.Ref()), nil)
			}
			if seen[tx.Ref()] || initial[i][tx.Ref()] {
				violation("C07/safety/admitted-twice", fmt.Sprintf("node %s was notified twice of the admission of %s", n.name, tx.Ref()), nil)
			}
			seen[tx.Ref()] = true
		}
		txs, err := n.st.FindBetweenLC(context.Background(), 0, dag.MaxLamportClock)
		if err != nil {
			su.fatalf("FindBetweenLC: %v", err)
		}
		now := map[hash.SHA256Hash]bool{}
		led := dagx.NewLedger()
		for _, tx := range txs {
			now[tx.Ref()] = true
			led.Add(tx.Ref(), tx.Clock())
			if _, ok := w.valid[tx.Ref()]; !ok {
				kind := "unknown-transaction"
				if e, bad := w.evil[tx.Ref()]; bad {
					kind = e.kind
				}
				violation("C07/safety/invalid-admitted/"+kind, fmt.Sprintf("node %s lists %s which is not one of the generated valid transactions", n.name, tx.Ref()), nil)
			}
		}
		for ref := range initial[i] {
			if !now[ref] {
				violation("C07/safety/transaction-removed", fmt.Sprintf("node %s no longer lists %s", n.name, ref), nil)
				break
			}
		}
		for ref := range seen {
			if !now[ref] {
				violation("C07/safety/transaction-removed", fmt.Sprintf("node %s no longer lists %s which it admitted during the run", n.name, ref), nil)
				break
			}
		}
		// digests must describe the set the node holds, converged or not
		if bad := dagx.Compare(n.st, led, su.rand(sc.stream()+"-compare"), true); len(bad) > 0 {
			violation("C07/end/digest-inconsistent", fmt.Sprintf("node %s: %s", n.name, strings.Join(bad, "; ")), nil)
		}
		if conv && len(now) != unionSize {
			violation("C07/end/set-differs", fmt.Sprintf("node %s reports the union's XOR but lists %d of %d transactions", n.name, len(now), unionSize), nil)
		}
	}
	if !conv {
		var miss []string
		for _, n := range ln.nodes {
			txs, _ := n.st.FindBetweenLC(context.Background(), 0, dag.MaxLamportClock)
			miss = append(miss, fmt.Sprintf("%s holds %d/%d", n.name, len(txs), unionSize))
		}
		emit(liveLine{Kind: "inconclusive", What: fmt.Sprintf("live scenario %d (%s N=%d %s, loss %d%%) did not converge within the %s watchdog: %s", sc.idx, sc.class, sc.n, sc.topo, ln.loss, watchdog, strings.Join(miss, ", "))})
	}
	for _, n := range ln.nodes {
		_ = n.st.Shutdown()
		_ = n.db.Close(context.Background())
	}
	counters := map[string]int{"scenarios": 1, "admissions_observed": admissions, "transactions_created_midrun": created}
	ln.cnt.Range(func(k, v any) bool {
		counters[k.(string)] = int(atomic.LoadInt64(v.(*int64)))
		return true
	})
	if conv {
		counters["converged"] = 1
	}
	emit(liveLine{Kind: "scenario", Counters: counters, Sample: map[string]any{"mode": "live", "scenario": sc.idx, "class": sc.class, "nodes": sc.n, "topology": sc.topo,
		"union": unionSize, "loss_percent": ln.loss, "converged": conv, "wall_ms_to_converge_not_a_verdict": elapsed.Milliseconds(),
		"fingerprint": fmt.Sprintf("%s|N=%d|%s|union=%s|diff=%s|loss=%d|conv=%v", sc.class, sc.n, sc.topo, bucket(unionSize), bucket(sc.maxDiff), ln.loss/10, conv)}})
}
