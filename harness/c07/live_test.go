package c07

import (
	"testing"

	"verif/lib/ev"
)

func liveMode(t *testing.T, r *ev.Run, su *suite) {
	r.Extra("live_mode", "not built yet")
}
