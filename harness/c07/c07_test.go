// Check C07: connected nodes converge to the union of their DAGs despite loss, duplication, delay and reordering; no invalid
// transaction is ever admitted and none is ever removed.
//
// (A) A deterministic single-threaded simulator drives N in {2,3,4} real nodes (real dag.State on bbolt with the production
// verifiers, real v2.protocol with its conversation manager and gossip manager). Nodes are connected by grpc.VerifConnections whose
// Send marshals the real protobuf envelope into the simulator's in-flight multiset; a seeded adversary delivers (in any order), drops,
// duplicates, delays, re-injects stale copies, redirects copies to other neighbours (unsolicited), ticks gossip, expires/evicts
// conversations, creates new transactions at nodes and forges protocol messages that carry tampered transactions. Handlers run
// through v2.VerifHandleSync, so every step is atomic and the trace is a function of the seed. After the fault phase a fair phase runs
// gossip rounds (every node ticks, everything in flight is delivered in a seeded order; a virtual conversation timeout passes every
// 6th round = production's 30 s : 5 s); liveness is checked as bounded progress: all nodes hold the union within R rounds.
// (B) Live mode (thorough): the same nodes through the production Handle entry point (goroutines, list handler channel) with random
// loss under the race detector; only safety can alarm there.
package c07

import (
	"fmt"
	"io"
	"math/rand"
	"os"
	"sort"
	"strings"
	"sync"
	"sync/atomic"
	"testing"
	"time"

	"github.com/nuts-foundation/nuts-node/crypto/hash"
	"github.com/nuts-foundation/nuts-node/network/dag"
	"github.com/nuts-foundation/nuts-node/network/transport/grpc"
	"github.com/sirupsen/logrus"
	"verif/lib/dagx"
	"verif/lib/ev"
)

// ---- scenarios ---------------------------------------------------------------------------------------------------------

type scenario struct {
	idx               int
	class             string
	n                 int
	topo              string
	edges             [][2]int
	diam              int
	tmpl              []*template // per node: start from a copy of this store (nil: fresh store)
	init              [][]*gtx    // per node: transactions added on top, in a valid order
	w                 *world
	faults            int // length of the fault phase in steps
	newTx             int // transactions created at nodes during the fault phase
	createAtFairStart int
	hostile           bool
	profile           string // adversary profile of the fault phase
	expectNo          bool   // XOR-colliding difference: the protocol cannot see it (known finding); reported under its own key
	maxLC             uint32
	maxDiff           int
	forkDesc          []string // deep-fork: what every node starts with
	forkLow           uint32   // deep-fork: the lowest of the branch tops
}

func (sc *scenario) stream() string { return fmt.Sprintf("scenario-%d", sc.idx) }

func (sc *scenario) pages() int { return int(sc.maxLC/dag.PageSize) + 1 }

// bound is R: the number of fair gossip rounds within which all nodes must hold the union.
// Derivation (from the handlers): per gossip round and per neighbour a node issues at most one blocking query (TransactionListQuery for
// the refs one IBLT decode yields, or a TransactionRangeQuery of at most two pages, one page when its own DAG reaches further); a
// difference that one IBLT cannot decode is walked down page by page within the round and then fetched by range: at most one round per
// page of the union plus the round that discovers the difference; transactions travel one hop per round over the diameter D; blocking
// conversations left over from the fault phase are cleared by the timeout that starts the fair phase. R = 2 + pages + 2*(D-1), + 2 margin.
// roundStepCap bounds the deliveries of one fair round (a round that does not quiesce within it is a livelock symptom); the largest
// number a round needed on the unchanged tree is reported in the evidence (max_deliveries_in_a_fair_round).
func (sc *scenario) roundStepCap() int {
	return 400 + 100*sc.n*sc.pages()
}

func (sc *scenario) bound() int {
	return 4 + sc.pages() + 2*(sc.diam-1)
}

var topologies = map[int][]struct {
	name  string
	edges [][2]int
}{
	2: {{"pair", [][2]int{{0, 1}}}},
	3: {{"line", [][2]int{{0, 1}, {1, 2}}}, {"triangle", [][2]int{{0, 1}, {1, 2}, {0, 2}}}},
	4: {{"line", [][2]int{{0, 1}, {1, 2}, {2, 3}}}, {"ring", [][2]int{{0, 1}, {1, 2}, {2, 3}, {3, 0}}},
		{"star", [][2]int{{0, 1}, {0, 2}, {0, 3}}}, {"full", [][2]int{{0, 1}, {0, 2}, {0, 3}, {1, 2}, {1, 3}, {2, 3}}}},
}

func diameter(n int, edges [][2]int) int {
	d := 0
	for s := 0; s < n; s++ {
		dist := make([]int, n)
		for i := range dist {
			dist[i] = -1
		}
		dist[s] = 0
		q := []int{s}
		for len(q) > 0 {
			u := q[0]
			q = q[1:]
			for _, e := range edges {
				v := -1
				if e[0] == u {
					v = e[1]
				} else if e[1] == u {
					v = e[0]
				}
				if v >= 0 && dist[v] < 0 {
					dist[v] = dist[u] + 1
					q = append(q, v)
					if dist[v] > d {
						d = dist[v]
					}
				}
			}
		}
	}
	return d
}

var shapes = []dagx.Shape{dagx.Chain, dagx.Fan, dagx.Diamond, dagx.Random}

type suite struct {
	r        *ev.Run // nil in the live-mode child process
	rand     func(stream string) *rand.Rand
	fatalf   func(format string, args ...any)
	dir      string
	tmpl     map[string]*template
	capOK    int // IBLT: largest difference for which every trial decoded
	capFail  int // smallest difference for which no trial decoded
	maxUnion int
	fork     *forkFamily // the sides and cases of the deep-fork class
}

func (su *suite) setTopo(sc *scenario, rnd *rand.Rand) {
	ts := topologies[sc.n]
	t := ts[rnd.Intn(len(ts))]
	sc.topo, sc.edges, sc.diam = t.name, t.edges, diameter(sc.n, t.edges)
}

// build creates scenario idx of the given class for n nodes; everything is drawn from the scenario's own seeded stream.
func (su *suite) build(idx int, class string, n int, size int, profile string) *scenario {
	sc := &scenario{idx: idx, class: class, n: n, hostile: true, profile: profile}
	rnd := su.rand(sc.stream() + "-gen")
	if profile == "" {
		sc.profile = []string{"chaotic", "chaotic", "lossy", "lossy", "quiet"}[rnd.Intn(5)]
	}
	su.setTopo(sc, rnd)
	sc.tmpl = make([]*template, n)
	sc.init = make([][]*gtx, n)
	sc.faults = 40 + rnd.Intn(60*n)
	sc.newTx = rnd.Intn(5)
	shape := func() dagx.Shape { return shapes[rnd.Intn(len(shapes))] }
	variant := size
	size = max(size, 6)
	switch class {
	case "deep-fork":
		// large disjoint branches on a common prefix ending on different pages, see fork_test.go
		su.buildFork(sc, su.fork.cases[variant], rnd)
	case "identical":
		sc.w = newWorld(int64(idx), nil)
		g := sc.w.gen(rnd, shape(), 3+rnd.Intn(size), nil)
		for i := range sc.init {
			sc.init[i] = g
		}
	case "disjoint", "private":
		sc.w = newWorld(int64(idx), nil)
		common := sc.w.gen(rnd, shape(), rnd.Intn(size/4+1), nil)
		per := size / n
		for i := range sc.init {
			cut := 1 + rnd.Intn(len(common))
			b := rnd.Intn(per + 1)
			if i == 0 && b == 0 {
				b = 1 + per/2
			}
			var branch []*gtx
			if class == "private" {
				branch = sc.w.genPrivate(rnd, b, common[:cut])
			} else if b > 0 {
				branch = sc.w.gen(rnd, shape(), b, common[:cut])
			}
			sc.init[i] = append(append([]*gtx{}, common...), branch...)
		}
	case "behind":
		sc.w = newWorld(int64(idx), nil)
		g := sc.w.gen(rnd, shape(), size/2+rnd.Intn(size/2+1), nil)
		sc.init[0] = g
		for i := 1; i < n; i++ {
			sc.init[i] = g[:1+rnd.Intn(len(g))]
		}
		sc.init[1+rnd.Intn(n-1)] = g[:1] // one node holds the root only
	case "arbitrary":
		// a union DAG of which every node holds the ancestor closure of a random sample
		sc.w = newWorld(int64(idx), nil)
		g := sc.w.gen(rnd, shape(), size/2+rnd.Intn(size/2+1), nil)
		pos := map[hash.SHA256Hash]int{}
		for i, t := range g {
			pos[t.tx.Ref()] = i
		}
		covered := make([]bool, len(g))
		for i := range sc.init {
			keep := make([]bool, len(g))
			keep[0] = true
			rate := rnd.Intn(100)
			for j := len(g) - 1; j > 0; j-- {
				if rnd.Intn(100) < rate || (i == n-1 && !covered[j]) {
					keep[j] = true
				}
				if keep[j] {
					for _, p := range g[j].tx.Previous() {
						keep[pos[p]] = true
					}
				}
			}
			for j, k := range keep {
				if k {
					sc.init[i] = append(sc.init[i], g[j])
					covered[j] = true
				}
			}
		}
	case "gossip-ahead":
		// a node with the lower clock creates transactions on its own branch when the fair phase starts: its Gossip announces refs whose
		// ancestors the neighbour lacks (TransactionListQuery for the refs -> missing prevs -> restart through State)
		sc.w = newWorld(int64(idx), nil)
		common := sc.w.gen(rnd, shape(), rnd.Intn(6), nil)
		long := sc.w.gen(rnd, dagx.Chain, 30+rnd.Intn(size), common)
		sc.init[0] = append(append([]*gtx{}, common...), long...)
		for i := 1; i < n; i++ {
			sc.init[i] = append(append([]*gtx{}, common...), sc.w.gen(rnd, shape(), 3+rnd.Intn(12), common)...)
		}
		sc.newTx = 0
	case "far-behind":
		// one node holds the long template DAG, the others the root only
		t := su.tmpl["long"]
		sc.w = newWorld(int64(idx), t.key)
		for _, g := range t.txs {
			sc.w.register(g)
		}
		sc.tmpl[0] = t
		for i := 1; i < n; i++ {
			sc.init[i] = t.txs[:1]
		}
		sc.newTx = 0
	case "iblt-overflow":
		// more difference inside the first page than one IBLT decodes: wide levels keep the clocks below 512
		sc.w = newWorld(int64(idx), nil)
		root := sc.w.gen(rnd, dagx.Chain, 0, nil)
		want := su.capFail + su.capFail/8 + rnd.Intn(su.capFail/4)
		if rnd.Intn(2) == 0 || n > 2 {
			// split over two nodes: neither side alone exceeds the capacity, the symmetric difference does
			a := sc.w.gen(rnd, dagx.Fan, want*6/10, root)
			b := sc.w.gen(rnd, dagx.Fan, want*6/10, root)
			sc.init[0] = append(append([]*gtx{}, root...), a...)
			sc.init[1] = append(append([]*gtx{}, root...), b...)
			for i := 2; i < n; i++ {
				sc.init[i] = root
			}
		} else {
			a := sc.w.gen(rnd, dagx.Fan, want, root)
			sc.init[0] = append(append([]*gtx{}, root...), a...)
			sc.init[1] = append(append([]*gtx{}, root...), sc.w.gen(rnd, shape(), rnd.Intn(20), root)...)
		}
	case "iblt-overflow-late":
		// the same inside a later page: all nodes share a prefix that crosses the first page boundary
		t := su.tmpl["p1"]
		sc.w = newWorld(int64(idx), t.key)
		for _, g := range t.txs {
			sc.w.register(g)
		}
		for i := range sc.tmpl {
			sc.tmpl[i] = t
		}
		want := su.capFail + su.capFail/8 + rnd.Intn(su.capFail/4)
		sc.init[0] = sc.w.gen(rnd, dagx.Fan, want, t.txs)
		for i := 1; i < n; i++ {
			sc.init[i] = sc.w.gen(rnd, shape(), rnd.Intn(15), t.txs[:len(t.txs)-rnd.Intn(40)])
		}
	case "multi-page":
		// every node holds the long prefix plus its own side branches hanging off transactions in different pages
		t := su.tmpl["long"]
		sc.w = newWorld(int64(idx), t.key)
		for _, g := range t.txs {
			sc.w.register(g)
		}
		for i := range sc.tmpl {
			sc.tmpl[i] = t
			branches := 1 + rnd.Intn(4)
			if i == n-1 && rnd.Intn(3) == 0 {
				branches = 0
			}
			for b := 0; b < branches; b++ {
				cut := 1 + rnd.Intn(len(t.txs))
				sc.init[i] = append(sc.init[i], sc.w.gen(rnd, shape(), 1+rnd.Intn(max(size/(4*n), 3)), t.txs[:cut])...)
			}
		}
	case "xor-collision":
		// node 0 additionally holds a set S of transactions whose refs XOR to zero: XOR(Max) is equal on both sides although the sets differ
		sc.w = newWorld(int64(idx), nil)
		root := sc.w.gen(rnd, dagx.Chain, 0, nil)
		var fan []*gtx
		var refs []hash.SHA256Hash
		for i := 0; i < 300; i++ {
			p := make([]byte, 16)
			rnd.Read(p)
			g := &gtx{tx: dagx.NewTx(sc.w.key, true, p, payloadType, sigTime, nil, root[0].tx), payload: p}
			fan = append(fan, g)
			refs = append(refs, g.tx.Ref())
		}
		sub := xorZeroSubset(refs)
		if len(sub) == 0 {
			su.fatalf("no XOR-zero subset among 300 refs")
		}
		common := append([]*gtx{}, root...)
		in := map[int]bool{}
		for _, i := range sub {
			in[i] = true
		}
		extra := 0
		for i, g := range fan {
			if !in[i] && extra < 20 {
				common = append(common, sc.w.register(g))
				extra++
			}
		}
		sc.init[0] = append([]*gtx{}, common...)
		for _, i := range sub {
			sc.init[0] = append(sc.init[0], sc.w.register(fan[i]))
		}
		for i := 1; i < n; i++ {
			sc.init[i] = common
		}
		sc.expectNo, sc.hostile, sc.newTx, sc.faults = true, false, 0, 30
	default:
		panic(class)
	}
	if sc.profile == "quiet" {
		sc.faults = 0
	}
	if class == "gossip-ahead" {
		sc.createAtFairStart = -1 // at every node but node 0, see run
	} else if !sc.expectNo && class != "far-behind" && rnd.Intn(3) == 0 {
		sc.createAtFairStart = 1 + rnd.Intn(4)
	}
	// scenario parameters for the bound and the fingerprint
	for _, g := range sc.w.order {
		if g.tx.Clock() > sc.maxLC {
			sc.maxLC = g.tx.Clock()
		}
	}
	for i := range sc.init {
		have := len(sc.init[i])
		if sc.tmpl[i] != nil {
			have += len(sc.tmpl[i].txs)
		}
		if d := len(sc.w.valid) - have; d > sc.maxDiff {
			sc.maxDiff = d
		}
	}
	return sc
}

func bucket(n int) string {
	switch {
	case n == 0:
		return "0"
	case n < 10:
		return "1-9"
	case n < 50:
		return "10-49"
	case n < 200:
		return "50-199"
	case n < 700:
		return "200-699"
	}
	return "700+"
}

// ---- running one scenario ------------------------------------------------------------------------------------------------

type result struct {
	rounds    int
	converged bool
}

func (su *suite) run(sc *scenario) {
	r := su.r
	if os.Getenv("VERIF_C07_TIMING") != "" {
		t0 := time.Now()
		defer func() {
			fmt.Fprintf(os.Stderr, "timing: scenario %d %s N=%d union=%d: %v\n", sc.idx, sc.class, sc.n, len(sc.w.valid), time.Since(t0).Round(time.Millisecond))
		}()
	}
	dir, err := os.MkdirTemp(su.dir, fmt.Sprintf("s%d-", sc.idx))
	if err != nil {
		r.Fatalf("tmp: %v", err)
	}
	defer os.RemoveAll(dir)
	s := &sim{r: r, sc: sc, w: sc.w, rnd: r.Rand(sc.stream()), ornd: r.Rand(sc.stream() + "-oracle"), stats: map[string]int{}, offered: map[hash.SHA256Hash]bool{}, phase: "setup",
		announced: map[announce]bool{}, createdAt: map[hash.SHA256Hash]int{}}
	for i := 0; i < sc.n; i++ {
		n, err := newNode(dir, i, sc.tmpl[i], sc.init[i], 24*3600*1000)
		if err != nil {
			r.Fatalf("scenario %d (%s): %v", sc.idx, sc.class, err)
		}
		n.validHeld = n.led.Len() // everything a node starts with was generated valid
		s.nodes = append(s.nodes, n)
	}
	defer func() {
		for _, n := range s.nodes {
			n.close()
		}
	}()
	for _, e := range sc.edges {
		a, b := e[0], e[1]
		s.nodes[a].connect(b, func(_ grpc.Protocol, env interface{}, _ bool) error { return s.onSend(a, b, env) })
		s.nodes[b].connect(a, func(_ grpc.Protocol, env interface{}, _ bool) error { return s.onSend(b, a, env) })
	}
	initial := 0
	distinctSets := map[string]bool{}
	for _, n := range s.nodes {
		initial += n.led.Len()
		distinctSets[n.xor.String()+fmt.Sprint(n.led.Len())] = true
	}

	// ---- fault phase
	s.phase = "fault"
	for i := 0; i < sc.faults; i++ {
		s.faultStep()
	}
	s.checkpoint()
	faultSteps := s.step
	gainedInFault := s.held_total() - initial

	// ---- fair phase
	// the fair suffix starts when the last message of the fault phase (delayed, duplicated, stale, forged ones included) has been
	// delivered and one conversation timeout has passed since: what the adversary left behind is flushed first, not counted as a round
	s.phase = "drain"
	s.releaseDue(true)
	flushed := len(s.inflight)
	for k := 0; len(s.inflight) > 0 && k < 2*sc.roundStepCap(); k++ {
		s.step++
		s.deliverAny()
	}
	s.stat("leftover_messages_flushed", flushed)
	s.timeoutAll()
	s.phase = "round"
	// gossip queues are part of the state the fair phase starts from: in some scenarios the nodes' applications create transactions now,
	// so that the first fair gossip announces refs whose ancestors the neighbour may lack
	for i := 0; i < sc.createAtFairStart; i++ {
		s.step++
		s.createTx(s.nodes[s.rnd.Intn(len(s.nodes))])
	}
	if sc.createAtFairStart < 0 {
		for _, n := range s.nodes[1:] {
			for k := 0; k < 2; k++ {
				s.step++
				s.createTx(n)
			}
		}
	}
	R := sc.bound()
	hardCap := 10 * R
	rounds, conv, capHits := 0, s.converged(), 0
	quiet := 0
	// stagnation: a run that is past R and has admitted nothing anywhere for R + one conversation timeout + 2 consecutive rounds is not
	// run on to the hard cap (it is a violation either way; rounds over thousands of transactions are expensive)
	stagnant, lastHeld, stalled := 0, -1, false
	for round := 1; round <= hardCap; round++ {
		s.tracef("---- fair round %d", round)
		if s.fairRound(round) {
			capHits++
			if capHits >= 2 {
				break // two rounds that did not quiesce: livelock, reported as no-convergence below
			}
		}
		if round%gossipPerTimeout == 0 {
			s.timeoutAll()
		}
		if h := s.held_total(); h == lastHeld {
			stagnant++
		} else {
			stagnant, lastHeld = 0, h
		}
		if !s.converged() && !sc.expectNo && round > R && stagnant >= R+gossipPerTimeout+2 {
			stalled = true
			rounds = round
			break
		}
		if s.converged() {
			if !conv {
				conv, rounds = true, round
			}
			quiet++
			if quiet >= 2 && len(s.inflight) == 0 { // two more rounds at the fixpoint: nothing may change any more
				break
			}
		} else if conv {
			conv = false // cannot happen while sets only grow and the union is fixed; kept for the record
		}
		if sc.expectNo && round >= R+4 {
			break
		}
	}
	s.phase = "end"
	s.checkpoint()

	// ---- verdicts
	union := dagx.NewLedger()
	for _, g := range sc.w.order {
		union.Add(g.tx.Ref(), g.tx.Clock())
	}
	class := sc.class
	switch {
	case !conv && sc.expectNo:
		missing := 0
		for _, n := range s.nodes {
			missing += len(sc.w.valid) - n.validHeld
		}
		s.violation("C07/no-convergence/xor-colliding-difference", fmt.Sprintf("after %d fair rounds the nodes still differ by %d transactions although XOR(Max) is equal on all of them: "+
			"the difference is a set of %d transactions whose refs XOR to zero, Gossip/State compare XORs only and report 'in sync'", R+4, missing, missing/(sc.n-1)),
			map[string]any{"missing_total": missing})
	case !conv:
		var miss []string
		for _, n := range s.nodes {
			miss = append(miss, fmt.Sprintf("%s lacks %d", n.name, len(sc.w.valid)-n.validHeld))
		}
		how := fmt.Sprintf("no convergence within %d fair gossip rounds (R=%d)", hardCap, R)
		if stalled {
			how = fmt.Sprintf("no convergence: %d fair gossip rounds (R=%d), the last %d of them (more than R plus a conversation timeout) without a single admission at any node", rounds, R, stagnant)
		}
		if capHits >= 2 {
			how = fmt.Sprintf("livelock: two fair rounds did not quiesce within %d deliveries each (R=%d)", sc.roundStepCap(), R)
		}
		s.violation("C07/no-convergence/"+class, fmt.Sprintf("%s: %s", how, strings.Join(miss, ", ")),
			map[string]any{"R": R, "hard_cap": hardCap, "round_step_cap_hits": capHits})
	case rounds > R:
		s.violation("C07/slow-convergence/"+class, fmt.Sprintf("converged after %d fair gossip rounds, bound R=%d (pages=%d diameter=%d)", rounds, R, sc.pages(), sc.diam),
			map[string]any{"R": R, "rounds": rounds})
	}
	if conv {
		ux := s.unionXor()
		for _, n := range s.nodes {
			x, _ := n.st.XOR(dag.MaxLamportClock)
			if !x.Equals(ux) {
				s.violation("C07/end/xor-differs", fmt.Sprintf("node %s holds the union but XOR(Max)=%s, union XOR=%s", n.name, x, ux), nil)
			}
			for ref := range sc.w.valid {
				if !n.listing[ref] {
					s.violation("C07/end/set-differs", fmt.Sprintf("node %s does not list %s at the end", n.name, ref), nil)
					break
				}
			}
			if len(n.listing) != len(sc.w.valid) {
				s.violation("C07/end/set-differs", fmt.Sprintf("node %s lists %d transactions, the union has %d", n.name, len(n.listing), len(sc.w.valid)), nil)
			}
			if bad := dagx.Compare(n.st, union, s.ornd, true); len(bad) > 0 {
				s.violation("C07/end/digest-inconsistent", fmt.Sprintf("node %s: %s", n.name, strings.Join(bad, "; ")), nil)
			}
			r.Count("end_state_comparisons", 1)
		}
	}
	for ref := range s.w.evil {
		for _, n := range s.nodes {
			if n.listing[ref] {
				s.violation("C07/safety/invalid-admitted/"+s.w.evil[ref].kind, fmt.Sprintf("node %s lists tampered transaction %s at the end", n.name, ref), nil)
			}
		}
	}

	// ---- evidence
	for _, ref := range s.created {
		at := s.nodes[s.createdAt[ref]]
		for _, j := range at.nbrs {
			if s.announced[announce{at.idx, j, ref}] {
				s.stat("created_transactions_announced_by_ref_to_a_neighbour", 1)
			} else {
				s.stat("created_transactions_not_announced_by_ref_to_a_neighbour", 1)
			}
		}
	}
	if s.stats["gossip_refs_reannounced_to_same_peer"] > 0 {
		r.Unspecified("a Gossip announced a ref to the same peer more than once")
	}
	for k, v := range s.stats {
		r.Count(k, v)
	}
	r.Count("steps", s.step)
	r.Count("steps_fault_phase", faultSteps)
	r.Count("scenarios/"+class+fmt.Sprintf("/N=%d", sc.n), 1)
	r.Count("transactions_in_unions", len(sc.w.valid))
	r.Count("tampered_transactions_built", len(sc.w.evil))
	r.Count("tampered_transactions_offered_distinct", len(s.offered))
	if conv {
		r.Count(fmt.Sprintf("rounds_to_converge/%02d", rounds), 1)
		r.Count("converged", 1)
	}
	if capHits > 0 {
		r.Count("scenarios_with_round_step_cap_hit", 1)
	}
	su.noteRounds(sc, rounds, conv, R, s.maxRound)
	faultKinds := []string{}
	for _, k := range []string{"dropped", "duplicated", "delayed", "stale_injected", "reordered_deliveries", "transactions_created_midrun"} {
		if s.stats[k] > 0 {
			faultKinds = append(faultKinds, k)
		}
	}
	forged := 0
	for k, v := range s.stats {
		if strings.HasPrefix(k, "injected/forged") {
			forged += v
		}
	}
	if forged > 0 {
		faultKinds = append(faultKinds, "forged")
	}
	fp := fmt.Sprintf("%s|%s|N=%d|%s|union=%s|diff=%s|pages=%d|sets=%d|faults=%s|rounds=%d|conv=%v", class, sc.profile, sc.n, sc.topo, bucket(len(sc.w.valid)), bucket(sc.maxDiff),
		sc.pages(), len(distinctSets), strings.Join(faultKinds, "+"), rounds, conv)
	r.Count("scenarios_by_profile/"+sc.profile, 1)
	nontrivial := len(distinctSets) > 1 || s.stats["transactions_created_midrun"] > 0
	r.Case(fp, nontrivial)
	sample := map[string]any{"scenario": sc.idx, "class": class, "adversary_profile": sc.profile, "nodes": sc.n, "topology": sc.topo, "union": len(sc.w.valid), "max_missing_at_a_node": sc.maxDiff,
		"pages": sc.pages(), "fault_steps": faultSteps, "admitted_during_fault_phase": gainedInFault, "fair_rounds_to_converge": rounds, "R": R, "converged": conv,
		"steps": s.step, "dropped": s.stats["dropped"], "duplicated": s.stats["duplicated"], "delayed": s.stats["delayed"], "stale": s.stats["stale_injected"],
		"forged": forged, "tampered_offered": s.stats["invalid_offered"], "trace_head": head(s.trace, 12)}
	if class == "deep-fork" {
		sample["nodes_start_with"] = sc.forkDesc
		sample["walk_down_states"] = s.stats["walkdown/state_for_lower_page"]
		sample["walk_down_states_peer_pages_ahead"] = s.stats["walkdown/state_for_lower_page/peer_pages_ahead"]
		sample["page0_range_queries_after_undecodable_set"] = s.stats["walkdown/page0_range_query"]
		sample["max_deliveries_in_a_fair_round"] = s.maxRound
		r.Count(fmt.Sprintf("deep_fork_cases/behind_page_%d/ahead_page_%d", sc.forkLow/dag.PageSize, sc.maxLC/dag.PageSize), 1)
	}
	if sc.idx%7 == 0 || class == "far-behind" || class == "iblt-overflow" || class == "deep-fork" {
		r.Sample(sample)
	}
}

func head(t []string, n int) []string {
	if len(t) > n {
		t = t[:n]
	}
	return t
}

var invalidAdmitted atomic.Int64
var roundsMu sync.Mutex
var roundsByClass = map[string][]int{}
var slack = map[string]int{}

var maxRoundSteps int

func (su *suite) noteRounds(sc *scenario, rounds int, conv bool, R int, roundSteps int) {
	roundsMu.Lock()
	defer roundsMu.Unlock()
	maxRoundSteps = max(maxRoundSteps, roundSteps)
	if conv {
		roundsByClass[sc.class] = append(roundsByClass[sc.class], rounds)
		if cur, ok := slack[sc.class]; !ok || R-rounds < cur {
			slack[sc.class] = R - rounds
		}
	}
}

// ---- the check -----------------------------------------------------------------------------------------------------------

func TestCheck(t *testing.T) {
	logrus.SetOutput(io.Discard)
	logrus.SetLevel(logrus.PanicLevel)
	r := ev.Start(t, "C07", "exploration")
	defer r.Finish()
	r.SetRule("one case = one scenario: a group of N in {2,3,4} real nodes (topology pair/line/triangle/ring/star/full) seeded with generated valid DAGs sharing one root " +
		"(classes: identical, disjoint branches, behind, far-behind [root vs >1500 transactions over 4 pages], arbitrary [ancestor closures of random samples of one union], " +
		"iblt-overflow [difference inside page 0 larger than one IBLT decodes], iblt-overflow-late [the same in page 1], multi-page [side branches in several pages of a long common prefix], " +
		"deep-fork [two or three nodes that each own a large branch (chain or wide) on a common prefix of 1..~450 transactions, the branch tops on different pages: one or two pages apart, " +
		"at the first/last clock of a page, the peer's transactions on the requester's pages below/above the observed IBLT capacity; either node index ahead; an undecodable TransactionSet must be walked down " +
		"page by page to a decodable page or the page-0 range query and up again], " +
		"private [participant lists, payload held or not], gossip-ahead [a node behind in clock announces fresh transactions of its own branch], xor-collision), a seeded fault phase (deliver in any order, drop, duplicate, delay, stale/unsolicited copies, gossip ticks, " +
		"conversation expiry/eviction, transactions created at nodes, forged Gossip/TransactionSet/TransactionList carrying tampered transactions) and a fair phase of gossip rounds. " +
		"Scenario list, DAGs, topology and every adversary choice are functions of (seed, tier, scenario index). Non-trivial: the nodes start with at least two different sets or " +
		"transactions are created during the run. Distinct by (class, N, topology, union size bucket, largest difference bucket, pages, number of distinct initial sets, kinds of faults applied, rounds needed).")
	r.Require(r.Pick(40, 300), r.Pick(30, 200))
	r.Assume("peers are VerifConnections: only marshalled protobuf envelopes cross between nodes; connection set-up, TLS and authentication are outside this check")
	r.Assume("simulator: handlers run synchronously through VerifHandleSync (same per-message handlers as protocol.handle); the goroutine fan-out of production Handle is exercised only in live mode (thorough)")
	r.Assume("virtual time: a gossip tick is gossip.VerifTick, a conversation timeout is VerifExpireConversations+VerifEvictConversations; fair phase: one timeout per " +
		fmt.Sprint(gossipPerTimeout) + " gossip rounds (production defaults 30 s / 5 s)")
	r.Assume("transaction refs depend on ECDSA signatures (randomised): a replay from the seed repeats DAG shapes, topology and adversary choices, not the hash values")
	r.Assume("payload distribution of private transactions is not part of the compared sets (C15)")

	dir, err := os.MkdirTemp("", "c07-")
	if err != nil {
		r.Fatalf("tmp: %v", err)
	}
	defer os.RemoveAll(dir)
	su := &suite{r: r, rand: r.Rand, fatalf: r.Fatalf, dir: dir, tmpl: map[string]*template{}}
	su.capOK, su.capFail = measureIbltCapacity(r.Rand("iblt-capacity"))
	r.Extra("iblt_capacity_observed", map[string]int{"buckets": dag.IbltNumBuckets, "largest_difference_always_decoded": su.capOK, "smallest_difference_never_decoded": su.capFail})
	if su.capFail <= 0 || su.capFail > 1150 {
		r.Fatalf("could not observe the IBLT capacity (%d/%d)", su.capOK, su.capFail)
	}

	if os.Getenv("VERIF_C07_LIVE") == "only" { // development aid: live mode alone
		liveMode(t, r, su)
		return
	}
	// templates: long common prefixes, built once
	tStart := time.Now()
	var tw sync.WaitGroup
	var tmu sync.Mutex
	for _, spec := range []struct {
		name  string
		shape dagx.Shape
		n     int
	}{{"long", dagx.Chain, r.Pick(1560, 2000)}, {"p1", dagx.Chain, 520}} {
		spec := spec
		tw.Add(1)
		go func() {
			defer tw.Done()
			tp, err := buildTemplate(dir, spec.name, r.Rand("template-"+spec.name), spec.shape, spec.n)
			if err != nil {
				r.Fatalf("%v", err)
			}
			tmu.Lock()
			su.tmpl[spec.name] = tp
			tmu.Unlock()
		}()
	}
	tw.Add(1)
	go func() {
		defer tw.Done()
		fam, err := su.buildForkFamily(dir, r.Thorough())
		if err != nil {
			r.Fatalf("deep-fork family: %v", err)
		}
		su.fork = fam
	}()
	tw.Wait()
	if os.Getenv("VERIF_C07_TIMING") != "" {
		fmt.Fprintf(os.Stderr, "timing: templates and deep-fork family: %v\n", time.Since(tStart).Round(time.Millisecond))
	}
	var sideDesc []string
	for _, n := range su.fork.names {
		sideDesc = append(sideDesc, su.fork.sides[n].String())
	}
	r.Extra("deep_fork_sides", sideDesc)

	// ---- the scenario list: a pure function of (seed, tier)
	plan := r.Rand("plan")
	type spec struct {
		class   string
		n       int
		size    int
		profile string // "": drawn per scenario
	}
	var specs []spec
	small := []string{"disjoint", "behind", "arbitrary", "private", "identical", "disjoint", "arbitrary", "behind"}
	nSmall := r.Pick(40, 380)
	for i := 0; i < nSmall; i++ {
		size := 20 + plan.Intn(r.Pick(280, 500))
		if r.Thorough() && i%40 == 0 {
			size = 1200 + plan.Intn(800)
		}
		specs = append(specs, spec{small[i%len(small)], 2 + plan.Intn(3), size, ""})
	}
	special := []spec{{"far-behind", 2, 0, "quiet"}, {"far-behind", 2, 0, "lossy"}, {"iblt-overflow", 2, 0, "lossy"}, {"iblt-overflow", 3, 0, "quiet"}, {"iblt-overflow-late", 2, 0, "quiet"},
		{"multi-page", 2, 120, "quiet"}, {"multi-page", 3, 200, "lossy"}, {"multi-page", 4, 300, "chaotic"}, {"multi-page", 4, 300, "quiet"}, {"multi-page", 3, 100, ""}, {"gossip-ahead", 2, 60, "quiet"}, {"gossip-ahead", 3, 60, "lossy"}, {"xor-collision", 2, 0, "chaotic"}}
	if r.Thorough() {
		for i := 0; i < 4; i++ {
			special = append(special, spec{"far-behind", 2 + i%3, 0, ""}, spec{"iblt-overflow", 2 + plan.Intn(3), 0, ""}, spec{"iblt-overflow-late", 2 + plan.Intn(3), 0, ""})
		}
		for i := 0; i < 16; i++ {
			special = append(special, spec{"multi-page", 2 + plan.Intn(3), 100 + plan.Intn(600), ""})
		}
		for i := 0; i < 6; i++ {
			special = append(special, spec{"gossip-ahead", 2 + i%3, 40 + plan.Intn(200), ""})
		}
		special = append(special, spec{"xor-collision", 3, 0, "chaotic"})
	}
	// deep-fork: every case of the family (fork_test.go); size = index of the case
	var forks []spec
	for i, c := range su.fork.cases {
		forks = append(forks, spec{"deep-fork", len(c.sides), i, c.profile})
	}
	special = append(forks, special...)
	specs = append(special, specs...) // the long ones first: better use of the worker pool

	// scenarios are independent single-threaded simulations; several run side by side
	workers := 8
	jobs := make(chan int)
	var wg sync.WaitGroup
	for wkr := 0; wkr < workers; wkr++ {
		wg.Add(1)
		go func() {
			defer wg.Done()
			for i := range jobs {
				sp := specs[i]
				su.run(su.build(i, sp.class, sp.n, sp.size, sp.profile))
			}
		}()
	}
	for i := range specs {
		jobs <- i
	}
	close(jobs)
	wg.Wait()

	// rounds-to-converge distribution
	dist := map[string]any{}
	maxRounds := 0
	for c, rs := range roundsByClass {
		sort.Ints(rs)
		dist[c] = map[string]int{"scenarios": len(rs), "min": rs[0], "median": rs[len(rs)/2], "max": rs[len(rs)-1], "least_slack_to_R": slack[c]}
		if rs[len(rs)-1] > maxRounds {
			maxRounds = rs[len(rs)-1]
		}
	}
	r.Extra("fair_rounds_to_converge_by_class", dist)
	r.Extra("fair_rounds_to_converge_max", maxRounds)
	r.Extra("max_deliveries_in_a_fair_round", maxRoundSteps)
	r.Extra("bound_R", "4 + pages(union) + 2*(diameter-1) gossip rounds; hard cap 10*R; one virtual conversation timeout per 6 rounds")
	r.Extra("invalid_transactions_admitted", invalidAdmitted.Load())

	if r.Thorough() || os.Getenv("VERIF_C07_LIVE") != "" {
		liveMode(t, r, su)
	} else {
		r.Extra("live_mode", "thorough tier only")
	}

	// the monitors must have seen what they claim to watch
	// deep-fork must have produced its situation (also true when the walk is broken: judged on what was requested, not on the outcome)
	for _, must := range []string{"walkdown/state_for_lower_page/peer_pages_ahead", "walkdown/state_for_lower_page/peer_same_page_or_behind"} {
		if r.Get(must) == 0 {
			r.Fatalf("the run never observed %q: no node had to answer an undecodable TransactionSet with a State for a lower page in that situation", must)
		}
	}
	if r.Violations() == 0 {
		for _, must := range []string{"walkdown/page0_range_query/peer_pages_ahead", "climb/range_query_for_higher_pages", "walkdown/state_requests_page/0", "walkdown/state_requests_page/1"} {
			if r.Get(must) == 0 {
				r.Fatalf("all scenarios converged but the run never observed %q: the deep-fork family does not exercise the page walk it claims", must)
			}
		}
	}
	for _, must := range []string{"handled/Gossip", "handled/State", "handled/TransactionSet", "handled/TransactionListQuery", "handled/TransactionRangeQuery", "handled/TransactionList",
		"dropped", "duplicated", "delayed_released", "stale_injected", "reordered_deliveries", "invalid_offered", "admissions_observed", "conversations_expired"} {
		if r.Get(must) == 0 {
			r.Fatalf("the run never observed %q: the simulator does not exercise what the check claims", must)
		}
	}
}
