package c07

// The "deep-fork" family: nodes that BOTH own a large branch of their own above a common prefix, with the branches ending on
// different pages (512 clock values per page). It combines the quantifier's "disjoint branches", "one side (pages) behind",
// "differences larger than one IBLT can decode" and "differences spanning many pages" in one pair/triple: the node that is behind gets a
// TransactionSet whose IBLT it cannot decode on its own highest page although the peer is one or more pages ahead, has to walk down
// page by page (State for the previous page) until an IBLT decodes or page 0 is fetched by range, and has to climb up again by range
// queries - while the peer does the same with a TransactionSet answered by a node that is behind.
//
// The branches ("sides") are generated and stored once per run (template stores) and paired in several cases: the side's signed
// transactions and its bbolt file are shared, every case starts from copies.

import (
	"context"
	"fmt"
	"math/rand"
	"os"
	"path/filepath"
	"sort"
	"sync"

	"github.com/nuts-foundation/nuts-node/network/dag"
	"verif/lib/dagx"
)

// forkSide is one node's DAG: the first k transactions of the family's common chain plus an own branch on top of the k-th.
type forkSide struct {
	name   string
	k      int        // transactions of the family prefix held (1 = root only)
	shape  dagx.Shape // shape of the own branch (chain: 1 transaction per clock value, diamond: 1.5, random: ~2-3)
	top    uint32     // highest clock value of the side
	branch int        // transactions of the own branch
	tmpl   *template
}

func (s *forkSide) String() string {
	return fmt.Sprintf("%s[prefix=%d %s->lc%d(page %d) branch=%d]", s.name, s.k, s.shape, s.top, s.top/dag.PageSize, s.branch)
}

type forkCase struct {
	sides   []string // per node: name of a side, or "root" (holds the root only), or "prefix:<k>"
	topo    string   // "" = drawn
	profile string   // "" = drawn
}

type forkFamily struct {
	key    *dagx.Key
	prefix []*gtx
	sides  map[string]*forkSide
	names  []string
	cases  []forkCase
}

type sideSpec struct {
	name  string
	k     int
	shape dagx.Shape
	top   uint32
}

// genTo extends base by a branch of the given shape on top of base's last transaction until the highest clock is exactly top.
func (w *world) genTo(rnd *rand.Rand, shape dagx.Shape, base []*gtx, top uint32) []*gtx {
	cur := append([]*gtx{}, base...)
	var added []*gtx
	hi := func() uint32 {
		var h uint32
		for _, g := range cur[len(base):] {
			h = max(h, g.tx.Clock())
		}
		return max(h, base[len(base)-1].tx.Clock())
	}
	if shape != dagx.Chain {
		chunk, step := 30, uint32(21) // diamond: 30 transactions = 10 split/joins = 20 clock values
		if shape != dagx.Diamond {
			chunk, step = 16, 17
		}
		for hi()+step < top {
			a := w.gen(rnd, shape, chunk, cur)
			cur, added = append(cur, a...), append(added, a...)
		}
	}
	// the rest as a chain on the last transaction, so that the side ends exactly at top
	last := cur[len(cur)-1].tx.Clock()
	if last >= top {
		panic(fmt.Sprintf("genTo: branch overshot lc %d (at %d)", top, last))
	}
	a := w.gen(rnd, dagx.Chain, int(top-last), cur)
	added = append(added, a...)
	cur = append(cur, a...)
	if got := added[len(added)-1].tx.Clock(); got != top || hi() != top {
		panic(fmt.Sprintf("genTo: side ends at lc %d (highest %d), wanted %d", got, hi(), top))
	}
	return added
}

// buildTemplateFrom stores the given transactions (a valid order) in a fresh store once and keeps the closed bbolt file for copying.
func buildTemplateFrom(dir, name string, key *dagx.Key, txs []*gtx) (*template, error) {
	d := filepath.Join(dir, "tmpl-"+name)
	if err := os.MkdirAll(d, 0o755); err != nil {
		return nil, err
	}
	db, err := dagx.OpenStore(d, false)
	if err != nil {
		return nil, err
	}
	st := dagx.NewState(db, dag.NewPrevTransactionsVerifier(), dag.NewTransactionSignatureVerifier(nil))
	for _, g := range txs {
		if err := st.Add(context.Background(), g.tx, g.payload); err != nil {
			return nil, fmt.Errorf("template %s: %w", name, err)
		}
	}
	_ = st.Shutdown()
	if err := db.Close(context.Background()); err != nil {
		return nil, err
	}
	return &template{name: name, file: filepath.Join(d, "dag.db"), key: key, txs: txs}, nil
}

// buildForkFamily generates the sides (in parallel: signing and storing ~1000 transactions takes seconds) and the case list.
// Sizes are placed around what matters to the page walk: the page boundaries 512/1024/1536 (first/last clock of a page), the observed
// IBLT capacity (the peer's transactions on the requester's pages just below / just above it), prefix lengths from the root alone to
// most of page 0, narrow and wide branches, one to two pages between the tops. Everything is a function of (seed, tier).
func (su *suite) buildForkFamily(dir string, thorough bool) (*forkFamily, error) {
	rnd := su.rand("fork-family")
	j := func() uint32 { return uint32(rnd.Intn(20)) }
	ps := uint32(dag.PageSize)
	// chain prefixes: the clock of prefix[i] is i. pUnder/pOver: prefix lengths for which a chain that passes the end of page 1 has
	// just fewer than the largest always-decodable / just more than the smallest never-decodable number of transactions on pages 0-1.
	pUnder := int(2*ps) - (su.capOK - 45)
	pOver := int(2*ps) - (su.capFail + 30)
	specs := []sideSpec{
		{"A1", 101, dagx.Chain, 600 + j()},       // page 1
		{"B1", 101, dagx.Chain, 3*ps + 64 + j()}, // page 3: two pages ahead of A1
		{"A2", 1, dagx.Diamond, ps + 8 + j()},    // only the root in common, wide, just beyond the first page boundary
		{"A3", 40, dagx.Chain, ps},               // first clock of page 1
		{"B3", 40, dagx.Chain, 2 * ps},           // first clock of page 2
		{"A4", pUnder, dagx.Chain, uint32(pUnder) + 150 + j()},
		{"B4", pUnder, dagx.Chain, 2*ps + 6 + j()}, // alone decodable on pages 0-1, together with A4's branch not
		{"A5", pOver, dagx.Chain, max(uint32(pOver)+170, ps+10) + j()},
		{"B5", pOver, dagx.Chain, 2*ps + 6 + j()},  // alone just more than one IBLT decodes on pages 0-1
		{"B7", pUnder, dagx.Chain, 3*ps + 4 + j()}, // page 3; against B4 (page 2): pages 2 and 1 undecodable, page 0 decodable
	}
	// quick: the cheaper pairings (a case costs about one State.Add per transaction a node lacks)
	cases := []forkCase{
		{[]string{"A1", "B1"}, "pair", "quiet"},         // behind on page 1, peer on page 3
		{[]string{"B3", "A3"}, "pair", "lossy"},         // first clock of page 2 against first clock of page 1, node 0 ahead
		{[]string{"A2", "B3"}, "pair", "chaotic"},       // only the root in common, wide branch behind
		{[]string{"A4", "B4"}, "pair", "quiet"},         // peer's part alone decodable, the symmetric difference not
		{[]string{"B4", "B7"}, "pair", "lossy"},         // behind on page 2: the walk down takes more than one step
		{[]string{"B5", "A5", "root"}, "line", "quiet"}, // peer's part alone just beyond the capacity, node 0 ahead; a third node with the root only behind A5
	}
	if thorough {
		specs = append(specs,
			sideSpec{"B6", 330, dagx.Diamond, 2*ps + 8 + j()}, // wide, page 2
			sideSpec{"C8", 600, dagx.Chain, 2*ps + 100 + j()}, // common prefix beyond page 0: the walk down ends on identical pages
			sideSpec{"C9", 600, dagx.Chain, 3*ps + 10 + j()},
			sideSpec{"C1", 40, dagx.Chain, 2*ps - 1},  // last clock of page 1 (against B3: ahead by one clock value, one page)
			sideSpec{"C2", 180, dagx.Chain, 3*ps - 1}, // last clock of page 2
			sideSpec{"C3", 180, dagx.Chain, 3 * ps},   // first clock of page 3
			sideSpec{"C4", 40, dagx.Chain, ps - 1},    // last clock of page 0: undecodable there is answered by the range query at once
			sideSpec{"C5", 300, dagx.Random, ps + 90 + j()},
			sideSpec{"C6", 20, dagx.Chain, 3*ps + 20 + j()},
			sideSpec{"C7", 444, dagx.Chain, 2*ps + 300 + j()},
		)
		cases = append(cases,
			forkCase{[]string{"B5", "A5"}, "pair", "quiet"}, forkCase{[]string{"A1", "B6"}, "pair", "lossy"}, forkCase{[]string{"C8", "C9"}, "pair", "quiet"}, forkCase{[]string{"C9", "C8", "A4"}, "", ""},
			forkCase{[]string{"B1", "A1"}, "pair", "lossy"}, forkCase{[]string{"B6", "B1"}, "pair", "chaotic"},
			forkCase{[]string{"A1", "B1", "root"}, "line", "quiet"}, forkCase{[]string{"A2", "B3", "B6"}, "triangle", ""},
			forkCase{[]string{"A3", "B3", "A5"}, "triangle", "quiet"},
			forkCase{[]string{"C1", "B3"}, "pair", "quiet"}, forkCase{[]string{"B3", "C1"}, "pair", ""},
			forkCase{[]string{"C2", "C3"}, "pair", "quiet"}, forkCase{[]string{"C4", "B3"}, "pair", "quiet"},
			forkCase{[]string{"C4", "B1"}, "pair", ""}, forkCase{[]string{"C5", "C6"}, "pair", "quiet"},
			forkCase{[]string{"C1", "C6", "prefix:30"}, "", ""}, forkCase{[]string{"C5", "C7", "A1"}, "", ""},
		)
		// seeded pairings of everything with everything (tops on different pages), both orders
		var names []string
		for _, s := range specs {
			names = append(names, s.name)
		}
		top := map[string]uint32{}
		for _, s := range specs {
			top[s.name] = s.top
		}
		for n := 0; n < 14; {
			a, b := names[rnd.Intn(len(names))], names[rnd.Intn(len(names))]
			if a == b || top[a]/ps == top[b]/ps {
				continue
			}
			c := forkCase{[]string{a, b}, "", ""}
			if n%5 == 4 {
				c.sides = append(c.sides, []string{"root", "prefix:60", names[rnd.Intn(len(names))]}[rnd.Intn(3)])
				if c.sides[2] == a || c.sides[2] == b {
					c.sides[2] = "root"
				}
			}
			cases = append(cases, c)
			n++
		}
	}

	fam := &forkFamily{key: dagx.NewKey(""), sides: map[string]*forkSide{}, cases: cases}
	plen := 0
	for _, s := range specs {
		plen = max(plen, s.k)
	}
	pw := newWorld(7700, fam.key)
	fam.prefix = pw.gen(su.rand("fork-prefix"), dagx.Chain, plen-1, nil)
	if len(fam.prefix) != plen {
		return nil, fmt.Errorf("fork prefix has %d transactions, wanted %d", len(fam.prefix), plen)
	}
	var wg sync.WaitGroup
	var mu sync.Mutex
	var firstErr error
	for i, sp := range specs {
		i, sp, srnd := i, sp, su.rand("fork-side-"+sp.name)
		wg.Add(1)
		go func() {
			defer wg.Done()
			w := newWorld(int64(7701+i), fam.key)
			base := fam.prefix[:sp.k]
			branch := w.genTo(srnd, sp.shape, base, sp.top)
			all := append(append([]*gtx{}, base...), branch...)
			tp, err := buildTemplateFrom(dir, "fork-"+sp.name, fam.key, all)
			mu.Lock()
			defer mu.Unlock()
			if err != nil && firstErr == nil {
				firstErr = err
			}
			fam.sides[sp.name] = &forkSide{name: sp.name, k: sp.k, shape: sp.shape, top: sp.top, branch: len(branch), tmpl: tp}
		}()
	}
	wg.Wait()
	if firstErr != nil {
		return nil, firstErr
	}
	for n := range fam.sides {
		fam.names = append(fam.names, n)
	}
	sort.Strings(fam.names)
	return fam, nil
}

// buildFork fills scenario sc from case c of the family.
func (su *suite) buildFork(sc *scenario, c forkCase, rnd *rand.Rand) {
	fam := su.fork
	sc.n = len(c.sides)
	sc.tmpl = make([]*template, sc.n)
	sc.init = make([][]*gtx, sc.n)
	sc.w = newWorld(int64(sc.idx), fam.key)
	var desc []string
	for i, name := range c.sides {
		var k int
		switch {
		case name == "root":
			sc.init[i] = fam.prefix[:1]
			desc = append(desc, "root")
		case len(name) > 7 && name[:7] == "prefix:":
			fmt.Sscanf(name[7:], "%d", &k)
			sc.init[i] = fam.prefix[:k]
			desc = append(desc, name)
		default:
			s := fam.sides[name]
			if s == nil {
				su.fatalf("deep-fork: no side %q", name)
			}
			sc.tmpl[i] = s.tmpl
			desc = append(desc, s.String())
		}
	}
	// the union in a topological order: the common chain first, then the branches
	for _, g := range fam.prefix {
		for i := range c.sides {
			held := len(sc.init[i])
			if sc.tmpl[i] != nil {
				held = fam.sides[c.sides[i]].k
			}
			if int(g.tx.Clock()) < held {
				sc.w.register(g)
				break
			}
		}
	}
	for i := range c.sides {
		if sc.tmpl[i] != nil {
			for _, g := range sc.tmpl[i].txs {
				sc.w.register(g)
			}
		}
	}
	if c.profile != "" {
		sc.profile = c.profile
	}
	sc.topo = ""
	for _, t := range topologies[sc.n] {
		if t.name == c.topo {
			sc.topo, sc.edges, sc.diam = t.name, t.edges, diameter(sc.n, t.edges)
		}
	}
	if sc.topo == "" {
		su.setTopo(sc, rnd)
	}
	sc.forkDesc = desc
	sc.forkLow = dag.MaxLamportClock
	for i := range c.sides {
		if sc.tmpl[i] != nil {
			sc.forkLow = min(sc.forkLow, fam.sides[c.sides[i]].top)
		}
	}
}
