package c07

// Generation of groups of valid DAGs that share one root, of tampered transactions, and of the template stores
// (long common prefixes that are built once and copied as a bbolt file instead of being re-added per node).

import (
	"context"
	crand "crypto/rand"
	"encoding/base64"
	"fmt"
	"io"
	"math/rand"
	"os"
	"path/filepath"
	"strings"
	"time"

	"github.com/lestrrat-go/jwx/v2/jwa"
	"github.com/nuts-foundation/nuts-node/crypto/hash"
	"github.com/nuts-foundation/nuts-node/network/dag"
	"github.com/nuts-foundation/nuts-node/network/dag/tree"
	"verif/lib/dagx"
)

const payloadType = "application/x-verif"

var sigTime = time.Unix(1700000000, 0)

// gtx is a generated valid transaction with the payload its creator holds (nil: private transaction whose payload the node does not have).
type gtx struct {
	tx      dag.Transaction
	payload []byte
	pal     bool
}

type evilTx struct {
	kind    string
	data    []byte
	payload []byte
	ref     hash.SHA256Hash
	clock   uint32
}

// world is the generator's knowledge of one scenario: every valid transaction it built and every tampered one.
type world struct {
	key   *dagx.Key
	seed  int64
	gens  int
	valid map[hash.SHA256Hash]*gtx
	order []*gtx // generation order (a topological order of the union)
	evil  map[hash.SHA256Hash]*evilTx
}

func newWorld(seed int64, key *dagx.Key) *world {
	if key == nil {
		key = dagx.NewKey("")
	}
	return &world{key: key, seed: seed, valid: map[hash.SHA256Hash]*gtx{}, evil: map[hash.SHA256Hash]*evilTx{}}
}

func (w *world) register(g *gtx) *gtx {
	if _, ok := w.valid[g.tx.Ref()]; !ok {
		w.valid[g.tx.Ref()] = g
		w.order = append(w.order, g)
	}
	return g
}

func txsOf(gs []*gtx) []dag.Transaction {
	out := make([]dag.Transaction, len(gs))
	for i, g := range gs {
		out[i] = g.tx
	}
	return out
}

// gen extends base by n transactions of the given dagx shape and returns the new ones (with the root when base is empty).
func (w *world) gen(rnd *rand.Rand, shape dagx.Shape, n int, base []*gtx) []*gtx {
	w.gens++
	seed := w.seed<<12 | int64(w.gens)
	out := dagx.Gen(rnd, w.key, seed, shape, n, txsOf(base))
	var added []*gtx
	for i := len(base); i < len(out); i++ {
		added = append(added, w.register(&gtx{tx: out[i], payload: dagx.Payload(seed, i)}))
	}
	return added
}

// genPrivate extends base by n transactions each referencing 1-2 recent ones; about half carry a participant list (opaque bytes:
// the nodes have no node DID), about half of those are held without payload.
func (w *world) genPrivate(rnd *rand.Rand, n int, base []*gtx) []*gtx {
	w.gens++
	seed := w.seed<<12 | int64(w.gens)
	cur := append([]*gtx{}, base...)
	var added []*gtx
	for i := 0; i < n; i++ {
		prevs := []dag.Transaction{cur[len(cur)-1-rnd.Intn(min(len(cur), 4))].tx}
		if len(cur) > 2 && rnd.Intn(3) == 0 {
			o := cur[len(cur)-1-rnd.Intn(min(len(cur), 5))].tx
			if !o.Ref().Equals(prevs[0].Ref()) {
				prevs = append(prevs, o)
			}
		}
		payload := dagx.Payload(seed, len(cur))
		g := &gtx{payload: payload}
		var pal [][]byte
		if rnd.Intn(2) == 0 {
			entry := make([]byte, 97)
			rnd.Read(entry)
			pal = [][]byte{entry}
			g.pal = true
		}
		g.tx = dagx.NewTx(w.key, true, payload, payloadType, sigTime.Add(time.Duration(len(cur))*time.Second), pal, prevs...)
		if g.pal && rnd.Intn(2) == 0 {
			g.payload = nil // the creator does not hold the payload either
		}
		w.register(g)
		cur = append(cur, g)
		added = append(added, g)
	}
	return added
}

// child creates one new valid public transaction on the given prevs.
func (w *world) child(payload []byte, prevs ...dag.Transaction) *gtx {
	return w.register(&gtx{tx: dagx.NewTx(w.key, true, payload, payloadType, sigTime, nil, prevs...), payload: payload})
}

// ---- tampered transactions -------------------------------------------------------------------------------------------

var evilKinds = []string{"bad-signature", "missing-prev", "lc-too-high", "lc-too-low", "second-root"}

func (w *world) signRaw(prevs []hash.SHA256Hash, lc uint32, payload []byte) []byte {
	h := dagx.Headers(payloadType, prevs, lc, sigTime, nil)
	h["jwk"] = w.key.Pub
	data, err := dagx.SignRaw(h, []byte(hash.SHA256Sum(payload).String()), jwa.ES256, w.key.Priv)
	if err != nil {
		panic(err)
	}
	return data
}

// mkEvil builds a tampered transaction of the given kind whose clock header lies in [lo, hi) when that is possible for the kind.
// All of them parse (so they reach the admission checks); none may ever be admitted.
func (w *world) mkEvil(rnd *rand.Rand, kind string, lo, hi uint32) *evilTx {
	if hi <= lo {
		hi = lo + 1
	}
	payload := make([]byte, 16)
	rnd.Read(payload)
	var data []byte
	var lc uint32
	pickValid := func(from, to uint32) *gtx { // a valid transaction with clock in [from,to)
		var cands []*gtx
		for _, g := range w.order {
			if g.tx.Clock() >= from && g.tx.Clock() < to {
				cands = append(cands, g)
			}
		}
		if len(cands) == 0 {
			return nil
		}
		return cands[rnd.Intn(len(cands))]
	}
	switch kind {
	case "bad-signature":
		g := pickValid(lo, hi)
		if g == nil || g.payload == nil {
			return nil
		}
		parts := strings.Split(string(g.tx.Data()), ".")
		sig := make([]byte, 64)
		rnd.Read(sig)
		parts[2] = base64.RawURLEncoding.EncodeToString(sig)
		data, payload, lc = []byte(strings.Join(parts, ".")), g.payload, g.tx.Clock()
	case "missing-prev":
		lc = lo + uint32(rnd.Intn(int(hi-lo)))
		if lc == 0 {
			lc = 1
		}
		var p hash.SHA256Hash
		rnd.Read(p[:])
		data = w.signRaw([]hash.SHA256Hash{p}, lc, payload)
	case "lc-too-high", "lc-too-low":
		var g *gtx
		if kind == "lc-too-high" {
			if hi < 3 {
				return nil
			}
			g = pickValid(max(lo, 2)-2, hi-2)
			if g != nil {
				lc = g.tx.Clock() + 2
			}
		} else {
			g = pickValid(lo, hi)
			if g != nil {
				lc = g.tx.Clock()
			}
		}
		if g == nil {
			return nil
		}
		data = w.signRaw([]hash.SHA256Hash{g.tx.Ref()}, lc, payload)
	case "second-root":
		if lo != 0 {
			return nil
		}
		data = w.signRaw(nil, 0, payload)
	default:
		panic(kind)
	}
	tx, err := dag.ParseTransaction(data)
	if err != nil {
		panic(fmt.Sprintf("tampered transaction (%s) does not parse, it would not reach the admission checks: %v", kind, err))
	}
	if _, clash := w.valid[tx.Ref()]; clash {
		return nil
	}
	e := &evilTx{kind: kind, data: data, payload: payload, ref: tx.Ref(), clock: lc}
	w.evil[e.ref] = e
	return e
}

func (w *world) anyEvil(rnd *rand.Rand, lo, hi uint32) *evilTx {
	for _, i := range rnd.Perm(len(evilKinds)) {
		if e := w.mkEvil(rnd, evilKinds[i], lo, hi); e != nil {
			return e
		}
	}
	return nil
}

// ---- XOR-colliding difference ----------------------------------------------------------------------------------------

// xorZeroSubset returns the indices of a non-empty subset of refs whose XOR is zero (Gaussian elimination over GF(2));
// it exists whenever len(refs) > 256.
func xorZeroSubset(refs []hash.SHA256Hash) []int {
	words := (len(refs) + 63) / 64
	type row struct {
		v     [32]byte
		combo []uint64
	}
	basis := map[int]*row{} // leading bit -> row
	lead := func(v [32]byte) int {
		for i := 0; i < 32; i++ {
			if v[i] != 0 {
				for b := 7; b >= 0; b-- {
					if v[i]&(1<<uint(b)) != 0 {
						return i*8 + (7 - b)
					}
				}
			}
		}
		return -1
	}
	for idx, ref := range refs {
		cur := row{v: ref, combo: make([]uint64, words)}
		cur.combo[idx/64] |= 1 << uint(idx%64)
		for {
			l := lead(cur.v)
			if l < 0 {
				var out []int
				for i := range refs {
					if cur.combo[i/64]&(1<<uint(i%64)) != 0 {
						out = append(out, i)
					}
				}
				return out
			}
			b, ok := basis[l]
			if !ok {
				c := cur
				basis[l] = &c
				break
			}
			for i := range cur.v {
				cur.v[i] ^= b.v[i]
			}
			for i := range cur.combo {
				cur.combo[i] ^= b.combo[i]
			}
		}
	}
	return nil
}

// ---- IBLT capacity (observed on the real implementation) -------------------------------------------------------------

// measureIbltCapacity returns the largest difference size for which every trial decoded and the smallest one for which none did.
func measureIbltCapacity(rnd *rand.Rand) (allDecode, noneDecode int) {
	noneDecode = -1
	for n := 300; n <= 1200; n += 25 {
		ok := 0
		const trials = 4
		for t := 0; t < trials; t++ {
			ib := tree.NewIblt(dag.IbltNumBuckets)
			for i := 0; i < n; i++ {
				var h hash.SHA256Hash
				rnd.Read(h[:])
				ib.Insert(h)
			}
			if _, _, err := ib.Decode(); err == nil {
				ok++
			}
		}
		if ok == trials && noneDecode < 0 {
			allDecode = n
		}
		if ok == 0 && noneDecode < 0 {
			noneDecode = n
		}
	}
	return
}

// ---- template stores -------------------------------------------------------------------------------------------------

type template struct {
	name string
	file string
	key  *dagx.Key
	txs  []*gtx
}

// buildTemplate adds a generated DAG to a fresh store once and keeps the closed bbolt file for copying.
func buildTemplate(dir, name string, rnd *rand.Rand, shape dagx.Shape, n int) (*template, error) {
	w := newWorld(int64(9000+len(name)), nil)
	txs := w.gen(rnd, shape, n, nil)
	d := filepath.Join(dir, "tmpl-"+name)
	if err := os.MkdirAll(d, 0o755); err != nil {
		return nil, err
	}
	db, err := dagx.OpenStore(d, false)
	if err != nil {
		return nil, err
	}
	st := dagx.NewState(db, dag.NewPrevTransactionsVerifier(), dag.NewTransactionSignatureVerifier(nil))
	for _, g := range txs {
		if err := st.Add(context.Background(), g.tx, g.payload); err != nil {
			return nil, fmt.Errorf("template %s: %w", name, err)
		}
	}
	_ = st.Shutdown()
	if err := db.Close(context.Background()); err != nil {
		return nil, err
	}
	return &template{name: name, file: filepath.Join(d, "dag.db"), key: w.key, txs: txs}, nil
}

func copyFile(src, dst string) error {
	in, err := os.Open(src)
	if err != nil {
		return err
	}
	defer in.Close()
	out, err := os.Create(dst)
	if err != nil {
		return err
	}
	if _, err := io.Copy(out, in); err != nil {
		out.Close()
		return err
	}
	return out.Close()
}

func unusedRandomHash() hash.SHA256Hash {
	var h hash.SHA256Hash
	_, _ = crand.Read(h[:])
	return h
}
