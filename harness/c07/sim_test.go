package c07

// The deterministic single-threaded simulator: real dag.State + real v2.protocol per node, VerifConnections whose Send
// marshals the envelope into the simulator's in-flight multiset, a seeded adversary, and the safety oracle that runs after
// every step.

import (
	"context"
	"fmt"
	"math/rand"
	"os"
	"path/filepath"
	"runtime/debug"
	"sort"
	"strings"
	"sync"
	"time"

	"github.com/nuts-foundation/go-did/did"
	"github.com/nuts-foundation/go-stoabs"
	"github.com/nuts-foundation/nuts-node/crypto/hash"
	"github.com/nuts-foundation/nuts-node/network/dag"
	"github.com/nuts-foundation/nuts-node/network/transport"
	"github.com/nuts-foundation/nuts-node/network/transport/grpc"
	v2 "github.com/nuts-foundation/nuts-node/network/transport/v2"
	"github.com/nuts-foundation/nuts-node/network/transport/v2/gossip"
	"google.golang.org/protobuf/proto"
	"verif/lib/dagx"
	"verif/lib/ev"
)

// gossipPerTimeout is the production ratio conversation timeout (30 s) : gossip interval (5 s): in the fair phase a virtual
// conversation timeout passes after every gossipPerTimeout-th gossip round.
const gossipPerTimeout = 6

// ---- nodes -----------------------------------------------------------------------------------------------------------

type simNode struct {
	idx   int
	name  string
	dir   string
	db    stoabs.KVStore
	st    dag.State
	p     transport.Protocol
	list  *grpc.VerifConnectionList
	conns map[int]*grpc.VerifConnection // this node's connection to neighbour j
	nbrs  []int

	mu       sync.Mutex
	admitted []dag.Transaction // observed through a dag.Notifier since the last drain

	led       *dagx.Ledger    // what the monitor knows the node holds
	xor       hash.SHA256Hash // running XOR over led
	listing   map[hash.SHA256Hash]bool
	validHeld int // how many of the generated valid transactions the node holds
}

func peerOf(i int) transport.Peer {
	return transport.Peer{ID: transport.PeerID(fmt.Sprintf("c07-n%d", i)), Address: fmt.Sprintf("10.7.0.%d:5555", i+1)}
}

// newNode opens a store (optionally a copy of a template file), seeds it and starts a real v2 protocol on it.
func newNode(baseDir string, idx int, tmpl *template, seedTxs []*gtx, gossipMs int) (*simNode, error) {
	dir := filepath.Join(baseDir, fmt.Sprintf("n%d", idx))
	if err := os.MkdirAll(dir, 0o755); err != nil {
		return nil, err
	}
	n := &simNode{idx: idx, name: fmt.Sprintf("n%d", idx), dir: dir, conns: map[int]*grpc.VerifConnection{}, led: dagx.NewLedger(),
		list: grpc.NewVerifConnectionList(), listing: map[hash.SHA256Hash]bool{}}
	if tmpl != nil {
		if err := copyFile(tmpl.file, filepath.Join(dir, "dag.db")); err != nil {
			return nil, err
		}
	}
	db, err := dagx.OpenStore(dir, false)
	if err != nil {
		return nil, err
	}
	n.db = db
	n.st = dagx.NewState(db, dag.NewPrevTransactionsVerifier(), dag.NewTransactionSignatureVerifier(nil))
	for _, g := range seedTxs {
		if err := n.st.Add(context.Background(), g.tx, g.payload); err != nil {
			return nil, fmt.Errorf("seeding %s: %w", n.name, err)
		}
	}
	// the monitor's view starts from what the store lists
	txs, err := n.st.FindBetweenLC(context.Background(), 0, dag.MaxLamportClock)
	if err != nil {
		return nil, err
	}
	for _, tx := range txs {
		n.led.Add(tx.Ref(), tx.Clock())
		n.xor = n.xor.Xor(tx.Ref())
		n.listing[tx.Ref()] = true
	}
	// observation point: every admission, through the subscriber API the node's own engines use
	if _, err := n.st.Notifier("c07-observer", func(e dag.Event) (bool, error) {
		n.mu.Lock()
		n.admitted = append(n.admitted, e.Transaction)
		n.mu.Unlock()
		return true, nil
	}, dag.WithSelectionFilter(func(e dag.Event) bool { return e.Type == dag.TransactionEventType })); err != nil {
		return nil, err
	}
	cfg := v2.Config{Datadir: dir, PayloadRetryDelay: time.Hour, GossipInterval: gossipMs, DiagnosticsInterval: 0}
	n.p = v2.New(cfg, did.DID{}, n.st, nil, nil, func() transport.Diagnostics { return transport.Diagnostics{} }, db)
	v2.VerifAttach(n.p, n.list)
	if err := n.p.Configure(transport.PeerID("c07-" + n.name)); err != nil {
		return nil, err
	}
	if err := n.p.Start(); err != nil {
		return nil, err
	}
	return n, nil
}

func (n *simNode) connect(j int, send grpc.VerifSendFunc) {
	c := grpc.NewVerifConnection(peerOf(j), send)
	n.conns[j] = c
	n.nbrs = append(n.nbrs, j)
	n.list.Add(c)
	v2.VerifPeerConnected(n.p, peerOf(j))
}

func (n *simNode) close() {
	n.p.Stop()
	_ = n.st.Shutdown()
	_ = n.db.Close(context.Background())
}

func (n *simNode) drain() []dag.Transaction {
	n.mu.Lock()
	defer n.mu.Unlock()
	out := n.admitted
	n.admitted = nil
	return out
}

// ---- messages ----------------------------------------------------------------------------------------------------------

type wmsg struct {
	seq      int
	from, to int
	typ      string
	wire     []byte
	origin   string // node | dup | stale | unsolicited | forged/<what>
	release  int
}

func envType(e *v2.Envelope) string {
	return strings.TrimPrefix(fmt.Sprintf("%T", e.Message), "*v2.Envelope_")
}

// ---- simulator ---------------------------------------------------------------------------------------------------------

type announce struct {
	from, to int
	ref      hash.SHA256Hash
}

type sim struct {
	r     *ev.Run
	sc    *scenario
	w     *world
	rnd   *rand.Rand // adversary
	ornd  *rand.Rand // oracle sampling (separate stream: observing never changes the schedule)
	nodes []*simNode

	inflight  []*wmsg
	held      []*wmsg
	history   []*wmsg
	seq       int
	step      int
	phase     string
	trace     []string
	stats     map[string]int
	newTxs    int
	offered   map[hash.SHA256Hash]bool // tampered transactions that were delivered to a node inside a TransactionList
	violated  bool
	traceCut  int
	announced map[announce]bool
	created   []hash.SHA256Hash
	createdAt map[hash.SHA256Hash]int
	maxRound  int // most steps any fair round needed
}

func (s *sim) stat(k string, d int) { s.stats[k] += d }

func (s *sim) tracef(format string, args ...any) {
	if len(s.trace) > 6000 { // keep the head and the recent part
		s.traceCut += 2000
		s.trace = append(s.trace[:1000:1000], s.trace[3000:]...)
	}
	s.trace = append(s.trace, fmt.Sprintf("%s%d ", s.phase[:1], s.step)+fmt.Sprintf(format, args...))
}

func (s *sim) witness(extra map[string]any) map[string]any {
	tail := s.trace
	if len(tail) > 400 {
		tail = tail[len(tail)-400:]
	}
	nodes := []map[string]any{}
	for _, n := range s.nodes {
		x, lc := n.st.XOR(dag.MaxLamportClock)
		nodes = append(nodes, map[string]any{"node": n.name, "transactions": n.led.Len(), "xor": x.String(), "lc": lc, "neighbours": n.nbrs})
	}
	wit := map[string]any{"scenario": s.sc.idx, "class": s.sc.class, "nodes": s.sc.n, "topology": s.sc.topo, "rand_stream": s.sc.stream(),
		"union": len(s.w.valid), "steps": s.step, "phase": s.phase, "trace_tail": tail, "trace_len": len(s.trace) + s.traceCut, "node_state": nodes, "stats": s.stats,
		"replay": "the scenario (DAGs, topology, adversary choices) is a pure function of (VERIF_SEED, tier, scenario index); trace lines: <phase><step> <action> #<msg> <type> <from>><to>"}
	for k, v := range extra {
		wit[k] = v
	}
	return wit
}

func (s *sim) violation(key, what string, extra map[string]any) {
	s.violated = true
	if strings.HasPrefix(key, "C07/safety/invalid-admitted") {
		invalidAdmitted.Add(1)
	}
	s.r.Violation(key, fmt.Sprintf("[scenario %d %s N=%d %s] %s", s.sc.idx, s.sc.class, s.sc.n, s.sc.topo, what), s.witness(extra))
}

func (s *sim) onSend(from, to int, envelope interface{}) error {
	env, ok := envelope.(*v2.Envelope)
	if !ok {
		s.r.Fatalf("Send called with %T", envelope)
	}
	wire, err := proto.Marshal(env)
	if err != nil {
		s.r.Fatalf("marshal: %v", err)
	}
	s.seq++
	m := &wmsg{seq: s.seq, from: from, to: to, typ: envType(env), wire: wire, origin: "node"}
	s.inflight = append(s.inflight, m)
	s.stat("sent/"+m.typ, 1)
	if g := env.GetGossip(); g != nil {
		// observation only (the property does not speak about the gossip queue): which refs are announced to whom, and how often
		for _, rb := range g.Transactions {
			k := announce{from, to, hash.FromSlice(rb)}
			if s.announced[k] {
				s.stat("gossip_refs_reannounced_to_same_peer", 1)
			} else {
				s.announced[k] = true
				s.stat("gossip_refs_announced", 1)
			}
		}
	}
	s.stat("bytes_on_wire", len(wire))
	return nil
}

func (s *sim) inject(from, to int, env *v2.Envelope, origin string) *wmsg {
	wire, err := proto.Marshal(env)
	if err != nil {
		s.r.Fatalf("marshal: %v", err)
	}
	s.seq++
	m := &wmsg{seq: s.seq, from: from, to: to, typ: envType(env), wire: wire, origin: origin}
	s.inflight = append(s.inflight, m)
	s.stat("injected/"+origin, 1)
	return m
}

func (s *sim) take(i int) *wmsg {
	m := s.inflight[i]
	s.inflight = append(s.inflight[:i:i], s.inflight[i+1:]...)
	return m
}

func decode(m *wmsg) *v2.Envelope {
	env := &v2.Envelope{}
	if err := proto.Unmarshal(m.wire, env); err != nil {
		panic(fmt.Sprintf("wire bytes of message %d do not unmarshal: %v", m.seq, err))
	}
	return env
}

// deliver hands the wire bytes to the destination's production handler (synchronously) and runs the safety oracle.
func (s *sim) deliver(m *wmsg, how string) {
	env := decode(m)
	n := s.nodes[m.to]
	conn := n.conns[m.from]
	if conn == nil {
		s.r.Fatalf("no connection %d>%d", m.from, m.to)
	}
	tag := ""
	if m.origin != "node" {
		tag = " (" + m.origin + ")"
	}
	s.tracef("%s #%d %s %d>%d%s", how, m.seq, m.typ, m.from, m.to, tag)
	if tl := env.GetTransactionList(); tl != nil {
		for _, e := range tl.Transactions {
			ref := hash.SHA256Sum(e.Data)
			if ev, bad := s.w.evil[ref]; bad {
				if !s.offered[ref] {
					s.offered[ref] = true
					s.stat("invalid_offered_distinct/"+ev.kind, 1)
				}
				s.stat("invalid_offered", 1)
			}
		}
	}
	sentBefore := len(s.inflight)
	var herr error
	func() {
		defer func() {
			if rec := recover(); rec != nil {
				fn := panicFunction(string(debug.Stack()))
				s.violation("C07/panic/"+fn, fmt.Sprintf("panic while node %s handled %s: %v", n.name, m.typ, rec), map[string]any{"message_type": m.typ, "origin": m.origin})
			}
		}()
		herr = v2.VerifHandleSync(n.p, conn, env)
	}()
	s.stat("handled/"+m.typ, 1)
	if ts := env.GetTransactionSet(); ts != nil && herr == nil {
		s.observeSetAnswer(ts, s.inflight[sentBefore:])
	}
	if m.origin != "node" {
		s.stat("handled_"+strings.SplitN(m.origin, "/", 2)[0]+"/"+m.typ, 1)
	}
	if herr != nil {
		s.stat("handler_refusals/"+m.typ+"/"+shortErr(herr), 1)
		s.trace[len(s.trace)-1] += " -> " + shortErr(herr)
	}
	s.remember(m)
	s.check()
}

// observeSetAnswer records what a node sent after it accepted a TransactionSet (observation for the evidence; the verdict on the page walk
// is the convergence oracle): a State is the request for a lower page after an IBLT that did not decode, a range query from clock 0 is
// the end of that walk, a range query further up is the climb to the peer's pages.
func (s *sim) observeSetAnswer(ts *v2.TransactionSet, sent []*wmsg) {
	ahead := ts.LC/dag.PageSize > min(ts.LC, ts.LCReq)/dag.PageSize
	for _, o := range sent {
		switch o.typ {
		case "State":
			s.stat("walkdown/state_for_lower_page", 1)
			if ahead {
				s.stat("walkdown/state_for_lower_page/peer_pages_ahead", 1)
			} else {
				s.stat("walkdown/state_for_lower_page/peer_same_page_or_behind", 1)
			}
			if st := decode(o).GetState(); st != nil {
				s.stat(fmt.Sprintf("walkdown/state_requests_page/%d", st.LC/dag.PageSize), 1)
			}
		case "TransactionRangeQuery":
			if q := decode(o).GetTransactionRangeQuery(); q != nil && q.Start == 0 {
				s.stat("walkdown/page0_range_query", 1)
				if ahead {
					s.stat("walkdown/page0_range_query/peer_pages_ahead", 1)
				}
			} else if q != nil {
				s.stat("climb/range_query_for_higher_pages", 1)
			}
		}
	}
}

// remember keeps a delivered or dropped message for later stale/unsolicited re-injection (fault phase only; large lists are not kept).
func (s *sim) remember(m *wmsg) {
	if s.phase != "fault" || len(m.wire) > 128<<10 {
		return
	}
	s.history = append(s.history, m)
	if len(s.history) > 400 {
		s.history = s.history[len(s.history)-300:]
	}
}

func shortErr(err error) string {
	e := err.Error()
	// keep the class of the refusal, not the identifiers
	for _, cut := range []string{" (", ": "} {
		if i := strings.Index(e, cut); i > 0 {
			e = e[:i]
		}
	}
	if len(e) > 60 {
		e = e[:60]
	}
	return e
}

func panicFunction(stack string) string {
	for _, ln := range strings.Split(stack, "\n") {
		ln = strings.TrimSpace(ln)
		if strings.HasPrefix(ln, "github.com/nuts-foundation/nuts-node/") && !strings.Contains(ln, "VerifHandleSync") {
			fn := strings.TrimPrefix(ln, "github.com/nuts-foundation/nuts-node/")
			if i := strings.LastIndex(fn, "("); i > 0 {
				fn = fn[:i]
			}
			if i := strings.LastIndex(fn, "."); i > 0 {
				fn = fn[i+1:]
			}
			return fn
		}
	}
	return "unknown"
}

func (s *sim) tick(i int, peers []int) {
	n := s.nodes[i]
	var ps []transport.Peer
	for _, j := range peers {
		ps = append(ps, peerOf(j))
	}
	s.tracef("tick %d>%v", i, peers)
	k := gossip.VerifTick(v2.VerifGossipManager(n.p), ps...)
	s.stat("gossip_ticks", k)
	s.check()
}

func (s *sim) timeout(i int, evict bool) {
	n := s.nodes[i]
	k := v2.VerifExpireConversations(n.p)
	s.stat("conversations_expired", k)
	if evict {
		v2.VerifEvictConversations(n.p)
	}
	s.tracef("timeout %d evict=%v open=%d", i, evict, k)
}

// ---- safety oracle (after every step) -------------------------------------------------------------------------------------

func (s *sim) check() {
	s.stat("safety_checks", 1)
	for _, n := range s.nodes {
		s.absorb(n)
		x, lc := n.st.XOR(dag.MaxLamportClock)
		if !x.Equals(n.xor) || lc != n.led.High() {
			// the digest moved although no admission was observed (or not to where the observed admissions put it): look at the set itself
			s.relist(n, fmt.Sprintf("XOR(Max)=(%s,%d), observed admissions imply (%s,%d)", x, lc, n.xor, n.led.High()))
		}
		// spot check through the public API: what the node held it still holds
		if l := len(n.led.Order); l > 0 {
			for k := 0; k < 2; k++ {
				ref := n.led.Order[s.ornd.Intn(l)]
				present, err := n.st.IsPresent(context.Background(), ref)
				s.stat("presence_probes", 1)
				if err != nil || !present {
					s.violation("C07/safety/transaction-removed", fmt.Sprintf("node %s no longer holds transaction %s (err=%v)", n.name, ref, err), nil)
				}
			}
		}
	}
}

// absorb takes the admissions observed since the last step into the monitor's ledger and decides each one.
func (s *sim) absorb(n *simNode) {
	for _, tx := range n.drain() {
		ref := tx.Ref()
		s.stat("admissions_observed", 1)
		if n.led.Has(ref) {
			s.violation("C07/safety/admitted-twice", fmt.Sprintf("node %s was notified twice of the admission of %s", n.name, ref), nil)
			continue
		}
		if g, ok := s.w.valid[ref]; !ok {
			kind := "unknown-transaction"
			if e, bad := s.w.evil[ref]; bad {
				kind = e.kind
			}
			s.violation("C07/safety/invalid-admitted/"+kind, fmt.Sprintf("node %s admitted transaction %s which is not one of the generated valid transactions (%s)", n.name, ref, kind),
				map[string]any{"transaction": ref.String(), "kind": kind})
		} else {
			n.validHeld++
			// causal completeness as the generator knows it: every prev must be held already
			for _, p := range g.tx.Previous() {
				if !n.led.Has(p) {
					s.violation("C07/safety/admitted-before-prev", fmt.Sprintf("node %s admitted %s before its prev %s", n.name, ref, p), nil)
				}
			}
		}
		n.led.Add(ref, tx.Clock())
		n.xor = n.xor.Xor(ref)
	}
}

// relist reads the node's whole transaction set through the public API and compares it with the ledger: nothing removed, nothing invalid.
func (s *sim) relist(n *simNode, why string) {
	s.stat("full_listings", 1)
	txs, err := n.st.FindBetweenLC(context.Background(), 0, dag.MaxLamportClock)
	if err != nil {
		s.r.Fatalf("FindBetweenLC: %v", err)
	}
	now := map[hash.SHA256Hash]bool{}
	for _, tx := range txs {
		now[tx.Ref()] = true
		if !n.led.Has(tx.Ref()) {
			kind := "valid"
			if _, ok := s.w.valid[tx.Ref()]; !ok {
				kind = "unknown-transaction"
				if e, bad := s.w.evil[tx.Ref()]; bad {
					kind = e.kind
				}
				s.violation("C07/safety/invalid-admitted/"+kind, fmt.Sprintf("node %s lists transaction %s which is not one of the generated valid transactions (%s)", n.name, tx.Ref(), kind), nil)
			}
			if kind == "valid" {
				n.validHeld++
			}
			s.stat("admissions_seen_only_in_listing", 1)
			n.led.Add(tx.Ref(), tx.Clock())
			n.xor = n.xor.Xor(tx.Ref())
		}
	}
	for ref := range n.listing {
		if !now[ref] {
			s.violation("C07/safety/transaction-removed", fmt.Sprintf("node %s no longer lists transaction %s", n.name, ref), nil)
		}
	}
	for _, ref := range n.led.Order {
		if !now[ref] {
			s.violation("C07/safety/transaction-removed", fmt.Sprintf("node %s no longer lists transaction %s it admitted earlier", n.name, ref), nil)
		}
	}
	n.listing = now
	if why != "" {
		x, lc := n.st.XOR(dag.MaxLamportClock)
		if !x.Equals(n.xor) || lc != n.led.High() {
			s.violation("C07/safety/digest-inconsistent", fmt.Sprintf("node %s: %s; the listed set implies (%s,%d) but the node reports (%s,%d)", n.name, why, n.xor, n.led.High(), x, lc), nil)
			n.xor = x // report once
		}
	}
}

func (s *sim) checkpoint() {
	for _, n := range s.nodes {
		s.absorb(n)
		s.relist(n, "")
	}
}

func (s *sim) unionXor() hash.SHA256Hash {
	var x hash.SHA256Hash
	for ref := range s.w.valid {
		x = x.Xor(ref)
	}
	return x
}

func (s *sim) converged() bool {
	for _, n := range s.nodes {
		if n.validHeld != len(s.w.valid) {
			return false
		}
	}
	return true
}

func (s *sim) held_total() int {
	t := 0
	for _, n := range s.nodes {
		t += n.led.Len()
	}
	return t
}

// ---- adversary (fault phase) ---------------------------------------------------------------------------------------------

func (s *sim) releaseDue(all bool) {
	keep := s.held[:0]
	for _, m := range s.held {
		if all || m.release <= s.step {
			s.inflight = append(s.inflight, m)
			s.stat("delayed_released", 1)
		} else {
			keep = append(keep, m)
		}
	}
	s.held = keep
}

// adversary profiles: weights of (deliver any, deliver oldest, tick, drop, duplicate, delay, stale/unsolicited copy, timeout, forged message, create transaction)
var profiles = map[string][10]int{
	"chaotic": {38, 6, 14, 8, 6, 6, 6, 4, 8, 4},
	"lossy":   {8, 2, 22, 36, 5, 8, 5, 4, 7, 3},
	"quiet":   {0, 0, 0, 0, 0, 0, 0, 0, 0, 0}, // no fault phase at all: the fair phase starts from the initial DAGs
}

func (s *sim) faultStep() {
	s.step++
	s.releaseDue(false)
	wts := profiles[s.sc.profile]
	total := 0
	for _, w := range wts {
		total += w
	}
	x := s.rnd.Intn(total)
	action := 0
	for ; action < len(wts)-1; action++ {
		if x < wts[action] {
			break
		}
		x -= wts[action]
	}
	nIn := len(s.inflight)
	if nIn == 0 && (action <= 1 || action >= 3 && action <= 5) {
		action = 2 // nothing in flight: let a node gossip instead
	}
	switch action {
	case 0:
		s.deliverAny()
	case 1:
		s.deliver(s.take(0), "deliver-oldest")
	case 2:
		i := s.rnd.Intn(len(s.nodes))
		peers := s.nodes[i].nbrs
		if s.rnd.Intn(3) == 0 {
			peers = []int{peers[s.rnd.Intn(len(peers))]}
		}
		s.tick(i, peers)
	case 3:
		m := s.take(s.rnd.Intn(nIn))
		s.stat("dropped/"+m.typ, 1)
		s.stat("dropped", 1)
		s.tracef("drop #%d %s %d>%d", m.seq, m.typ, m.from, m.to)
		s.remember(m)
	case 4:
		m := s.inflight[s.rnd.Intn(nIn)]
		s.seq++
		cp := *m
		cp.seq, cp.origin = s.seq, "dup"
		s.inflight = append(s.inflight, &cp)
		s.stat("duplicated/"+m.typ, 1)
		s.stat("duplicated", 1)
		s.tracef("dup #%d->#%d %s %d>%d", m.seq, cp.seq, m.typ, m.from, m.to)
	case 5:
		m := s.take(s.rnd.Intn(nIn))
		m.release = s.step + 5 + s.rnd.Intn(80)
		s.held = append(s.held, m)
		s.stat("delayed", 1)
		s.tracef("delay #%d %s %d>%d until %d", m.seq, m.typ, m.from, m.to, m.release)
	case 6:
		if len(s.history) == 0 {
			return
		}
		m := s.history[s.rnd.Intn(len(s.history))]
		s.seq++
		cp := *m
		cp.seq, cp.origin = s.seq, "stale"
		if s.rnd.Intn(3) == 0 {
			// the same bytes to another neighbour of the sender: an unsolicited message there
			nb := s.nodes[m.from].nbrs
			cp.to = nb[s.rnd.Intn(len(nb))]
			if cp.to != m.to {
				cp.origin = "unsolicited"
			}
		}
		s.inflight = append(s.inflight, &cp)
		s.stat("stale_injected/"+cp.origin+"/"+m.typ, 1)
		s.stat("stale_injected", 1)
		s.tracef("stale #%d->#%d %s %d>%d (%s)", m.seq, cp.seq, m.typ, cp.from, cp.to, cp.origin)
	case 7:
		s.timeout(s.rnd.Intn(len(s.nodes)), s.rnd.Intn(2) == 0)
	case 8:
		if s.sc.hostile {
			s.hostile()
		}
	case 9:
		if s.newTxs < s.sc.newTx {
			s.createTx(s.nodes[s.rnd.Intn(len(s.nodes))])
		}
	}
}

// deliverAny delivers a seeded choice among everything in flight; overtaking an older message on the same link counts as a reordering.
func (s *sim) deliverAny() {
	i := s.rnd.Intn(len(s.inflight))
	m := s.inflight[i]
	for _, o := range s.inflight[:i] {
		if o.from == m.from && o.to == m.to && o.seq < m.seq {
			s.stat("reordered_deliveries", 1)
			break
		}
	}
	s.deliver(s.take(i), "deliver")
}

// createTx lets a node's own application create a transaction on top of what that node holds (goes through State.Add, as production does).
func (s *sim) createTx(n *simNode) {
	head := n.led.Order[0]
	for _, ref := range n.led.Order {
		if n.led.Clock[ref] > n.led.Clock[head] {
			head = ref
		}
	}
	prevs := []dag.Transaction{s.txByRef(n, head)}
	if o := n.led.Order[s.rnd.Intn(len(n.led.Order))]; !o.Equals(head) && s.rnd.Intn(2) == 0 {
		prevs = append(prevs, s.txByRef(n, o))
	}
	payload := make([]byte, 16)
	s.rnd.Read(payload)
	g := s.w.child(payload, prevs...)
	s.newTxs++
	s.stat("transactions_created_midrun", 1)
	s.tracef("create at %d lc=%d", n.idx, g.tx.Clock())
	s.created = append(s.created, g.tx.Ref())
	s.createdAt[g.tx.Ref()] = n.idx
	if err := n.st.Add(context.Background(), g.tx, g.payload); err != nil {
		s.r.Fatalf("mid-run Add at %s: %v", n.name, err)
	}
	s.check()
}

func (s *sim) txByRef(n *simNode, ref hash.SHA256Hash) dag.Transaction {
	if g, ok := s.w.valid[ref]; ok {
		return g.tx
	}
	tx, err := n.st.GetTransaction(context.Background(), ref)
	if err != nil {
		s.r.Fatalf("GetTransaction: %v", err)
	}
	return tx
}

// hostile injects forged protocol messages carrying tampered transactions, chained so that they get as far as the admission check:
// a forged Gossip/TransactionSet makes the victim ask for tampered refs, a forged TransactionList answers an open query of the victim.
func (s *sim) hostile() {
	type query struct {
		m   *wmsg
		env *v2.Envelope
	}
	var lists, ranges, states []query
	scan := func(ms []*wmsg) {
		for _, m := range ms {
			if m.origin != "node" {
				continue
			}
			switch m.typ {
			case "TransactionListQuery":
				lists = append(lists, query{m, nil})
			case "TransactionRangeQuery":
				ranges = append(ranges, query{m, nil})
			case "State":
				states = append(states, query{m, nil})
			}
		}
	}
	scan(s.inflight)
	scan(s.held)
	h := s.history
	if len(h) > 40 {
		h = h[len(h)-40:]
	}
	scan(h)
	entry := func(e *evilTx) *v2.Transaction { return &v2.Transaction{Data: e.data, Payload: e.payload} }
	validEntry := func(g *gtx) *v2.Transaction { return &v2.Transaction{Data: g.tx.Data(), Payload: g.payload} }

	choice := s.rnd.Intn(10)
	switch {
	case choice < 3 && len(lists) > 0:
		// answer a TransactionListQuery of the victim with tampered + valid entries for the refs it asked for
		q := lists[s.rnd.Intn(len(lists))]
		msg := decode(q.m).GetTransactionListQuery()
		var entries []*v2.Transaction
		evil := 0
		for _, rb := range msg.Refs {
			ref := hash.FromSlice(rb)
			if e, ok := s.w.evil[ref]; ok {
				entries = append(entries, entry(e))
				evil++
			} else if g, ok := s.w.valid[ref]; ok && g.payload != nil && s.rnd.Intn(2) == 0 {
				entries = append(entries, validEntry(g))
			}
		}
		if evil == 0 {
			// a tampered variant of a requested transaction has another ref: refused by the conversation check
			if e := s.w.anyEvil(s.rnd, 0, 1<<20); e != nil {
				entries = append(entries, entry(e))
			}
		}
		if len(entries) == 0 {
			return
		}
		s.step0("forged TransactionList answering ListQuery #%d (%d tampered)", q.m.seq, max(evil, 1))
		s.inject(q.m.to, q.m.from, &v2.Envelope{Message: &v2.Envelope_TransactionList{TransactionList: &v2.TransactionList{
			ConversationID: msg.ConversationID, Transactions: entries, TotalMessages: 1, MessageNumber: 1}}}, "forged/list-answer")
	case choice < 6 && len(ranges) > 0:
		q := ranges[s.rnd.Intn(len(ranges))]
		msg := decode(q.m).GetTransactionRangeQuery()
		var entries []*v2.Transaction
		// some valid transactions of the range first (in clock order), then a tampered one, then more valid ones
		var inRange []*gtx
		for _, g := range s.w.order {
			if g.tx.Clock() >= msg.Start && g.tx.Clock() < msg.End && g.payload != nil {
				inRange = append(inRange, g)
			}
		}
		sort.SliceStable(inRange, func(i, j int) bool { return inRange[i].tx.Clock() < inRange[j].tx.Clock() })
		if len(inRange) > 12 {
			inRange = inRange[:12]
		}
		cut := 0
		if len(inRange) > 0 {
			cut = s.rnd.Intn(len(inRange) + 1)
		}
		for _, g := range inRange[:cut] {
			entries = append(entries, validEntry(g))
		}
		e := s.w.anyEvil(s.rnd, msg.Start, min(msg.End, msg.Start+1024))
		if e == nil {
			return
		}
		entries = append(entries, entry(e))
		for _, g := range inRange[cut:] {
			entries = append(entries, validEntry(g))
		}
		total := uint32(1)
		if s.rnd.Intn(3) == 0 {
			total = 2 // leaves the conversation open
		}
		s.step0("forged TransactionList answering RangeQuery #%d [%d,%d) with %s", q.m.seq, msg.Start, msg.End, e.kind)
		s.inject(q.m.to, q.m.from, &v2.Envelope{Message: &v2.Envelope_TransactionList{TransactionList: &v2.TransactionList{
			ConversationID: msg.ConversationID, Transactions: entries, TotalMessages: total, MessageNumber: 1}}}, "forged/range-answer")
	case choice < 8 && len(states) > 0:
		// answer a State of the victim with an IBLT that decodes to tampered refs as "missing"
		q := states[s.rnd.Intn(len(states))]
		msg := decode(q.m).GetState()
		victim := s.nodes[q.m.from]
		ib, _ := victim.st.IBLT(msg.LC)
		k := 1 + s.rnd.Intn(3)
		for i := 0; i < k; i++ {
			if e := s.w.anyEvil(s.rnd, 0, msg.LC+2); e != nil {
				ib.Insert(e.ref)
			}
		}
		data, _ := ib.MarshalBinary()
		s.step0("forged TransactionSet answering State #%d", q.m.seq)
		s.inject(q.m.to, q.m.from, &v2.Envelope{Message: &v2.Envelope_TransactionSet{TransactionSet: &v2.TransactionSet{
			ConversationID: msg.ConversationID, LCReq: msg.LC, LC: msg.LC, IBLT: data}}}, "forged/set-answer")
	case choice < 9:
		// Gossip announcing tampered refs such that the victim's XOR check asks for exactly them
		b := s.nodes[s.rnd.Intn(len(s.nodes))]
		a := b.nbrs[s.rnd.Intn(len(b.nbrs))]
		x, lc := b.st.XOR(dag.MaxLamportClock)
		var refs [][]byte
		k := 1 + s.rnd.Intn(3)
		for i := 0; i < k; i++ {
			if e := s.w.anyEvil(s.rnd, 0, lc+2); e != nil {
				refs = append(refs, e.ref.Slice())
				x = x.Xor(e.ref)
			}
		}
		if len(refs) == 0 {
			return
		}
		s.step0("forged Gossip %d>%d announcing %d tampered refs", a, b.idx, len(refs))
		s.inject(a, b.idx, &v2.Envelope{Message: &v2.Envelope_Gossip{Gossip: &v2.Gossip{XOR: x.Slice(), LC: lc + uint32(s.rnd.Intn(2)), Transactions: refs}}}, "forged/gossip")
	default:
		// unsolicited TransactionList: unknown conversation, tampered and valid entries
		b := s.nodes[s.rnd.Intn(len(s.nodes))]
		a := b.nbrs[s.rnd.Intn(len(b.nbrs))]
		e := s.w.anyEvil(s.rnd, 0, b.led.High()+2)
		if e == nil {
			return
		}
		cid := make([]byte, 36)
		s.rnd.Read(cid)
		entries := []*v2.Transaction{entry(e)}
		s.step0("forged unsolicited TransactionList %d>%d with %s", a, b.idx, e.kind)
		s.inject(a, b.idx, &v2.Envelope{Message: &v2.Envelope_TransactionList{TransactionList: &v2.TransactionList{
			ConversationID: cid, Transactions: entries, TotalMessages: 1, MessageNumber: 1}}}, "forged/unsolicited-list")
	}
}

func (s *sim) step0(format string, args ...any) { s.tracef(format, args...) }

// ---- fair phase --------------------------------------------------------------------------------------------------------------

// fairRound: every node's gossip tick, then every in-flight message (and everything sent in response) is delivered in a seeded order.
func (s *sim) fairRound(round int) (capHit bool) {
	for _, i := range s.rnd.Perm(len(s.nodes)) {
		s.step++
		s.tick(i, s.nodes[i].nbrs)
	}
	stepCap := s.sc.roundStepCap()
	n := 0
	for len(s.inflight) > 0 {
		s.step++
		n++
		if n > stepCap {
			s.stat("fair_round_step_cap_hit", 1)
			s.maxRound = max(s.maxRound, n)
			return true
		}
		s.deliverAny()
	}
	s.maxRound = max(s.maxRound, n)
	return false
}

func (s *sim) timeoutAll() {
	for i := range s.nodes {
		s.timeout(i, true)
	}
	s.stat("virtual_timeouts", 1)
}
