package c06tmp

import (
	"context"
	"crypto/ecdsa"
	"crypto/rand"
	"crypto/sha256"
	"encoding/base64"
	"encoding/json"
	"fmt"
	"os"
	"strings"
	"testing"

	"github.com/lestrrat-go/jwx/v2/jwk"
	"github.com/nuts-foundation/nuts-node/crypto/hash"
	"github.com/nuts-foundation/nuts-node/network/dag"
	"verif/lib/dagx"
)

var b64 = base64.RawURLEncoding

type hf struct {
	k string
	v string
}

func sign(priv *ecdsa.PrivateKey, in []byte) []byte {
	h := sha256.Sum256(in)
	r, s, _ := ecdsa.Sign(rand.Reader, priv, h[:])
	out := make([]byte, 64)
	r.FillBytes(out[:32])
	s.FillBytes(out[32:])
	return out
}

func hdrJSON(h []hf) string {
	var parts []string
	for _, f := range h {
		parts = append(parts, fmt.Sprintf("%q:%s", f.k, f.v))
	}
	return "{" + strings.Join(parts, ",") + "}"
}

func compact(h []hf, payload string, priv *ecdsa.PrivateKey) string {
	in := b64.EncodeToString([]byte(hdrJSON(h))) + "." + b64.EncodeToString([]byte(payload))
	return in + "." + b64.EncodeToString(sign(priv, []byte(in)))
}

func base(key *dagx.Key, lc string, prevs string) []hf {
	jb, _ := json.Marshal(key.Pub)
	return []hf{{"alg", `"ES256"`}, {"crit", `["sigt","ver","prevs","lc"]`}, {"cty", `"application/x-verif"`}, {"jwk", string(jb)}, {"lc", lc}, {"prevs", prevs}, {"sigt", "1700000000"}, {"ver", "2"}}
}

func set(h []hf, k, v string) []hf {
	out := append([]hf{}, h...)
	for i := range out {
		if out[i].k == k {
			out[i].v = v
			return out
		}
	}
	return append(out, hf{k, v})
}
func del(h []hf, k string) []hf {
	var out []hf
	for _, f := range h {
		if f.k != k {
			out = append(out, f)
		}
	}
	return out
}

func TestX(t *testing.T) {
	dir, _ := os.MkdirTemp("", "x")
	defer os.RemoveAll(dir)
	db, _ := dagx.OpenStore(dir, false)
	st := dagx.NewState(db, dag.NewPrevTransactionsVerifier(), dag.NewTransactionSignatureVerifier(nil))
	key := dagx.NewKey("")
	pl := []byte("hello")
	ph := hash.SHA256Sum(pl).String()
	try := func(name string, data string, payload []byte) {
		tx, err := dag.ParseTransaction([]byte(data))
		if err != nil {
			fmt.Printf("%-40s PARSE-ERR %v\n", name, err)
			return
		}
		err = st.Add(context.Background(), tx, payload)
		p, _ := st.IsPresent(context.Background(), tx.Ref())
		fmt.Printf("%-40s parse ok lc=%d ver=%d add=%v present=%v\n", name, tx.Clock(), tx.Version(), err, p)
	}
	root := compact(base(key, "0", "[]"), ph, key.Priv)
	try("root", root, pl)
	rref := hash.SHA256Sum([]byte(root)).String()
	pv := `["` + rref + `"]`
	b := base(key, "1", pv)
	try("child", compact(b, ph, key.Priv), nil)
	try("lc 2^32+1", compact(set(b, "lc", "4294967297"), ph, key.Priv), nil)
	try("lc -4294967295", compact(set(b, "lc", "-4294967295"), ph, key.Priv), nil)
	try("lc 1.5", compact(set(b, "lc", "1.5"), ph, key.Priv), nil)
	try("lc 1.0", compact(set(b, "lc", "1.0"), ph, key.Priv), nil)
	try("lc 1e0", compact(set(b, "lc", "1e0"), ph, key.Priv), nil)
	try("lc 1e30", compact(set(b, "lc", "1e30"), ph, key.Priv), nil)
	try("lc string", compact(set(b, "lc", `"1"`), ph, key.Priv), nil)
	try("lc 2", compact(set(b, "lc", `2`), ph, key.Priv), nil)
	try("lc 0", compact(set(b, "lc", `0`), ph, key.Priv), nil)
	try("ver 2.7", compact(set(b, "ver", `2.7`), ph, key.Priv), nil)
	try("ver 1", compact(set(b, "ver", `1`), ph, key.Priv), nil)
	try("ver 3", compact(set(b, "ver", `3`), ph, key.Priv), nil)
	try("ver 0.5", compact(set(b, "ver", `0.5`), ph, key.Priv), nil)
	try("sigt string", compact(set(b, "sigt", `"1700000000"`), ph, key.Priv), nil)
	try("sigt frac", compact(set(b, "sigt", `1700000000.5`), ph, key.Priv), nil)
	try("sigt neg", compact(set(b, "sigt", `-5`), ph, key.Priv), nil)
	try("sigt 1e300", compact(set(b, "sigt", `1e300`), ph, key.Priv), nil)
	try("no crit", compact(del(b, "crit"), ph, key.Priv), nil)
	try("crit empty", compact(set(b, "crit", `[]`), ph, key.Priv), nil)
	try("crit partial", compact(set(b, "crit", `["sigt"]`), ph, key.Priv), nil)
	try("crit unknown ext", compact(set(b, "crit", `["sigt","ver","prevs","lc","foo"]`), ph, key.Priv), nil)
	try("crit string", compact(set(b, "crit", `"sigt"`), ph, key.Priv), nil)
	for _, k := range []string{"alg", "cty", "jwk", "lc", "prevs", "sigt", "ver"} {
		try("no "+k, compact(del(b, k), ph, key.Priv), nil)
	}
	try("dup lc (1 then 5)", compact(append(append([]hf{}, b...), hf{"lc", "5"}), ph, key.Priv), nil)
	try("dup lc (5 then 1)", compact(append([]hf{{"lc", "5"}}, del(b, "lc")...), ph, key.Priv), nil)
	bb := append([]hf{{"lc", "5"}}, b...)
	try("dup lc (5 first, 1 later)", compact(bb, ph, key.Priv), nil)
	try("dup prevs", compact(set(b, "prevs", `["`+rref+`","`+rref+`"]`), ph, key.Priv), nil)
	try("prevs upper", compact(set(b, "prevs", `["`+strings.ToUpper(rref)+`"]`), ph, key.Priv), nil)
	try("prevs string", compact(set(b, "prevs", `"`+rref+`"`), ph, key.Priv), nil)
	try("prevs null", compact(set(b, "prevs", `null`), ph, key.Priv), nil)
	try("prevs empty lc1", compact(set(b, "prevs", `[]`), ph, key.Priv), nil)
	try("second root", compact(set(base(key, "0", "[]"), "sigt", "5"), ph, key.Priv), nil)
	try("kid+jwk", compact(set(b, "kid", `"did:nuts:x#k"`), ph, key.Priv), nil)
	try("kid empty+jwk", compact(set(b, "kid", `""`), ph, key.Priv), nil)
	try("kid number", compact(set(del(b, "jwk"), "kid", `5`), ph, key.Priv), nil)
	try("jwk string", compact(set(b, "jwk", `"x"`), ph, key.Priv), nil)
	try("jwk null", compact(set(b, "jwk", `null`), ph, key.Priv), nil)
	pj, _ := jwk.FromRaw(key.Priv)
	pjb, _ := json.Marshal(pj)
	try("jwk private", compact(set(b, "jwk", string(pjb)), ph, key.Priv), nil)
	try("extra hdr", compact(set(b, "foo", `"bar"`), ph, key.Priv), nil)
	try("b64 false", compact(set(b, "b64", `false`), ph, key.Priv), nil)
	try("payload upper", compact(set(b, "sigt", "6"), strings.ToUpper(ph), key.Priv), nil)
	try("payload short", compact(b, ph[:62], key.Priv), nil)
	try("payload empty", compact(b, "", key.Priv), nil)
	try("payload mismatch", compact(set(b, "sigt", "7"), ph, key.Priv), []byte("other"))
	try("alg none hdr", compact(set(b, "alg", `"none"`), ph, key.Priv), nil)
	try("alg ES256K hdr", compact(set(b, "alg", `"ES256K"`), ph, key.Priv), nil)
	try("alg ES384 hdr p256 sig", compact(set(b, "alg", `"ES384"`), ph, key.Priv), nil)
	try("alg number", compact(set(b, "alg", `5`), ph, key.Priv), nil)
	v := compact(set(b, "sigt", "8"), ph, key.Priv)
	parts := strings.Split(v, ".")
	try("trailing dot", v+".", nil)
	try("trailing nl", v+"\n", nil)
	try("leading space", " "+v, nil)
	try("padding sig", v+"==", nil)
	try("padding hdr", parts[0]+"=."+parts[1]+"."+parts[2], nil)
	try("padding hdr2", parts[0]+"==."+parts[1]+"."+parts[2], nil)
	try("std b64 sig", parts[0]+"."+parts[1]+"."+strings.NewReplacer("-", "+", "_", "/").Replace(parts[2]), nil)
	try("4 parts", v+".abc", nil)
	try("2 parts", parts[0]+"."+parts[1], nil)
	try("empty sig", parts[0]+"."+parts[1]+".", nil)
	try("ws in header json", func() string {
		hj := strings.Replace(hdrJSON(set(b, "sigt", "9")), ",", " ,\n", 2)
		in := b64.EncodeToString([]byte(hj)) + "." + b64.EncodeToString([]byte(ph))
		return in + "." + b64.EncodeToString(sign(key.Priv, []byte(in)))
	}(), nil)
	// JSON serialisations
	v2 := compact(set(b, "sigt", "10"), ph, key.Priv)
	p2 := strings.Split(v2, ".")
	try("json flattened", fmt.Sprintf(`{"payload":%q,"protected":%q,"signature":%q}`, p2[1], p2[0], p2[2]), nil)
	try("json general 1 sig", fmt.Sprintf(`{"payload":%q,"signatures":[{"protected":%q,"signature":%q}]}`, p2[1], p2[0], p2[2]), nil)
	try("json flattened + unprotected hdr", fmt.Sprintf(`{"payload":%q,"protected":%q,"header":{"x":1},"signature":%q}`, p2[1], p2[0], p2[2]), nil)
	v3 := compact(set(b, "sigt", "11"), ph, key.Priv)
	p3 := strings.Split(v3, ".")
	try("json general 2 sigs", fmt.Sprintf(`{"payload":%q,"signatures":[{"protected":%q,"signature":%q},{"protected":%q,"signature":%q}]}`, p2[1], p2[0], p2[2], p3[0], p3[2]), nil)
	try("json general 0 sigs", fmt.Sprintf(`{"payload":%q,"signatures":[]}`, p2[1]), nil)
	// high-s malleability
	try("valid v again (dup)", v, nil)
}
