package c09

// Round-5 widening of the C09 workload (the oracle is the one of c09_test.go, taken from the property text):
//
//  1. "at most one service per type" / "entry ids unique" with the values real did:nuts documents carry: service types and fragments
//     with upper-case letters, dashes, colons, non-ASCII letters (NutsComm, eOverdracht-sender, ...), the duplicate placed first / last /
//     next to / apart from its twin, three times, with string and compound endpoints. The first generation of rules only used the
//     all-lower-case placeholder types "type-a"/"type-b". Spellings that differ in case or white space only are NOT decided by the text
//     (observed, Unspecified).
//  2. update-style transactions (kid header, no embedded key) for a DID of which the node knows NO version: there is no version to succeed,
//     so whatever the payload claims about its own controllers or keys the pair must be rejected and leave nothing resolvable. The payload
//     names the signer's DID as (sole / shared) controller, lists the signer's key as its own capabilityInvocation key, is the document the
//     rightful owner would publish, ...; the target DID is the thumbprint of a not yet published key, of a key the signer holds, an arbitrary
//     id, or a DID whose creation was rejected before; prevs name the signer DID's latest / first / both versions. Afterwards the rightful
//     creation arrives and the signer's key tries again against the now existing DID.

import (
	"fmt"
	"strings"

	"github.com/nuts-foundation/go-did/did"
	"github.com/nuts-foundation/nuts-node/network/dag"
)

// ---- 1. service rules with realistic values --------------------------------------------------------------------------------------

// realistic service types: mixed case, dashes, all upper case, a URN, non-ASCII letters, all lower case
var dupTypes = []string{"NutsComm", "eOverdracht-sender", "OAUTH", "urn:Nuts:Service:Notification", "Überdracht-Ontvanger", "node-contact-info"}

func svcObj(self did.DID, frag, typ string, endpoint any) map[string]any {
	return map[string]any{"id": self.String() + "#" + frag, "type": typ, "serviceEndpoint": endpoint}
}

func compoundEndpoint(self did.DID) map[string]any {
	return map[string]any{"auth": self.String() + "/serviceEndpoint?type=oauth", "fhir": "https://fhir.example/r4"}
}

// arrangement places n services of type typ among the two services of the base document.
type arrangement struct {
	name  string
	build func(self did.DID, typ string, a, b any) []any
}

var dupArrangements = []arrangement{
	{"adjacent-first", func(self did.DID, typ string, a, b any) []any {
		return []any{svcObj(self, "S1", typ, "https://one.example/x"), svcObj(self, "S2", typ, "https://two.example/x"), a, b}
	}},
	{"apart", func(self did.DID, typ string, a, b any) []any {
		return []any{svcObj(self, "S1", typ, "https://one.example/x"), a, b, svcObj(self, "S2", typ, "https://two.example/x")}
	}},
	{"adjacent-last", func(self did.DID, typ string, a, b any) []any {
		return []any{a, b, svcObj(self, "first", typ, "https://one.example/x"), svcObj(self, "second", typ, "https://two.example/x")}
	}},
	{"only-services", func(self did.DID, typ string, _, _ any) []any {
		return []any{svcObj(self, "S1", typ, "https://one.example/x"), svcObj(self, "S2", typ, "https://one.example/x")}
	}},
	{"three-times", func(self did.DID, typ string, a, _ any) []any {
		return []any{svcObj(self, "S1", typ, "https://one.example/x"), a, svcObj(self, "S2", typ, "https://two.example/x"), svcObj(self, "S3", typ, "https://three.example/x")}
	}},
	{"compound-and-string-endpoint", func(self did.DID, typ string, a, _ any) []any {
		return []any{a, svcObj(self, "S1", typ, compoundEndpoint(self)), svcObj(self, "S2", typ, "https://two.example/x")}
	}},
	{"same-as-base-service", func(self did.DID, typ string, a, b any) []any {
		// the base document's own services get the type as well: [typ, type-b, typ]
		first := cloneMap(a)
		first["type"] = typ
		return []any{first, b, svcObj(self, "S2", typ, "https://two.example/x")}
	}},
}

// serviceRules: every type with two arrangements (rotating), every arrangement with at least one type. The rule NAME carries the variant
// after a '/', the violation key is the part before it.
func serviceRules() []rule {
	var out []rule
	for ti, typ := range dupTypes {
		for j := 0; j < 2; j++ {
			ar := dupArrangements[(2*ti+j)%len(dupArrangements)]
			typ := typ
			out = append(out, rule{name: fmt.Sprintf("service-type-duplicate/%s/%s", typ, ar.name), mut: func(m map[string]any, self, _ did.DID, _, _ *key) {
				m["service"] = ar.build(self, typ, svcs(m)[0], svcs(m)[1])
			}})
		}
	}
	// duplicate service ids whose fragment is a realistic, mixed-case name (types differ)
	for i, frag := range []string{"NutsComm", "eOverdracht-Sender", "SVC-1"} {
		frag, i := frag, i
		out = append(out, rule{name: "service-id-duplicate/" + frag, mut: func(m map[string]any, self, _ did.DID, _, _ *key) {
			l := []any{svcObj(self, frag, "NutsComm", "grpc://one.example:5555"), svcs(m)[0], svcObj(self, frag, "eOverdracht-sender", "https://two.example/x")}
			if i%2 == 1 {
				l[1], l[2] = l[2], l[1]
			}
			m["service"] = l
		}})
	}
	// a service id equal to the id of ANOTHER service's twin is covered above; a verification method listed twice under a realistic second spelling
	// of the same id does not exist (key ids are thumbprints). What the text does not decide: spellings that differ in case / white space only.
	unspec := func(name string, f func(self did.DID, a, b any) []any) {
		out = append(out, rule{name: name, unspec: true, mut: func(m map[string]any, self, _ did.DID, _, _ *key) {
			m["service"] = f(self, svcs(m)[0], svcs(m)[1])
		}})
	}
	unspec("service-type-differs-in-case-only/upper-first", func(self did.DID, a, b any) []any {
		return []any{svcObj(self, "S1", "NutsComm", "grpc://one.example:5555"), a, svcObj(self, "S2", "nutscomm", "grpc://two.example:5555")}
	})
	unspec("service-type-differs-in-case-only/lower-first", func(self did.DID, a, b any) []any {
		return []any{svcObj(self, "S1", "eoverdracht-sender", "https://one.example/x"), svcObj(self, "S2", "eOverdracht-sender", "https://two.example/x"), b}
	})
	unspec("service-type-differs-in-white-space-only", func(self did.DID, a, b any) []any {
		return []any{a, svcObj(self, "S1", "NutsComm", "grpc://one.example:5555"), svcObj(self, "S2", "NutsComm ", "grpc://two.example:5555")}
	})
	unspec("service-id-differs-in-case-only", func(self did.DID, a, b any) []any {
		return []any{svcObj(self, "NutsComm", "NutsComm", "grpc://one.example:5555"), svcObj(self, "nutscomm", "node-contact-info", "https://two.example/x"), b}
	})
	// well-formed neighbours: the same realistic types, once each (must not be refused because of their spelling: MUST-ACCEPT is decided by
	// the ordinary update analysis, the rule only rewrites the services)
	return out
}

// ruleSite is the stable part of a rule name (the violation key site): the text before the first '/'.
func ruleSite(name string) string { return strings.SplitN(name, "/", 2)[0] }

func init() { rules = append(rules, serviceRules()...) }

// famRealisticServices: well-formed documents that carry each realistic type exactly once (and spellings that are different types beyond
// doubt) are accepted in a creation and in an update by the DID's own key: the neighbours of the duplicate cases on the accepting side.
func famRealisticServices(s *scenario) {
	spec := func(k *key) docSpec {
		d := docSpec{id: k.did(), vms: []vmSpec{{k, relCapInv | relAssert}}}
		for i, t := range s.rnd.Perm(len(dupTypes)) {
			d = d.withService(fmt.Sprintf("Svc-%d", i), dupTypes[t])
		}
		return d
	}
	d := s.mkDID("d", spec)
	// the same types under new fragments, in another order, plus one more type
	next := docSpec{id: d.id, vms: d.spec.vms}
	for i, t := range s.rnd.Perm(len(dupTypes)) {
		next = next.withService(fmt.Sprintf("svc-%d", i), dupTypes[t])
	}
	next = next.withService("Extra", "NutsComm-v2")
	_, ok := s.apply(d, "update/own-key", next, d.k, d, s.withRoot([]dag.Transaction{d.latest()}))
	s.need(ok, "update with every realistic service type once")
	// and now one of them twice, by the authorised key, on the latest version: the document rule decides, not the signer
	typ := dupTypes[s.rnd.Intn(len(dupTypes))]
	twice := mutate(d.spec.json(), func(m map[string]any) {
		m["service"] = append(svcs(m), svcObj(d.id, "Again", typ, "https://again.example/x"))
	})
	s.submit(&pair{kind: "update/invalid-document", target: d.id, payload: twice, signer: d.k, kidOwner: &d.id, prevs: []dag.Transaction{d.latest()},
		invalid: "service-type-duplicate/" + typ + "/appended-to-existing-version"})
	s.apply(d, "update/own-key", s.nextService(d.spec), d.k, d, []dag.Transaction{d.latest()})
}

// ---- 2. update-style transactions for a DID without any known version ----------------------------------------------------------------

// unknownTargets: how the DID that nobody created yet is chosen.
var unknownTargets = []string{"unpublished-key", "arbitrary-id", "key-held-by-signer", "creation-rejected-before"}

func famUnknownDID(target string) func(s *scenario) {
	return func(s *scenario) {
		kb2, kba := s.key("b-second"), s.key("b-assert")
		// the signer's DID B: regularly created, two versions, a second capabilityInvocation key and an assertion-only key
		b := s.mkDID("b", func(k *key) docSpec { return s.randShape(k).with(kba, relAssert|relAuthn) })
		_, ok := s.apply(b, "update/own-key", s.nextService(b.spec).with(kb2, relCapInv), b.k, b, s.withRoot([]dag.Transaction{b.latest()}))
		s.need(ok, "second version of the signer DID")

		kv := s.key("victim")
		var id did.DID
		switch target {
		case "unpublished-key", "creation-rejected-before":
			id = kv.did()
		case "arbitrary-id":
			id = did.MustParseDID("did:nuts:" + kv.thumb[:len(kv.thumb)-4] + "Nuts")
		case "key-held-by-signer":
			kv = kb2 // B lists the key, but nobody created the DID that is its thumbprint
			id = kb2.did()
		}
		owner := docSpec{id: id, vms: []vmSpec{{kv, relCapInv | relAssert}}}.withService("Comm", "NutsComm")
		if target == "creation-rejected-before" {
			// somebody's creation attempt for the DID with a foreign embedded key was refused: still no version of it
			s.submit(&pair{kind: "create/foreign-key", target: id, payload: owner.json(), signer: b.k, prevs: []dag.Transaction{s.e.root}})
		}

		prevChoices := [][]dag.Transaction{{b.latest()}, {b.txs[0]}, {b.latest(), b.txs[0]}, {b.txs[0], b.latest()}}
		prevs := func(i int) []dag.Transaction {
			p := prevChoices[i%len(prevChoices)]
			if i >= len(prevChoices) {
				p = s.withRoot(p)
			}
			return append([]dag.Transaction{}, p...)
		}
		type shape struct {
			name   string
			doc    docSpec
			signer *key
		}
		ctl := func(d docSpec, c ...did.DID) docSpec { d = d.clone(); d.controllers = c; return d }
		shapes := []shape{
			{"payload-names-signer-did-as-controller/no-keys", ctl(docSpec{id: id}, b.id), b.k},
			{"payload-names-signer-did-as-controller/owners-keys", ctl(owner, b.id), b.k},
			{"payload-names-signer-did-as-controller/shared-with-self", ctl(owner, id, b.id), b.k},
			{"payload-names-signer-did-as-controller/shared-with-self", ctl(owner, b.id, id), kb2},
			{"payload-names-signer-did-as-controller/and-lists-signer-key", ctl(docSpec{id: id, vms: []vmSpec{{b.k, relCapInv | relAssert}}}, b.id), b.k},
			{"payload-lists-signer-key-for-capability-invocation", docSpec{id: id, vms: []vmSpec{{b.k, relCapInv | relAssert}}}, b.k},
			{"payload-lists-signer-key-for-capability-invocation", docSpec{id: id, vms: []vmSpec{{kv, relAssert}, {kb2, relCapInv}}}, kb2},
			{"payload-is-owners-document", owner, b.k},
			{"payload-names-signer-did-as-controller/signed-by-non-capinv-key", ctl(owner, b.id), kba},
		}
		start := s.rnd.Intn(len(prevChoices))
		for i, sh := range shapes {
			if target == "key-held-by-signer" && sh.signer == kb2 && strings.Contains(sh.name, "lists-signer-key") {
				continue // same key twice in one document under the same id
			}
			s.submit(&pair{kind: "update/unknown-did/" + sh.name, target: id, payload: sh.doc.json(), signer: sh.signer, kidOwner: &b.id, prevs: prevs(start + i)})
		}
		// kid of the unknown DID itself: no key can be found for it
		s.submit(&pair{kind: "update/unknown-did/kid-of-unknown-did", target: id, payload: ctl(owner, b.id).json(), signer: kv, kidOwner: &id, prevs: prevs(start)})

		if target == "arbitrary-id" {
			return // nobody can create this DID
		}
		// the rightful creation arrives afterwards ...
		v := &hdid{k: kv, id: id, spec: owner}
		tx, ok := s.submit(&pair{kind: "create/correct-key", target: id, payload: owner.json(), signer: kv, prevs: s.withRoot([]dag.Transaction{s.e.root})})
		if !ok {
			return
		}
		v.txs = append(v.txs, tx)
		// ... and the signer DID is not a controller of it: same claims again, now naming the existing version
		steal := ctl(owner, b.id)
		s.apply(v, "update/non-controller-did-key", steal, b.k, b, s.shuffled(v.latest(), b.latest()))
		s.apply(v, "update/non-controller-did-key", steal, b.k, b, []dag.Transaction{b.latest()})
		third := kb2 // capabilityInvocation key of B's latest version only; the prevs name B's first version
		if target == "key-held-by-signer" {
			third = b.k // (there kb2 IS the owner's key)
		}
		s.apply(v, "update/non-controller-did-key", docSpec{id: id, vms: []vmSpec{{b.k, relCapInv}}}, third, b, s.shuffled(b.txs[0], v.latest()))
		// the owner's key still works
		s.apply(v, "update/own-key", s.nextService(v.spec), kv, v, s.withRoot([]dag.Transaction{v.latest()}))
	}
}

// widenJobs adds the round-5 families to the case list (pure function of seed and tier).
func widenJobs(thorough bool, add func(name string, f func(s *scenario))) {
	reps := 1
	if thorough {
		reps = 3
	}
	for rep := 0; rep < reps; rep++ {
		for _, t := range unknownTargets {
			add("unknown-did/"+t, famUnknownDID(t))
		}
		add("realistic-services", famRealisticServices)
	}
}
