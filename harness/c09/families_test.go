package c09

import (
	"crypto"
	"crypto/ed25519"
	"crypto/rand"
	"crypto/rsa"
	"encoding/json"
	"sync"

	"github.com/lestrrat-go/jwx/v2/jwk"
	"github.com/nuts-foundation/go-did/did"
)

// Verification methods whose key is not an EC key (RSA, Ed25519): the key-id-equals-thumbprint rule holds for them as for any other key.
// One key per family is enough (the rule does not depend on the key's value) and RSA generation is slow.

type familyKey struct {
	jwkMap map[string]any // publicKeyJwk
	frag   string         // RFC 7638 thumbprint, base64url
}

var (
	familyOnce sync.Once
	familyKeys map[string]familyKey
)

func familyKeyOf(family string) familyKey {
	familyOnce.Do(func() {
		familyKeys = map[string]familyKey{}
		rk, err := rsa.GenerateKey(rand.Reader, 2048)
		if err != nil {
			panic(err)
		}
		ek, _, err := ed25519.GenerateKey(rand.Reader)
		if err != nil {
			panic(err)
		}
		for name, pub := range map[string]crypto.PublicKey{"rsa": &rk.PublicKey, "okp": ek} {
			j, err := jwk.FromRaw(pub)
			if err != nil {
				panic(err)
			}
			if err := jwk.AssignKeyID(j); err != nil {
				panic(err)
			}
			frag := j.KeyID()
			_ = j.Remove(jwk.KeyIDKey)
			b, _ := json.Marshal(j)
			var m map[string]any
			_ = json.Unmarshal(b, &m)
			familyKeys[name] = familyKey{jwkMap: m, frag: frag}
		}
	})
	return familyKeys[family]
}

// familyVM is a JsonWebKey2020 verification method of self holding the family's key under the given fragment ("" = its thumbprint).
func familyVM(self did.DID, family, fragment string) map[string]any {
	fk := familyKeyOf(family)
	if fragment == "" {
		fragment = fk.frag
	}
	j := map[string]any{}
	for k, v := range fk.jwkMap {
		j[k] = v
	}
	return map[string]any{"id": self.String() + "#" + fragment, "type": "JsonWebKey2020", "controller": self.String(), "publicKeyJwk": j}
}

func familyRules() []rule {
	var out []rule
	for _, fam := range []string{"rsa", "okp"} {
		fam := fam
		add := func(name string, unspec bool, fragment func(k *key) string, relationship string) {
			out = append(out, rule{name: name, unspec: unspec, mut: func(m map[string]any, self, _ did.DID, k, _ *key) {
				vm := familyVM(self, fam, fragment(k))
				m["verificationMethod"] = append(vms(m), vm)
				if relationship != "" {
					m[relationship] = append(anyList(m[relationship]), vm["id"])
				}
			}})
		}
		add("vm-kid-free-text-"+fam+"-key", false, func(*key) string { return "key-1" }, "assertionMethod")
		add("vm-kid-free-text-"+fam+"-key-for-capability-invocation", false, func(*key) string { return "key-1" }, "capabilityInvocation")
		add("vm-kid-other-keys-thumbprint-"+fam+"-key", false, func(k *key) string { return k.frag + "B" }, "")
		add("vm-kid-thumbprint-with-suffix-"+fam+"-key", false, func(*key) string { return familyKeyOf(fam).frag + "x" }, "authentication")
		// which key families a did:nuts document may hold is not part of the statement: a well-formed method of the family is only observed
		add("vm-"+fam+"-key-wellformed", true, func(*key) string { return "" }, "assertionMethod")
	}
	return out
}

func init() { rules = append(rules, familyRules()...) }
