package c09

import (
	"encoding/json"
	"context"
	"fmt"
	"testing"
	"time"

	"github.com/nuts-foundation/go-did/did"
	"github.com/nuts-foundation/nuts-node/network/dag"
	"github.com/nuts-foundation/nuts-node/vdr/resolver"
	"github.com/sirupsen/logrus"
	"io"
	"verif/lib/dagx"
	"verif/lib/ev"
)

type xp struct {
	e *env
	n int
}

func (x *xp) send(label string, payload []byte, signer *dagx.Key, attach bool, prevs ...dag.Transaction) dag.Transaction {
	x.n++
	tx := dagx.NewTx(signer, attach, payload, didnuts_type, t0.Add(time.Duration(x.n)*time.Second), nil, prevs...)
	err := x.e.st.Add(context.Background(), tx, payload)
	d := x.e.net.deliveries[tx.Ref()]
	var aerr error
	called := 0
	if d != nil {
		aerr = d.err
		called = d.called
	}
	fmt.Printf("%-50s dag=%v | amb called=%d err=%v\n", label, err, called, aerr)
	return tx
}

const didnuts_type = "application/did+json"

func (x *xp) show(id did.DID) {
	doc, md, err := x.e.store.Resolve(id, nil)
	if err != nil {
		fmt.Printf("   resolve %s: %v\n", id, err)
		return
	}
	var ci []string
	for _, c := range doc.CapabilityInvocation {
		ci = append(ci, c.ID.Fragment[:6])
	}
	fmt.Printf("   resolve %s: capInv=%v ctrl=%v srcs=%d deact=%v\n", id.ID[:6], ci, doc.Controller, len(md.SourceTransactions), md.Deactivated)
}

func TestExplore(t *testing.T) {
	logrus.SetOutput(io.Discard)
	r := ev.Start(t, "C09X", "exploration")
	e := newEnv(r)
	defer e.close()
	x := &xp{e: e}
	// chains
	for depth := 1; depth <= 6; depth++ {
		ks := make([]*key, depth+1)
		txs := make([]dag.Transaction, depth+1)
		specs := make([]docSpec, depth+1)
		for i := range ks {
			ks[i] = newKey(fmt.Sprint("c", i))
			specs[i] = docSpec{id: ks[i].did(), vms: []vmSpec{{ks[i], relCapInv}}}
			txs[i] = x.send(fmt.Sprintf("depth %d create D%d", depth, i), specs[i].json(), ks[i].k, true, e.root)
		}
		for i := 0; i < depth; i++ {
			specs[i].controllers = []did.DID{ks[i+1].did()}
			txs[i] = x.send(fmt.Sprintf("depth %d D%d.controller=D%d", depth, i, i+1), specs[i].json(), ks[i].signer(ks[i].kid(ks[i].did())), false, txs[i])
		}
		txs[0] = x.send(fmt.Sprintf("depth %d update D0 by D1 key prevs=[d0,d1]", depth), specs[0].withService("a", "a").json(), ks[1].signer(ks[1].kid(ks[1].did())), false, txs[0], txs[1])
		if depth >= 2 {
			x.send(fmt.Sprintf("depth %d update D0 by D2 key prevs=[d0,d2]", depth), specs[0].withService("b", "b").json(), ks[2].signer(ks[2].kid(ks[2].did())), false, txs[0], txs[2])
			x.send(fmt.Sprintf("depth %d update D0 by D2 key prevs=[d0,d1,d2]", depth), specs[0].withService("b", "b").json(), ks[2].signer(ks[2].kid(ks[2].did())), false, txs[0], txs[1], txs[2])
		}
	}
	// deactivated own DID
	k1 := newKey("k1")
	D := k1.did()
	v1d := docSpec{id: D, vms: []vmSpec{{k1, relCapInv | relAssert}}}
	v1 := x.send("create D by k1", v1d.json(), k1.k, true, e.root)
	v2 := x.send("deactivate D", docSpec{id: D}.json(), k1.signer(k1.kid(D)), false, v1)
	x.send("update deactivated D prevs=[v2]", v1d.withService("a", "a").json(), k1.signer(k1.kid(D)), false, v2)
	x.send("update deactivated D prevs=[v1,v2]", v1d.withService("a", "a").json(), k1.signer(k1.kid(D)), false, v1, v2)
	x.show(D)
	doc, md, err := e.store.Resolve(D, &resolver.ResolveMetadata{AllowDeactivated: true})
	fmt.Println("   allowDeact:", err, md != nil && md.Deactivated, doc != nil && len(doc.CapabilityInvocation) > 0)
	x.send("recreate deactivated D with embedded k1 prevs=[root]", v1d.withService("b", "b").json(), k1.k, true, e.root)
	x.show(D)
	// recreate with removed key
	k3, k4 := newKey("k3"), newKey("k4")
	E := k3.did()
	e1d := docSpec{id: E, vms: []vmSpec{{k3, relCapInv}}}
	e1 := x.send("create E by k3", e1d.json(), k3.k, true, e.root)
	e2d := e1d.without(k3).with(k4, relCapInv)
	e2 := x.send("E rotate k3->k4", e2d.json(), k3.signer(k3.kid(E)), false, e1)
	x.send("recreate E embedded k3 prevs=[e2]", e1d.withService("z", "z").json(), k3.k, true, e2)
	x.show(E)
	// embedded relationship VM with bad ids
	k5, kx := newKey("k5"), newKey("kx")
	F := k5.did()
	f1d := docSpec{id: F, vms: []vmSpec{{k5, relCapInv}}}
	bad := mutate(f1d.json(), func(m map[string]any) {
		kxd := docSpec{id: kx.did(), vms: []vmSpec{{kx, relCapInv}}}
		var mm map[string]any
		_ = jsonUnmarshal(kxd.json(), &mm)
		vm := mm["verificationMethod"].([]any)[0].(map[string]any)
		vm["id"] = F.String() + "#wrong"
		m["capabilityInvocation"] = append(m["capabilityInvocation"].([]any), vm)
	})
	fmt.Println(string(bad))
	x.send("create F with embedded capInv VM id#wrong", bad, k5.k, true, e.root)
	x.show(F)
	_ = v2
	_ = time.Second
}

func jsonUnmarshal(b []byte, v any) error { return json.Unmarshal(b, v) }
