package c09

import (
	"context"
	"fmt"
	"testing"
	"time"

	"github.com/nuts-foundation/go-did/did"
	"github.com/nuts-foundation/nuts-node/network/dag"
	"github.com/nuts-foundation/nuts-node/vdr/resolver"
	"github.com/sirupsen/logrus"
	"io"
	"verif/lib/dagx"
	"verif/lib/ev"
)

type xp struct {
	e *env
	n int
}

func (x *xp) send(label string, payload []byte, signer *dagx.Key, attach bool, prevs ...dag.Transaction) dag.Transaction {
	x.n++
	tx := dagx.NewTx(signer, attach, payload, didnuts_type, t0.Add(time.Duration(x.n)*time.Second), nil, prevs...)
	err := x.e.st.Add(context.Background(), tx, payload)
	d := x.e.net.deliveries[tx.Ref()]
	var aerr error
	called := 0
	if d != nil {
		aerr = d.err
		called = d.called
	}
	fmt.Printf("%-50s dag=%v | amb called=%d err=%v\n", label, err, called, aerr)
	return tx
}

const didnuts_type = "application/did+json"

func (x *xp) show(id did.DID) {
	doc, md, err := x.e.store.Resolve(id, nil)
	if err != nil {
		fmt.Printf("   resolve %s: %v\n", id, err)
		return
	}
	var ci []string
	for _, c := range doc.CapabilityInvocation {
		ci = append(ci, c.ID.Fragment[:6])
	}
	fmt.Printf("   resolve %s: capInv=%v ctrl=%v srcs=%d deact=%v\n", id.ID[:6], ci, doc.Controller, len(md.SourceTransactions), md.Deactivated)
}

func TestExplore(t *testing.T) {
	logrus.SetOutput(io.Discard)
	r := ev.Start(t, "C09X", "exploration")
	e := newEnv(r)
	defer e.close()
	x := &xp{e: e}
	k1, k2 := newKey("k1"), newKey("k2")
	D := k1.did()
	v1d := docSpec{id: D, vms: []vmSpec{{k1, relCapInv | relAssert}}}
	v1 := x.send("create D by k1", v1d.json(), k1.k, true, e.root)
	v2d := v1d.without(k1).with(k2, relCapInv)
	v2 := x.send("v2 replace k1 by k2 (signed k1)", v2d.json(), k1.signer(k1.kid(D)), false, v1)
	x.show(D)
	v3d := v1d.withService("s1", "t1")
	x.send("removed k1 prevs=[v2,v1]", v3d.json(), k1.signer(k1.kid(D)), false, v2, v1)
	x.show(D)
	x.send("removed k1 prevs=[v2]", v3d.json(), k1.signer(k1.kid(D)), false, v2)
	x.send("removed k1 prevs=[v1,v2]", v3d.json(), k1.signer(k1.kid(D)), false, v1, v2)
	x.show(D)

	// controller scenarios
	kc, kc2, kd := newKey("kc"), newKey("kc2"), newKey("kd")
	C, DD := kc.did(), kd.did()
	c1d := docSpec{id: C, vms: []vmSpec{{kc, relCapInv}}}
	c1 := x.send("create C", c1d.json(), kc.k, true, e.root)
	d1d := docSpec{id: DD, vms: []vmSpec{{kd, relCapInv}}}
	d1 := x.send("create DD", d1d.json(), kd.k, true, e.root)
	d2d := d1d.clone()
	d2d.controllers = []did.DID{C}
	d2 := x.send("DD controller=C (signed kd)", d2d.json(), kd.signer(kd.kid(DD)), false, d1)
	x.send("DD own key after handing control prevs=[d2]", d2d.withService("a", "a").json(), kd.signer(kd.kid(DD)), false, d2)
	d3 := x.send("DD update by C key prevs=[d2,c1]", d2d.withService("b", "b").json(), kc.signer(kc.kid(C)), false, d2, c1)
	x.show(DD)
	d4 := x.send("DD update by C key prevs=[c1,d3]", d2d.withService("c", "c").json(), kc.signer(kc.kid(C)), false, c1, d3)
	x.show(DD)
	// rotate C's key
	c2d := c1d.without(kc).with(kc2, relCapInv)
	c2 := x.send("C rotate kc->kc2", c2d.json(), kc.signer(kc.kid(C)), false, c1)
	x.send("DD update by removed kc prevs=[d4,c2]", d2d.withService("d", "d").json(), kc.signer(kc.kid(C)), false, d4, c2)
	d5 := x.send("DD update by removed kc prevs=[d4,c1]", d2d.withService("e", "e").json(), kc.signer(kc.kid(C)), false, d4, c1)
	x.show(DD)
	// deactivate C
	c3d := docSpec{id: C}
	c3 := x.send("C deactivate (signed kc2)", c3d.json(), kc2.signer(kc2.kid(C)), false, c2)
	x.show(C)
	x.send("DD update by kc2 of deactivated C prevs=[d5,c3]", d2d.withService("f", "f").json(), kc2.signer(kc2.kid(C)), false, d5, c3)
	x.send("DD update by kc2 of deactivated C prevs=[d5,c2]", d2d.withService("g", "g").json(), kc2.signer(kc2.kid(C)), false, d5, c2)
	x.show(DD)
	x.send("DD update by kc2 of deactivated C prevs=[d5,c2,c3]", d2d.withService("h", "h").json(), kc2.signer(kc2.kid(C)), false, d5, c2, c3)
	x.show(DD)
	_, _, err := didnutsResolver(e).Resolve(DD, nil)
	fmt.Println("   didnuts.Resolver DD:", err)
	_ = resolver.ErrNotFound
}
