// Check C09: did:nuts documents change only by the DID's own key or a controller's key.
//
// Drives the REAL ambassador callback path with (transaction, document) pairs the harness signs itself:
// a real dag.State on bbolt with the production verifiers (prevs + signature verifier over
// dag.SourceTXKeyResolver{didstore}), the real ambassador subscribed on it through Start() (a scripted
// network.Transactions forwards Subscribe to State.Notifier exactly like network.Network does), the real didstore
// on bbolt, the real didnuts.Resolver and key resolvers. Nothing of the code under test is mocked; the fakes are
// the NATS reprocess stream (refuses the connection) and DiscoverServices.
//
// Oracle: every pair is classified MUST-ACCEPT / MUST-REJECT / UNSPECIFIED from the property text by the generator,
// using its own shadow of which accepted version each prev references. Rejected (any class) => snapshots of
// everything resolvable are identical. MUST-REJECT => rejected. MUST-ACCEPT => accepted and resolvable. Every
// accepted update, whatever its class, is checked against the global safety invariant (signer authorised by the
// version it succeeds); every accepted creation must have DID == thumbprint of the embedded key.
package c09

import (
	"context"
	"crypto"
	"crypto/sha256"
	"encoding/json"
	"errors"
	"fmt"
	"io"
	"math/rand"
	"os"
	"path/filepath"
	"sort"
	"strings"
	"sync"
	"testing"
	"time"

	"github.com/lestrrat-go/jwx/v2/jwk"
	"github.com/nats-io/nats.go"
	ssi "github.com/nuts-foundation/go-did"
	"github.com/nuts-foundation/go-did/did"
	"github.com/nuts-foundation/go-stoabs"
	"github.com/nuts-foundation/go-stoabs/bbolt"
	"github.com/nuts-foundation/nuts-node/core"
	nutsCrypto "github.com/nuts-foundation/nuts-node/crypto"
	"github.com/nuts-foundation/nuts-node/crypto/hash"
	"github.com/nuts-foundation/nuts-node/events"
	"github.com/nuts-foundation/nuts-node/network"
	"github.com/nuts-foundation/nuts-node/network/dag"
	"github.com/nuts-foundation/nuts-node/network/transport"
	"github.com/nuts-foundation/nuts-node/storage"
	"github.com/nuts-foundation/nuts-node/vdr/didnuts"
	"github.com/nuts-foundation/nuts-node/vdr/didnuts/didstore"
	"github.com/nuts-foundation/nuts-node/vdr/resolver"
	"github.com/sirupsen/logrus"
	"verif/lib/dagx"
	"verif/lib/ev"
)

// ---- environment -------------------------------------------------------------------------------------------

// provider hands the didstore its bbolt store (storage.Provider is the seam production uses).
type provider struct {
	dir    string
	mu     sync.Mutex
	stores map[string]stoabs.KVStore
}

func (p *provider) GetKVStore(name string, _ storage.Class) (stoabs.KVStore, error) {
	p.mu.Lock()
	defer p.mu.Unlock()
	if s, ok := p.stores[name]; ok {
		return s, nil
	}
	lg := logrus.New()
	lg.SetOutput(io.Discard)
	s, err := bbolt.CreateBBoltStore(filepath.Join(p.dir, name+".db"), stoabs.WithLogger(lg), stoabs.WithNoSync())
	if err != nil {
		return nil, err
	}
	p.stores[name] = s
	return s, nil
}

// noNats is the events.Event of a node whose NATS server is unreachable: Start() subscribes on the network first and
// then fails on the REPROCESS stream, which is not part of this property.
type noNats struct{}

var errNoNats = errors.New("verif: no NATS in this harness")

func (noNats) GetStream(string) events.Stream { return nil }
func (noNats) Pool() events.ConnectionPool    { return noNats{} }
func (noNats) Acquire(context.Context) (events.Conn, nats.JetStreamContext, error) {
	return nil, nil, errNoNats
}
func (noNats) Shutdown() {}

// delivery is what the harness observed for one transaction at the ambassador.
type delivery struct {
	called   int
	finished bool
	err      error
}

// scriptedNet is the network.Transactions the ambassador talks to. Subscribe does what network.Network.Subscribe does
// (register a notifier on the real dag.State with the options the ambassador passes) with a recording wrapper around the receiver.
type scriptedNet struct {
	st         dag.State
	db         stoabs.KVStore
	mu         sync.Mutex
	deliveries map[hash.SHA256Hash]*delivery
	subscribed int
	discovered int
}

func (n *scriptedNet) Subscribe(name string, receiver dag.ReceiverFn, options ...network.SubscriberOption) error {
	opts := make([]dag.NotifierOption, len(options))
	for i, o := range options {
		opts[i] = o()
	}
	n.subscribed++
	_, err := n.st.Notifier(name, func(e dag.Event) (bool, error) {
		fin, err := receiver(e)
		n.mu.Lock()
		d := n.deliveries[e.Hash]
		if d == nil {
			d = &delivery{}
			n.deliveries[e.Hash] = d
		}
		d.called++
		d.finished, d.err = fin, err
		n.mu.Unlock()
		return fin, err
	}, opts...)
	return err
}
func (n *scriptedNet) WithPersistency() network.SubscriberOption {
	return func() dag.NotifierOption { return dag.WithPersistency(n.db) }
}
func (n *scriptedNet) Subscribers() []dag.Notifier { return n.st.Notifiers() }
func (n *scriptedNet) GetTransactionPayload(ref hash.SHA256Hash) ([]byte, error) {
	tx, err := n.st.GetTransaction(context.Background(), ref)
	if err != nil {
		return nil, err
	}
	return n.st.ReadPayload(context.Background(), tx.PayloadHash())
}
func (n *scriptedNet) GetTransaction(ref hash.SHA256Hash) (dag.Transaction, error) {
	return n.st.GetTransaction(context.Background(), ref)
}
func (n *scriptedNet) CreateTransaction(context.Context, network.Template) (dag.Transaction, error) {
	return nil, errors.New("verif: not a publishing node")
}
func (n *scriptedNet) ListTransactionsInRange(a, b uint32) ([]dag.Transaction, error) {
	return n.st.FindBetweenLC(context.Background(), a, b)
}
func (n *scriptedNet) PeerDiagnostics() map[transport.PeerID]transport.Diagnostics { return nil }
func (n *scriptedNet) Reprocess(context.Context, string) (*network.ReprocessReport, error) {
	return nil, errors.New("verif: not supported")
}
func (n *scriptedNet) DiscoverServices(did.DID)         { n.mu.Lock(); n.discovered++; n.mu.Unlock() }
func (n *scriptedNet) AddressBook() []transport.Contact { return nil }
func (n *scriptedNet) Disabled() bool                   { return false }

type env struct {
	dir   string
	db    stoabs.KVStore
	prov  *provider
	st    dag.State
	store didstore.Store
	net   *scriptedNet
	root  dag.Transaction
	rootK *dagx.Key
}

func newEnv(r *ev.Run) *env {
	dir, err := os.MkdirTemp("", "c09-")
	if err != nil {
		r.Fatalf("tempdir: %v", err)
	}
	db, err := dagx.OpenStore(dir, false)
	if err != nil {
		r.Fatalf("open dag store: %v", err)
	}
	prov := &provider{dir: dir, stores: map[string]stoabs.KVStore{}}
	store := didstore.New(prov)
	if err := store.(core.Configurable).Configure(core.ServerConfig{}); err != nil {
		r.Fatalf("didstore configure: %v", err)
	}
	// as network.Network.Configure: prevs verifier + signature verifier resolving keys through the DID store by source transaction
	st, err := dag.NewState(db, dag.NewPrevTransactionsVerifier(), dag.NewTransactionSignatureVerifier(dag.SourceTXKeyResolver{Resolver: store}))
	if err != nil {
		r.Fatalf("dag state: %v", err)
	}
	dag.VerifLoadState(st)
	net := &scriptedNet{st: st, db: db, deliveries: map[hash.SHA256Hash]*delivery{}}
	amb := didnuts.NewAmbassador(net, store, noNats{})
	if err := amb.Configure(); err != nil {
		r.Fatalf("ambassador configure: %v", err)
	}
	if err := amb.Start(); !errors.Is(err, errNoNats) {
		r.Fatalf("ambassador start: expected to stop at the NATS connection after subscribing, got %v", err)
	}
	if net.subscribed != 1 {
		r.Fatalf("ambassador did not subscribe on the network (%d)", net.subscribed)
	}
	e := &env{dir: dir, db: db, prov: prov, st: st, store: store, net: net, rootK: dagx.NewKey("")}
	e.root = dagx.NewTx(e.rootK, true, []byte("root"), "application/x-verif", t0, nil)
	if err := st.Add(context.Background(), e.root, []byte("root")); err != nil {
		r.Fatalf("root transaction: %v", err)
	}
	return e
}

func (e *env) close() {
	_ = e.st.Shutdown()
	_ = e.db.Close(context.Background())
	for _, s := range e.prov.stores {
		_ = s.Close(context.Background())
	}
	_ = os.RemoveAll(e.dir)
}

var t0 = time.Unix(1700000000, 0).UTC()

// ---- keys and documents ----------------------------------------------------------------------------------------

type key struct {
	k     *dagx.Key
	name  string
	thumb string // Nuts thumbprint (base58): the id of a DID created with this key
	frag  string // RFC7638 thumbprint (base64url): the fragment of its key id
	raw   string // hex of the RFC7638 thumbprint: identity of the key for the harness
}

func newKey(name string) *key {
	k := dagx.NewKey("")
	th, err := nutsCrypto.Thumbprint(k.Pub)
	if err != nil {
		panic(err)
	}
	cp, _ := k.Pub.Clone()
	if err := jwk.AssignKeyID(cp); err != nil {
		panic(err)
	}
	return &key{k: k, name: name, thumb: th, frag: cp.KeyID(), raw: thumbOfJWK(k.Pub)}
}

func thumbOfJWK(j jwk.Key) string {
	t, err := j.Thumbprint(crypto.SHA256)
	if err != nil {
		return "?"
	}
	return fmt.Sprintf("%x", t)
}

func (k *key) did() did.DID             { return did.MustParseDID("did:nuts:" + k.thumb) }
func (k *key) kid(owner did.DID) string { return owner.String() + "#" + k.frag }

// signer returns the dagx key that signs with `kid` header = kid.
func (k *key) signer(kid string) *dagx.Key {
	return &dagx.Key{Priv: k.k.Priv, Pub: k.k.Pub, Kid: kid}
}

type rel uint

const (
	relCapInv rel = 1 << iota
	relAssert
	relAuthn
	relKeyAgr
	relCapDel
)

type vmSpec struct {
	k    *key
	rels rel
}

type svcSpec struct {
	frag, typ string
	endpoint  any
}

type docSpec struct {
	id          did.DID
	controllers []did.DID
	vms         []vmSpec
	services    []svcSpec
}

func (d docSpec) clone() docSpec {
	c := docSpec{id: d.id}
	c.controllers = append(c.controllers, d.controllers...)
	c.vms = append(c.vms, d.vms...)
	c.services = append(c.services, d.services...)
	return c
}

func (d docSpec) without(k *key) docSpec {
	c := d.clone()
	c.vms = nil
	for _, v := range d.vms {
		if v.k != k {
			c.vms = append(c.vms, v)
		}
	}
	return c
}

func (d docSpec) with(k *key, rels rel) docSpec {
	c := d.without(k)
	c.vms = append(c.vms, vmSpec{k, rels})
	return c
}

func (d docSpec) withService(frag, typ string) docSpec {
	c := d.clone()
	c.services = append(c.services, svcSpec{frag, typ, "https://" + frag + ".example/" + typ})
	return c
}

// build makes the go-did document the way the node's own manager does (CreateDocument + NewVerificationMethod + Add*).
func (d docSpec) build() did.Document {
	doc := didnuts.CreateDocument()
	doc.ID = d.id
	doc.Controller = append(doc.Controller, d.controllers...)
	for _, v := range d.vms {
		id := did.MustParseDIDURL(v.k.kid(d.id))
		vm, err := did.NewVerificationMethod(id, ssi.JsonWebKey2020, d.id, v.k.k.Priv.Public())
		if err != nil {
			panic(err)
		}
		doc.VerificationMethod.Add(vm)
		if v.rels&relCapInv != 0 {
			doc.CapabilityInvocation.Add(vm)
		}
		if v.rels&relAssert != 0 {
			doc.AssertionMethod.Add(vm)
		}
		if v.rels&relAuthn != 0 {
			doc.Authentication.Add(vm)
		}
		if v.rels&relKeyAgr != 0 {
			doc.KeyAgreement.Add(vm)
		}
		if v.rels&relCapDel != 0 {
			doc.CapabilityDelegation.Add(vm)
		}
	}
	for _, s := range d.services {
		doc.Service = append(doc.Service, did.Service{ID: ssi.MustParseURI(d.id.String() + "#" + s.frag), Type: s.typ, ServiceEndpoint: s.endpoint})
	}
	return doc
}

func (d docSpec) json() []byte {
	b, err := json.Marshal(d.build())
	if err != nil {
		panic(err)
	}
	return b
}

// mutate applies f to the generic JSON form of the document.
func mutate(doc []byte, f func(m map[string]any)) []byte {
	var m map[string]any
	if err := json.Unmarshal(doc, &m); err != nil {
		panic(err)
	}
	f(m)
	b, err := json.Marshal(m)
	if err != nil {
		panic(err)
	}
	return b
}

func sum(b []byte) string { h := sha256.Sum256(b); return fmt.Sprintf("%x", h[:6]) }

func didnutsResolver(e *env) didnuts.Resolver { return didnuts.Resolver{Store: e.store} }

// ---- shadow: what the harness knows was accepted ---------------------------------------------------------------

type class int

const (
	mustAccept class = iota
	mustReject
	unspecified
)

func (c class) String() string { return [...]string{"MUST-ACCEPT", "MUST-REJECT", "UNSPECIFIED"}[c] }

// sver is one accepted (transaction, document) of a DID.
type sver struct {
	ref      hash.SHA256Hash
	prevs    []hash.SHA256Hash
	capInv   map[string]bool // RFC7638 thumbprints (hex) of the keys under capabilityInvocation
	vmIDs    map[string]bool // ids under verificationMethod
	ctrl     []string
	deact    bool    // document without controllers and without capabilityInvocation keys
	embedded bool    // arrived in a transaction with an embedded key
	n        int     // position among the accepted versions of its DID
	co       []*sver // versions that were heads together with this one at some time: the store resolves the transaction of one
	// branch of a conflict to the merged version, so the text's "version it succeeds" is the merge there
}

type sdid struct {
	id   string
	vers []*sver
}

// heads are the accepted versions no other accepted version of the DID names in its prevs: the source transactions of
// the current latest version (several = conflicted).
func (d *sdid) heads() []*sver {
	if d == nil {
		return nil
	}
	refd := map[hash.SHA256Hash]bool{}
	for _, v := range d.vers {
		for _, p := range v.prevs {
			refd[p] = true
		}
	}
	var out []*sver
	for _, v := range d.vers {
		if !refd[v.ref] {
			out = append(out, v)
		}
	}
	return out
}

func (d *sdid) isHead(v *sver) bool {
	for _, h := range d.heads() {
		if h == v {
			return true
		}
	}
	return false
}

func (d *sdid) deactivated() bool {
	if d == nil {
		return false
	}
	for _, v := range d.vers {
		if v.deact {
			return true
		}
	}
	return false
}

func (d *sdid) byRef(ref hash.SHA256Hash) *sver {
	if d == nil {
		return nil
	}
	for _, v := range d.vers {
		if v.ref.Equals(ref) {
			return v
		}
	}
	return nil
}

func newSver(doc *did.Document, ref hash.SHA256Hash, prevs []hash.SHA256Hash, embedded bool) *sver {
	v := &sver{ref: ref, prevs: prevs, capInv: map[string]bool{}, vmIDs: map[string]bool{}, embedded: embedded}
	for _, c := range doc.CapabilityInvocation {
		if j, err := c.JWK(); err == nil && j != nil {
			v.capInv[thumbOfJWK(j)] = true
		}
	}
	for _, m := range doc.VerificationMethod {
		v.vmIDs[m.ID.String()] = true
	}
	for _, c := range doc.Controller {
		v.ctrl = append(v.ctrl, c.String())
	}
	v.deact = len(doc.Controller) == 0 && len(doc.CapabilityInvocation) == 0
	return v
}

// ---- one (transaction, document) pair -----------------------------------------------------------------------------

type pair struct {
	kind     string  // stable label of what the generator intends (e.g. "update/removed-key")
	target   did.DID // the DID the document claims
	payload  []byte
	signer   *key
	kidOwner *did.DID // nil: the key is embedded in the transaction (creation style)
	kidKey   *key     // key whose id is put in the kid header (default: signer)
	prevs    []dag.Transaction
	invalid  string // the validator rule the document violates ("" = well-formed as far as the generator knows)
	unspec   string // generator-declared unspecified class for well-formedness questions the text does not decide
}

// analysis is what the property text says about a pair, given the shadow.
type analysis struct {
	cls      class
	reason   string
	violKey  string // key of the violation if the pair is accepted although cls == mustReject
	pattern  string // roles of the prevs, in order
	unspecOn string // class to count under Unspecified when accepted (or when observed at all for cls == unspecified)
}

type outcome struct {
	accepted  bool
	layer     string // "dag" | "ambassador" | "accepted"
	err       string
	panicked  string
	delivered int
}

type caseResult struct {
	scenario string
	kind     string
	pattern  string
	an       analysis
	out      outcome
	snapDiff []string
	snapN    int
	viol     []violation
	unspec   []string
	incon    []string
	sample   map[string]any
	store1   bool // the store held at least one accepted version when the pair arrived
	invEval  bool
}

type violation struct {
	key, what string
	witness   any
}

type scenario struct {
	name     string
	e        *env
	rnd      *rand.Rand
	dids     map[string]*sdid
	order    []string // DIDs in the scenario (existing or only claimed), for snapshots
	refs     []hash.SHA256Hash
	sigts    []time.Time
	hashes   map[hash.SHA256Hash]bool
	kids     map[string]bool
	n        int
	results  []*caseResult
	log      []string
	accepted int
	admitted map[hash.SHA256Hash]bool // transactions the DAG admitted
	aborted  string
}

func newScenario(r *ev.Run, name string, rnd *rand.Rand) *scenario {
	return &scenario{name: name, e: newEnv(r), rnd: rnd, dids: map[string]*sdid{}, hashes: map[hash.SHA256Hash]bool{}, kids: map[string]bool{}, admitted: map[hash.SHA256Hash]bool{}}
}

func (s *scenario) noteDID(id string) {
	for _, o := range s.order {
		if o == id {
			return
		}
	}
	s.order = append(s.order, id)
}

// authorises: is key k (thumbprint) listed for capability invocation by a controller of version v of DID d, the
// controllers' documents taken as currently accepted (not deactivated, current heads).
func (s *scenario) authorises(d *sdid, v *sver, k string) bool {
	if len(v.ctrl) == 0 {
		return v.capInv[k]
	}
	for _, c := range v.ctrl {
		if c == d.id {
			if v.capInv[k] {
				return true
			}
			continue
		}
		cd := s.dids[c]
		if cd == nil || cd.deactivated() {
			continue
		}
		for _, h := range cd.heads() {
			if h.capInv[k] {
				return true
			}
		}
	}
	return false
}

// refAuthorises: does the version the store could mean by a reference to v (v itself or a merge v was part of) authorise k.
func (s *scenario) refAuthorises(d *sdid, v *sver, k string) (bool, bool) {
	if s.authorises(d, v, k) {
		return true, false
	}
	for _, c := range v.co {
		if s.authorises(d, c, k) {
			return true, true
		}
	}
	return false, false
}

func containsRef(l []hash.SHA256Hash, r hash.SHA256Hash) bool {
	for _, x := range l {
		if x.Equals(r) {
			return true
		}
	}
	return false
}

func (s *scenario) prevPattern(p *pair) string {
	var parts []string
	for _, t := range p.prevs {
		role := "other"
		if t.Ref().Equals(s.e.root.Ref()) {
			role = "root"
		} else if containsRef(s.refs, t.Ref()) {
			role = "rejected-tx"
		}
		for _, id := range s.order {
			d := s.dids[id]
			if v := d.byRef(t.Ref()); v != nil {
				who := "other-did"
				if id == p.target.String() {
					who = "own"
				} else if p.kidOwner != nil && id == p.kidOwner.String() {
					who = "signer-did"
				}
				age := "old"
				if d.isHead(v) {
					age = "latest"
				}
				if v.deact {
					age += "+deactivation"
				}
				role = who + ":" + age
			}
		}
		parts = append(parts, role)
	}
	return strings.Join(parts, ",")
}

// analyse classifies a pair from the property text.
func (s *scenario) analyse(p *pair) analysis {
	a := analysis{pattern: s.prevPattern(p)}
	if p.invalid != "" {
		a.cls, a.reason = mustReject, "document violates: "+p.invalid
		a.violKey = "C09/invalid-document-accepted/" + ruleSite(p.invalid) // rule names carry their variant after a '/'
		if strings.HasPrefix(p.invalid, "embedded-method-") {
			a.violKey = "C09/validator/embedded-relationship-method"
		}
		return a
	}
	if p.unspec != "" {
		a.cls, a.reason, a.unspecOn = unspecified, p.unspec, p.unspec
		return a
	}
	d := s.dids[p.target.String()]
	k := p.signer.raw
	if p.kidOwner == nil {
		switch {
		case p.target.ID != p.signer.thumb:
			a.cls, a.reason = mustReject, "creation: DID is not the thumbprint of the embedded key"
			a.violKey = "C09/create-accepted/" + strings.TrimPrefix(p.kind, "create/")
		case d == nil || len(d.vers) == 0:
			a.cls, a.reason = mustAccept, "creation: DID equals the thumbprint of the embedded key"
		default:
			a.cls, a.reason, a.unspecOn = unspecified, "transaction with the DID's embedded creation key for a DID that already exists", "embedded-key-tx-for-existing-did"
		}
		return a
	}
	generic := "C09/unauthorised-update-accepted/" + strings.TrimPrefix(p.kind, "update/")
	if d == nil || len(d.vers) == 0 {
		a.cls, a.reason, a.violKey = mustReject, "update of a DID without any version to succeed", "C09/update-accepted/no-version-to-succeed"
		return a
	}
	heads := d.heads()
	prevRefs := make([]hash.SHA256Hash, len(p.prevs))
	for i, t := range p.prevs {
		prevRefs[i] = t.Ref()
	}
	covers := true
	for _, h := range heads {
		if !containsRef(prevRefs, h.ref) {
			covers = false
		}
	}
	var refd []*sver
	firstHeadPos, firstOldAuthPos := -1, -1
	for i, r := range prevRefs {
		if v := d.byRef(r); v != nil {
			refd = append(refd, v)
			if d.isHead(v) {
				if firstHeadPos < 0 {
					firstHeadPos = i
				}
			} else if ok, _ := s.refAuthorises(d, v, k); firstOldAuthPos < 0 && ok {
				firstOldAuthPos = i
			}
		}
	}
	authHead := false
	for _, h := range heads {
		if s.authorises(d, h, k) {
			authHead = true
		}
	}
	if len(refd) == 0 {
		anyVer := false
		for _, v := range d.vers {
			if ok, _ := s.refAuthorises(d, v, k); ok {
				anyVer = true
			}
		}
		if !anyVer {
			a.cls, a.reason, a.violKey = mustReject, "no prev names a version of the DID and no version of the DID authorises the signer", generic
		} else {
			a.cls, a.reason, a.unspecOn = unspecified, "no prev names a version of the DID (legacy resolution)", "no-prev-resolves"
		}
		return a
	}
	if covers {
		if authHead {
			if why := s.unclean(p, d, heads, refd, prevRefs); why != "" {
				a.cls, a.reason, a.unspecOn = unspecified, "signer authorised by the latest version; "+why, "authorised-"+strings.SplitN(why, ":", 2)[0]
			} else {
				a.cls, a.reason = mustAccept, "signer listed for capability invocation by a controller of the latest version, which the prevs name"
			}
			return a
		}
		a.cls, a.reason = mustReject, "prevs name the latest version and the signer is not listed for capability invocation by any of its controllers"
		a.violKey = generic
		// which stale version could have let it through
		if firstOldAuthPos >= 0 {
			if firstOldAuthPos < firstHeadPos {
				a.violKey = "C09/removed-key/prevs-old-version-first"
			} else {
				a.violKey = "C09/removed-key/prevs-old-version-later"
			}
			return a
		}
		for _, h := range heads {
			for _, c := range h.ctrl {
				cd := s.dids[c]
				if c == d.id || cd == nil {
					continue
				}
				stale, newer := false, false
				for _, v := range cd.vers {
					if !containsRef(prevRefs, v.ref) {
						continue
					}
					if v.capInv[k] && (cd.deactivated() || !cd.isHead(v)) {
						stale = true
					} else if !v.capInv[k] {
						newer = true
					}
				}
				if stale {
					what := "removed-key"
					if cd.deactivated() {
						what = "deactivated-controller"
					}
					if !newer {
						// prevs name ONLY a version of the controller that still listed the key: the update is causally concurrent with the
						// controller's key removal / deactivation, and "a controller of the version it succeeds" does not say which version of
						// the controller's document counts (coordinator decision): observed, never alarmed
						a.cls, a.violKey, a.unspecOn = unspecified, "", "controller-concurrent-stale-version"
						a.reason = "signer was listed by the controller version the prevs name; the controller removed the key / was deactivated in a version the prevs do not name"
						return a
					}
					a.violKey = "C09/" + what + "/prevs-controller-old-and-new-version"
					return a
				}
			}
		}
		return a
	}
	// fork: the prevs do not name all source transactions of the latest version
	for _, v := range refd {
		if ok, merged := s.refAuthorises(d, v, k); ok {
			a.cls, a.reason, a.unspecOn = unspecified, "forks from an older version that authorises the signer", "fork-from-old-version"
			if merged {
				a.reason, a.unspecOn = "names one branch of a conflict; another branch of that merge authorises the signer", "branch-of-conflicted-version"
			}
			return a
		}
	}
	a.cls, a.reason, a.violKey = mustReject, "forks from versions none of which authorises the signer", generic
	return a
}

// unclean says why an authorised update is not the plain case the harness demands acceptance of ("" = plain).
func (s *scenario) unclean(p *pair, d *sdid, heads, refd []*sver, prevRefs []hash.SHA256Hash) string {
	if len(heads) != 1 {
		return "conflicted: the latest version is a merge"
	}
	if d.deactivated() {
		return "deactivated: the DID has been deactivated"
	}
	if len(refd) != 1 {
		return "old-versions-named: prevs also name older versions of the DID"
	}
	kk := p.signer
	if p.kidKey != nil {
		kk = p.kidKey
	}
	if kk != p.signer {
		return "kid-mismatch: kid names another key than the one that signed"
	}
	kid := kk.kid(*p.kidOwner)
	if p.kidOwner.String() == d.id {
		if !heads[0].vmIDs[kid] {
			return "kid-unresolvable: the kid is not a verification method of the latest version"
		}
		self := len(heads[0].ctrl) == 0
		for _, c := range heads[0].ctrl {
			self = self || c == d.id
		}
		if !self {
			return "controller-chain: the kid is of the DID itself, which is controlled by another DID only"
		}
		return ""
	}
	od := s.dids[p.kidOwner.String()]
	if od == nil || od.deactivated() {
		return "kid-unresolvable: signer DID unknown or deactivated"
	}
	oh := od.heads()
	if len(oh) != 1 {
		return "conflicted: the signer DID is conflicted"
	}
	n := 0
	for _, v := range od.vers {
		if containsRef(prevRefs, v.ref) {
			n++
		}
	}
	if n != 1 || !containsRef(prevRefs, oh[0].ref) {
		return "controller-version: prevs do not name exactly the latest version of the signer DID"
	}
	if !oh[0].vmIDs[kid] {
		return "kid-unresolvable: the kid is not a verification method of the signer DID"
	}
	for _, c := range oh[0].ctrl {
		if c != od.id {
			return "controller-chain: the signer DID has a controller of its own"
		}
	}
	return ""
}

// ---- snapshots --------------------------------------------------------------------------------------------------------

var relTypes = []struct {
	name string
	t    resolver.RelationType
}{{"authentication", resolver.Authentication}, {"assertionMethod", resolver.AssertionMethod}, {"keyAgreement", resolver.KeyAgreement},
	{"capabilityInvocation", resolver.CapabilityInvocation}, {"capabilityDelegation", resolver.CapabilityDelegation}}

func fmtMeta(md *resolver.DocumentMetadata) string {
	if md == nil {
		return "-"
	}
	src := make([]string, len(md.SourceTransactions))
	for i, t := range md.SourceTransactions {
		src[i] = t.String()[:10]
	}
	sort.Strings(src)
	upd, prev := "-", "-"
	if md.Updated != nil {
		upd = fmt.Sprint(md.Updated.Unix())
	}
	if md.PreviousHash != nil {
		prev = md.PreviousHash.String()[:10]
	}
	return fmt.Sprintf("hash=%s prev=%s created=%d updated=%s txs=%v deactivated=%v", md.Hash.String()[:10], prev, md.Created.Unix(), upd, src, md.Deactivated)
}

func descDoc(doc *did.Document) string {
	var ci []string
	for _, c := range doc.CapabilityInvocation {
		ci = append(ci, c.ID.String())
	}
	sort.Strings(ci)
	b, _ := json.Marshal(doc)
	return fmt.Sprintf("doc=%s capInv=%v controllers=%v", sum(b), ci, doc.Controller)
}

func pubThumb(pk any) string {
	j, err := jwk.FromRaw(pk)
	if err != nil {
		return "?"
	}
	return thumbOfJWK(j)[:12]
}

// snap records everything resolvable for every DID of the scenario.
func (s *scenario) snap() map[string]string {
	out := map[string]string{}
	st := s.e.store
	nr := didnutsResolver(s.e)
	put := func(k string, doc *did.Document, md *resolver.DocumentMetadata, err error) {
		if err != nil {
			out[k] = "ERR " + err.Error()
			return
		}
		if md != nil {
			s.hashes[md.Hash] = true
		}
		out[k] = descDoc(doc) + " " + fmtMeta(md)
	}
	hashes := make([]hash.SHA256Hash, 0, len(s.hashes))
	for h := range s.hashes {
		hashes = append(hashes, h)
	}
	future := t0.Add(1000 * time.Hour)
	keyRes := resolver.DIDKeyResolver{Resolver: nr}
	txKeyStore := dag.SourceTXKeyResolver{Resolver: st}
	txKeyRes := dag.SourceTXKeyResolver{Resolver: nr}
	for _, ids := range s.order {
		id, err := did.ParseDID(ids)
		if err != nil {
			continue
		}
		doc, md, err := st.Resolve(*id, nil)
		put(ids+"|store/latest", doc, md, err)
		doc, md, err = st.Resolve(*id, &resolver.ResolveMetadata{AllowDeactivated: true})
		put(ids+"|store/latest+deactivated", doc, md, err)
		doc, md, err = nr.Resolve(*id, nil)
		put(ids+"|resolver/latest", doc, md, err)
		doc, md, err = st.Resolve(*id, &resolver.ResolveMetadata{ResolveTime: &future})
		put(ids+"|store/time=future", doc, md, err)
		for i := max(0, len(s.sigts)-6); i < len(s.sigts); i++ { // the signing times of the latest transactions (legacy resolution goes by time)
			doc, md, err = st.Resolve(*id, &resolver.ResolveMetadata{ResolveTime: &s.sigts[i]})
			put(fmt.Sprintf("%s|store/time=%d", ids, s.sigts[i].Unix()), doc, md, err)
		}
		for i := range s.refs {
			doc, md, err = st.Resolve(*id, &resolver.ResolveMetadata{SourceTransaction: &s.refs[i], AllowDeactivated: true})
			put(ids+"|store/tx="+s.refs[i].String()[:10], doc, md, err)
			doc, md, err = nr.Resolve(*id, &resolver.ResolveMetadata{SourceTransaction: &s.refs[i]})
			put(ids+"|resolver/tx="+s.refs[i].String()[:10], doc, md, err)
		}
		for i := range hashes {
			doc, md, err = st.Resolve(*id, &resolver.ResolveMetadata{Hash: &hashes[i], AllowDeactivated: true})
			put(ids+"|store/hash="+hashes[i].String()[:10], doc, md, err)
		}
		for _, rt := range relTypes {
			kid, pk, err := keyRes.ResolveKey(*id, nil, rt.t)
			if err != nil {
				out[ids+"|key/"+rt.name] = "ERR " + err.Error()
			} else {
				out[ids+"|key/"+rt.name] = kid + " " + pubThumb(pk)
			}
		}
	}
	kids := make([]string, 0, len(s.kids))
	for k := range s.kids {
		kids = append(kids, k)
	}
	sort.Strings(kids)
	for _, kid := range kids {
		for _, rt := range relTypes {
			pk, err := keyRes.ResolveKeyByID(kid, nil, rt.t)
			if err != nil {
				out["kid "+kid+"|"+rt.name] = "ERR " + err.Error()
			} else {
				out["kid "+kid+"|"+rt.name] = pubThumb(pk)
			}
		}
		for i := range s.refs {
			pk, err := txKeyStore.ResolvePublicKey(kid, s.refs[i:i+1])
			if err != nil {
				out["kid "+kid+"|dag/tx="+s.refs[i].String()[:10]] = "ERR " + err.Error()
			} else {
				out["kid "+kid+"|dag/tx="+s.refs[i].String()[:10]] = pubThumb(pk)
			}
		}
		// the ambassador's own key resolver (controllers must be active), over all transactions at once
		pk, err := txKeyRes.ResolvePublicKey(kid, s.refs)
		if err != nil {
			out["kid "+kid+"|vdr/tx=any"] = "ERR " + err.Error()
		} else {
			out["kid "+kid+"|vdr/tx=any"] = pubThumb(pk)
		}
	}
	var conflicted []string
	_ = st.Conflicted(func(doc did.Document, md resolver.DocumentMetadata) error {
		conflicted = append(conflicted, doc.ID.String()+" "+descDoc(&doc)+" "+fmtMeta(&md))
		return nil
	})
	sort.Strings(conflicted)
	out["conflicted"] = strings.Join(conflicted, " ; ")
	cc, err1 := st.ConflictedCount()
	dc, err2 := st.DocumentCount()
	out["counts"] = fmt.Sprintf("conflicted=%d(%v) documents=%d(%v)", cc, err1, dc, err2)
	var all []string
	_ = st.Iterate(func(doc did.Document, md resolver.DocumentMetadata) error {
		all = append(all, doc.ID.String()+" "+descDoc(&doc)+" "+fmtMeta(&md))
		return nil
	})
	sort.Strings(all)
	out["iterate"] = strings.Join(all, " ; ")
	if len(s.hashes) > len(hashes) {
		// this pass met version hashes (merges) it did not know: look those up as well
		return s.snap()
	}
	return out
}

func diffSnap(a, b map[string]string) []string {
	var d []string
	for k, v := range a {
		if w, ok := b[k]; !ok {
			d = append(d, k+": gone (was "+v+")")
		} else if w != v {
			d = append(d, k+": "+v+"  =>  "+w)
		}
	}
	for k, v := range b {
		if _, ok := a[k]; !ok {
			d = append(d, k+": new "+v)
		}
	}
	sort.Strings(d)
	return d
}

// ---- submitting a pair and judging the outcome ---------------------------------------------------------------------------

func (s *scenario) nextSigt() time.Time {
	s.n++
	return t0.Add(time.Duration(s.n) * time.Minute)
}

// submit sends the pair through the real DAG + ambassador and evaluates the oracle. It returns the transaction and whether it was accepted.
func (s *scenario) submit(p *pair) (dag.Transaction, bool) {
	s.noteDID(p.target.String())
	if p.kidOwner != nil {
		s.noteDID(p.kidOwner.String())
	}
	res := &caseResult{scenario: s.name, kind: p.kind}
	s.results = append(s.results, res)
	for _, d := range s.dids {
		if len(d.vers) > 0 {
			res.store1 = true
		}
	}
	// the harness' own reading of the document (go-did, not the code under test): which key ids it mentions
	var parsed *did.Document
	if doc, err := did.ParseDocument(string(p.payload)); err == nil {
		parsed = doc
		for _, m := range doc.VerificationMethod {
			s.kids[m.ID.String()] = true
		}
	} else if p.invalid == "" && p.unspec == "" {
		res.incon = append(res.incon, "generator produced a document go-did cannot parse without declaring it invalid: "+err.Error())
	}
	an := s.analyse(p)
	res.an, res.pattern = an, an.pattern

	sigt := s.nextSigt()
	var tx dag.Transaction
	if p.kidOwner == nil {
		tx = dagx.NewTx(p.signer.k, true, p.payload, didnuts.DIDDocumentType, sigt, nil, p.prevs...)
	} else {
		kk := p.signer
		if p.kidKey != nil {
			kk = p.kidKey
		}
		kid := kk.kid(*p.kidOwner)
		s.kids[kid] = true
		tx = dagx.NewTx(p.signer.signer(kid), false, p.payload, didnuts.DIDDocumentType, sigt, nil, p.prevs...)
	}
	s.refs = append(s.refs, tx.Ref())
	s.sigts = append(s.sigts, sigt)
	s.hashes[tx.PayloadHash()] = true

	before := s.snap()
	var dagErr error
	func() {
		defer func() {
			if x := recover(); x != nil {
				res.out.panicked = fmt.Sprint(x)
			}
		}()
		dagErr = s.e.st.Add(context.Background(), tx, p.payload)
	}()
	if dagErr == nil && res.out.panicked == "" {
		s.admitted[tx.Ref()] = true
	}
	s.e.net.mu.Lock()
	dl := s.e.net.deliveries[tx.Ref()]
	s.e.net.mu.Unlock()
	switch {
	case res.out.panicked != "":
		res.out.layer = "panic"
	case dagErr != nil:
		res.out.layer, res.out.err = "dag", dagErr.Error()
	case dl == nil:
		res.out.layer = "not-delivered"
		res.incon = append(res.incon, "transaction admitted by the DAG but never delivered to the ambassador")
	case dl.err != nil:
		res.out.layer, res.out.err, res.out.delivered = "ambassador", dl.err.Error(), dl.called
	case !dl.finished:
		res.out.layer, res.out.delivered = "ambassador", dl.called
		res.out.err = "receiver returned (false, nil)"
	default:
		res.out.layer, res.out.accepted, res.out.delivered = "accepted", true, dl.called
	}
	var after map[string]string
	if !res.out.accepted {
		after = s.snap()
		res.snapN = len(after)
	}

	witness := func() map[string]any {
		w := map[string]any{"scenario": s.name, "history": append([]string{}, s.log...), "kind": p.kind, "class": an.cls.String(), "reason": an.reason,
			"prevs": an.pattern, "document": string(p.payload), "transaction": string(tx.Data()), "signer_key": p.signer.name,
			"outcome": res.out.layer, "error": res.out.err}
		return w
	}
	line := fmt.Sprintf("%s [%s] signer=%s prevs=[%s] -> %s", p.kind, an.cls, p.signer.name, an.pattern, res.out.layer)
	s.log = append(s.log, line)

	if res.out.panicked != "" {
		res.viol = append(res.viol, violation{"C09/panic/ambassador.handleNetworkEvent", "panic while processing a DID document transaction: " + res.out.panicked, witness()})
		return tx, false
	}
	if !res.out.accepted {
		// rejected, whatever the class: nothing resolvable may have changed
		if diff := diffSnap(before, after); len(diff) > 0 {
			res.snapDiff = diff
			w := witness()
			w["snapshot_diff"] = diff
			res.viol = append(res.viol, violation{"C09/rejected-but-changed/" + kindTail(p.kind), fmt.Sprintf("document rejected at the %s (%s) but what is resolvable changed: %s", res.out.layer, res.out.err, strings.Join(diff[:min(3, len(diff))], " | ")), w})
		}
		if an.cls == mustAccept {
			res.viol = append(res.viol, violation{"C09/must-accept-rejected/" + kindTail(p.kind), fmt.Sprintf("%s rejected at the %s: %s (%s)", p.kind, res.out.layer, res.out.err, an.reason), witness()})
		}
		if an.cls == unspecified {
			res.unspec = append(res.unspec, an.unspecOn+"/rejected")
		}
		return tx, false
	}

	// accepted
	s.accepted++
	res.invEval = true
	d := s.dids[p.target.String()]
	switch an.cls {
	case mustReject:
		w := witness()
		w["snapshot_diff"] = diffSnap(before, s.snap())
		res.viol = append(res.viol, violation{an.violKey, fmt.Sprintf("%s accepted and resolvable although: %s (prevs=[%s])", p.kind, an.reason, an.pattern), w})
	case unspecified:
		res.unspec = append(res.unspec, an.unspecOn+"/accepted")
	}
	if p.kidOwner == nil && p.target.ID != p.signer.thumb {
		// global invariant for creations, independent of the generator's class
		res.viol = append(res.viol, violation{"C09/create-accepted/did-not-thumbprint-of-embedded-key", "a creation was accepted whose DID is not the thumbprint of the embedded key", witness()})
	}
	// the new version must be resolvable by its transaction
	ref := tx.Ref()
	doc, md, err := s.e.store.Resolve(p.target, &resolver.ResolveMetadata{SourceTransaction: &ref, AllowDeactivated: true})
	if an.cls == mustAccept {
		ldoc, lmd, lerr := s.e.store.Resolve(p.target, &resolver.ResolveMetadata{AllowDeactivated: true})
		switch {
		case err != nil || lerr != nil:
			res.viol = append(res.viol, violation{"C09/must-accept-not-resolvable/" + kindTail(p.kind), fmt.Sprintf("accepted but not resolvable: by tx: %v, latest: %v", err, lerr), witness()})
		case !md.Hash.Equals(tx.PayloadHash()) || !lmd.Hash.Equals(tx.PayloadHash()) || len(lmd.SourceTransactions) != 1 || !lmd.SourceTransactions[0].Equals(ref):
			res.viol = append(res.viol, violation{"C09/must-accept-not-resolvable/" + kindTail(p.kind), fmt.Sprintf("accepted but the DID does not resolve to the new version: by tx %s, latest %s", fmtMeta(md), fmtMeta(lmd)), witness()})
		default:
			_, _ = doc, ldoc
		}
	}
	// shadow
	if parsed == nil {
		// accepted a document the harness could not parse: keep the shadow going with what the store returns
		if err == nil {
			parsed = doc
		} else {
			parsed = &did.Document{ID: p.target}
		}
	}
	if d == nil {
		d = &sdid{id: p.target.String()}
		s.dids[d.id] = d
	}
	prevRefs := make([]hash.SHA256Hash, len(p.prevs))
	for i, t := range p.prevs {
		prevRefs[i] = t.Ref()
	}
	v := newSver(parsed, ref, prevRefs, p.kidOwner == nil)
	v.n = len(d.vers)
	d.vers = append(d.vers, v)
	if hs := d.heads(); len(hs) > 1 {
		for _, x := range hs {
			for _, y := range hs {
				if x != y {
					dup := false
					for _, z := range x.co {
						dup = dup || z == y
					}
					if !dup {
						x.co = append(x.co, y)
					}
				}
			}
		}
	}
	// self-check of the shadow: the source transactions of the stored latest version are the heads
	if _, lmd, lerr := s.e.store.Resolve(p.target, &resolver.ResolveMetadata{AllowDeactivated: true}); lerr == nil {
		want := map[string]bool{}
		for _, h := range d.heads() {
			want[h.ref.String()] = true
		}
		ok := len(want) == len(lmd.SourceTransactions)
		for _, t := range lmd.SourceTransactions {
			if !want[t.String()] {
				ok = false
			}
		}
		if !ok {
			res.incon = append(res.incon, fmt.Sprintf("shadow and store disagree on the source transactions of the latest version of %s after %s", p.target, line))
		}
	}
	return tx, true
}

func kindTail(kind string) string { return strings.ReplaceAll(kind, "/", "-") }

// ---- the check ---------------------------------------------------------------------------------------------------------------

func TestCheck(t *testing.T) {
	logrus.SetOutput(io.Discard)
	logrus.SetLevel(logrus.PanicLevel)
	r := ev.Start(t, "C09", "exploration")
	defer r.Finish()
	r.SetRule("cases = (transaction, document) pairs signed by the harness and submitted to a real dag.State (prevs + signature verifiers) with the real did:nuts ambassador subscribed on it, " +
		"over generated histories (creations, own-key updates, key removal/demotion, deactivation, controllers, controller key removal/deactivation, controller change, controller chains of depth 1-6, " +
		"every validator rule - the uniqueness rules also with realistic mixed-case / non-ASCII service types and fragments in several positions -, update-style transactions for DIDs without any known version " +
		"whose payload claims the signer's DID as controller or the signer's key as its own, seeded random walks), prevs orderings permuted. Each pair is classified MUST-ACCEPT/MUST-REJECT/UNSPECIFIED from the property text with the harness' shadow of accepted versions; " +
		"every rejection is compared by before/after snapshots of everything resolvable for all DIDs of the scenario. A case is non-trivial when the pair reached the real code with a decided outcome " +
		"(and, for updates, the store held at least one accepted version); distinct by (kind, roles of the prevs in order, class, outcome, rejecting layer).")
	r.Require(r.Pick(100, 1000), r.Pick(40, 150))
	r.Assume("bbolt stores; one node; transactions arrive one at a time (arrival-order questions belong to C10)")
	r.Assume("a controller's document is taken as currently accepted when judging whether its key may update a controlled DID (DESIGN C09); " +
		"an update whose prevs name only a controller version that still listed the key (causally concurrent with the removal/deactivation) is unspecified: controller-concurrent-stale-version")
	r.Assume("the NATS REPROCESS stream of the ambassador is not part of the path (Start() subscribes on the network first; the harness' event manager then refuses the connection)")

	js := jobs(r.Thorough(), r.Rand("jobs"))
	done := make([]*scenario, len(js))
	var wg sync.WaitGroup
	sem := make(chan struct{}, 12)
	for i := range js {
		wg.Add(1)
		sem <- struct{}{}
		go func(i int) {
			defer wg.Done()
			defer func() { <-sem }()
			s := newScenario(r, js[i].name, r.Rand("scenario/"+js[i].name))
			defer s.e.close()
			done[i] = s
			defer func() {
				if x := recover(); x != nil {
					if a, ok := x.(abort); ok {
						s.aborted = a.why
						return
					}
					panic(x)
				}
			}()
			js[i].run(s)
		}(i)
	}
	wg.Wait()

	type cell struct{ Accepted, RejectedDAG, RejectedAmbassador int }
	table := map[string]*cell{}
	sampled := map[string]bool{}
	for _, s := range done {
		if s.aborted != "" {
			r.Inconclusive(fmt.Sprintf("scenario %s stopped early: set-up step not accepted: %s", s.name, s.aborted))
		}
		r.Count("scenarios", 1)
		for _, c := range s.results {
			fp := strings.Join([]string{c.kind, c.pattern, c.an.cls.String(), c.out.layer}, "|")
			decided := c.out.layer == "accepted" || c.out.layer == "dag" || c.out.layer == "ambassador"
			r.Case(fp, decided && (c.store1 || strings.HasPrefix(c.kind, "create/")))
			key := c.an.cls.String() + " " + c.kind
			if table[key] == nil {
				table[key] = &cell{}
			}
			switch c.out.layer {
			case "accepted":
				table[key].Accepted++
				r.Count("accepted", 1)
			case "dag":
				table[key].RejectedDAG++
				r.Count("rejected_by_dag_verifier", 1)
			case "ambassador":
				table[key].RejectedAmbassador++
				r.Count("rejected_by_ambassador", 1)
			}
			r.Count("class_"+c.an.cls.String(), 1)
			if !c.out.accepted && c.out.layer != "panic" {
				r.Count("snapshots_compared", 1)
				r.Count("snapshot_entries_compared", c.snapN)
			}
			if c.invEval {
				r.Count("invariant_evaluations_on_accepted", 1)
			}
			r.Distinct("kinds", c.kind)
			r.Distinct("prevs_patterns", c.pattern)
			for _, u := range c.unspec {
				r.Unspecified(u)
			}
			for _, m := range c.incon {
				r.Inconclusive(m)
			}
			for _, v := range c.viol {
				r.Violation(v.key, v.what, v.witness)
			}
			if !sampled[c.kind] && (strings.Contains(c.kind, "removed-key") || strings.Contains(c.kind, "foreign-key") || strings.Contains(c.kind, "invalid-document") || strings.Contains(c.kind, "controller-key") || strings.Contains(c.kind, "unknown-did")) {
				sampled[c.kind] = true
				r.Sample(map[string]any{"scenario": c.scenario, "kind": c.kind, "prevs": c.pattern, "class": c.an.cls.String(), "reason": c.an.reason, "outcome": c.out.layer, "error": c.out.err, "snapshot_entries": c.snapN})
			}
		}
	}
	r.Extra("cases_by_class_and_kind", table)
}
