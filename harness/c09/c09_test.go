// Check C09: did:nuts documents change only by the DID's own key or a controller's key.
//
// Drives the REAL ambassador callback path with (transaction, document) pairs the harness signs itself:
// a real dag.State on bbolt with the production verifiers (prevs + signature verifier over
// dag.SourceTXKeyResolver{didstore}), the real ambassador subscribed on it through Start() (a scripted
// network.Transactions forwards Subscribe to State.Notifier exactly like network.Network does), the real didstore
// on bbolt, the real didnuts.Resolver and key resolvers. Nothing of the code under test is mocked; the fakes are
// the NATS reprocess stream (refuses the connection) and DiscoverServices.
//
// Oracle: every pair is classified MUST-ACCEPT / MUST-REJECT / UNSPECIFIED from the property text by the generator,
// using its own shadow of which accepted version each prev references. Rejected (any class) => snapshots of
// everything resolvable are identical. MUST-REJECT => rejected. MUST-ACCEPT => accepted and resolvable. Every
// accepted update, whatever its class, is checked against the global safety invariant (signer authorised by the
// version it succeeds); every accepted creation must have DID == thumbprint of the embedded key.
package c09

import (
	"context"
	"crypto"
	"crypto/sha256"
	"encoding/json"
	"errors"
	"fmt"
	"io"
	"math/rand"
	"os"
	"path/filepath"
	"sort"
	"strings"
	"sync"
	"testing"
	"time"

	"github.com/lestrrat-go/jwx/v2/jwk"
	"github.com/nats-io/nats.go"
	ssi "github.com/nuts-foundation/go-did"
	"github.com/nuts-foundation/go-did/did"
	"github.com/nuts-foundation/go-stoabs"
	"github.com/nuts-foundation/go-stoabs/bbolt"
	"github.com/nuts-foundation/nuts-node/core"
	nutsCrypto "github.com/nuts-foundation/nuts-node/crypto"
	"github.com/nuts-foundation/nuts-node/crypto/hash"
	"github.com/nuts-foundation/nuts-node/events"
	"github.com/nuts-foundation/nuts-node/network"
	"github.com/nuts-foundation/nuts-node/network/dag"
	"github.com/nuts-foundation/nuts-node/network/transport"
	"github.com/nuts-foundation/nuts-node/storage"
	"github.com/nuts-foundation/nuts-node/vdr/didnuts"
	"github.com/nuts-foundation/nuts-node/vdr/didnuts/didstore"
	"github.com/nuts-foundation/nuts-node/vdr/resolver"
	"github.com/sirupsen/logrus"
	"verif/lib/dagx"
	"verif/lib/ev"
)

// ---- environment -------------------------------------------------------------------------------------------

// provider hands the didstore its bbolt store (storage.Provider is the seam production uses).
type provider struct {
	dir    string
	mu     sync.Mutex
	stores map[string]stoabs.KVStore
}

func (p *provider) GetKVStore(name string, _ storage.Class) (stoabs.KVStore, error) {
	p.mu.Lock()
	defer p.mu.Unlock()
	if s, ok := p.stores[name]; ok {
		return s, nil
	}
	lg := logrus.New()
	lg.SetOutput(io.Discard)
	s, err := bbolt.CreateBBoltStore(filepath.Join(p.dir, name+".db"), stoabs.WithLogger(lg), stoabs.WithNoSync())
	if err != nil {
		return nil, err
	}
	p.stores[name] = s
	return s, nil
}

// noNats is the events.Event of a node whose NATS server is unreachable: Start() subscribes on the network first and
// then fails on the REPROCESS stream, which is not part of this property.
type noNats struct{}

var errNoNats = errors.New("verif: no NATS in this harness")

func (noNats) GetStream(string) events.Stream { return nil }
func (noNats) Pool() events.ConnectionPool    { return noNats{} }
func (noNats) Acquire(context.Context) (events.Conn, nats.JetStreamContext, error) {
	return nil, nil, errNoNats
}
func (noNats) Shutdown() {}

// delivery is what the harness observed for one transaction at the ambassador.
type delivery struct {
	called   int
	finished bool
	err      error
}

// scriptedNet is the network.Transactions the ambassador talks to. Subscribe does what network.Network.Subscribe does
// (register a notifier on the real dag.State with the options the ambassador passes) with a recording wrapper around the receiver.
type scriptedNet struct {
	st         dag.State
	db         stoabs.KVStore
	mu         sync.Mutex
	deliveries map[hash.SHA256Hash]*delivery
	subscribed int
	discovered int
}

func (n *scriptedNet) Subscribe(name string, receiver dag.ReceiverFn, options ...network.SubscriberOption) error {
	opts := make([]dag.NotifierOption, len(options))
	for i, o := range options {
		opts[i] = o()
	}
	n.subscribed++
	_, err := n.st.Notifier(name, func(e dag.Event) (bool, error) {
		fin, err := receiver(e)
		n.mu.Lock()
		d := n.deliveries[e.Hash]
		if d == nil {
			d = &delivery{}
			n.deliveries[e.Hash] = d
		}
		d.called++
		d.finished, d.err = fin, err
		n.mu.Unlock()
		return fin, err
	}, opts...)
	return err
}
func (n *scriptedNet) WithPersistency() network.SubscriberOption {
	return func() dag.NotifierOption { return dag.WithPersistency(n.db) }
}
func (n *scriptedNet) Subscribers() []dag.Notifier { return n.st.Notifiers() }
func (n *scriptedNet) GetTransactionPayload(ref hash.SHA256Hash) ([]byte, error) {
	tx, err := n.st.GetTransaction(context.Background(), ref)
	if err != nil {
		return nil, err
	}
	return n.st.ReadPayload(context.Background(), tx.PayloadHash())
}
func (n *scriptedNet) GetTransaction(ref hash.SHA256Hash) (dag.Transaction, error) {
	return n.st.GetTransaction(context.Background(), ref)
}
func (n *scriptedNet) CreateTransaction(context.Context, network.Template) (dag.Transaction, error) {
	return nil, errors.New("verif: not a publishing node")
}
func (n *scriptedNet) ListTransactionsInRange(a, b uint32) ([]dag.Transaction, error) {
	return n.st.FindBetweenLC(context.Background(), a, b)
}
func (n *scriptedNet) PeerDiagnostics() map[transport.PeerID]transport.Diagnostics { return nil }
func (n *scriptedNet) Reprocess(context.Context, string) (*network.ReprocessReport, error) {
	return nil, errors.New("verif: not supported")
}
func (n *scriptedNet) DiscoverServices(did.DID)         { n.mu.Lock(); n.discovered++; n.mu.Unlock() }
func (n *scriptedNet) AddressBook() []transport.Contact { return nil }
func (n *scriptedNet) Disabled() bool                   { return false }

type env struct {
	dir   string
	db    stoabs.KVStore
	prov  *provider
	st    dag.State
	store didstore.Store
	net   *scriptedNet
	root  dag.Transaction
	rootK *dagx.Key
}

func newEnv(r *ev.Run) *env {
	dir, err := os.MkdirTemp("", "c09-")
	if err != nil {
		r.Fatalf("tempdir: %v", err)
	}
	db, err := dagx.OpenStore(dir, false)
	if err != nil {
		r.Fatalf("open dag store: %v", err)
	}
	prov := &provider{dir: dir, stores: map[string]stoabs.KVStore{}}
	store := didstore.New(prov)
	if err := store.(core.Configurable).Configure(core.ServerConfig{}); err != nil {
		r.Fatalf("didstore configure: %v", err)
	}
	// as network.Network.Configure: prevs verifier + signature verifier resolving keys through the DID store by source transaction
	st, err := dag.NewState(db, dag.NewPrevTransactionsVerifier(), dag.NewTransactionSignatureVerifier(dag.SourceTXKeyResolver{Resolver: store}))
	if err != nil {
		r.Fatalf("dag state: %v", err)
	}
	dag.VerifLoadState(st)
	net := &scriptedNet{st: st, db: db, deliveries: map[hash.SHA256Hash]*delivery{}}
	amb := didnuts.NewAmbassador(net, store, noNats{})
	if err := amb.Configure(); err != nil {
		r.Fatalf("ambassador configure: %v", err)
	}
	if err := amb.Start(); !errors.Is(err, errNoNats) {
		r.Fatalf("ambassador start: expected to stop at the NATS connection after subscribing, got %v", err)
	}
	if net.subscribed != 1 {
		r.Fatalf("ambassador did not subscribe on the network (%d)", net.subscribed)
	}
	e := &env{dir: dir, db: db, prov: prov, st: st, store: store, net: net, rootK: dagx.NewKey("")}
	e.root = dagx.NewTx(e.rootK, true, []byte("root"), "application/x-verif", t0, nil)
	if err := st.Add(context.Background(), e.root, []byte("root")); err != nil {
		r.Fatalf("root transaction: %v", err)
	}
	return e
}

func (e *env) close() {
	_ = e.st.Shutdown()
	_ = e.db.Close(context.Background())
	for _, s := range e.prov.stores {
		_ = s.Close(context.Background())
	}
	_ = os.RemoveAll(e.dir)
}

var t0 = time.Unix(1700000000, 0).UTC()

// ---- keys and documents ----------------------------------------------------------------------------------------

type key struct {
	k     *dagx.Key
	name  string
	thumb string // Nuts thumbprint (base58): the id of a DID created with this key
	frag  string // RFC7638 thumbprint (base64url): the fragment of its key id
	raw   string // hex of the RFC7638 thumbprint: identity of the key for the harness
}

func newKey(name string) *key {
	k := dagx.NewKey("")
	th, err := nutsCrypto.Thumbprint(k.Pub)
	if err != nil {
		panic(err)
	}
	cp, _ := k.Pub.Clone()
	if err := jwk.AssignKeyID(cp); err != nil {
		panic(err)
	}
	return &key{k: k, name: name, thumb: th, frag: cp.KeyID(), raw: thumbOfJWK(k.Pub)}
}

func thumbOfJWK(j jwk.Key) string {
	t, err := j.Thumbprint(crypto.SHA256)
	if err != nil {
		return "?"
	}
	return fmt.Sprintf("%x", t)
}

func (k *key) did() did.DID            { return did.MustParseDID("did:nuts:" + k.thumb) }
func (k *key) kid(owner did.DID) string { return owner.String() + "#" + k.frag }

// signer returns the dagx key that signs with `kid` header = kid.
func (k *key) signer(kid string) *dagx.Key {
	return &dagx.Key{Priv: k.k.Priv, Pub: k.k.Pub, Kid: kid}
}

type rel uint

const (
	relCapInv rel = 1 << iota
	relAssert
	relAuthn
	relKeyAgr
	relCapDel
)

type vmSpec struct {
	k    *key
	rels rel
}

type svcSpec struct {
	frag, typ string
	endpoint  any
}

type docSpec struct {
	id          did.DID
	controllers []did.DID
	vms         []vmSpec
	services    []svcSpec
}

func (d docSpec) clone() docSpec {
	c := docSpec{id: d.id}
	c.controllers = append(c.controllers, d.controllers...)
	c.vms = append(c.vms, d.vms...)
	c.services = append(c.services, d.services...)
	return c
}

func (d docSpec) without(k *key) docSpec {
	c := d.clone()
	c.vms = nil
	for _, v := range d.vms {
		if v.k != k {
			c.vms = append(c.vms, v)
		}
	}
	return c
}

func (d docSpec) with(k *key, rels rel) docSpec {
	c := d.without(k)
	c.vms = append(c.vms, vmSpec{k, rels})
	return c
}

func (d docSpec) withService(frag, typ string) docSpec {
	c := d.clone()
	c.services = append(c.services, svcSpec{frag, typ, "https://" + frag + ".example/" + typ})
	return c
}

// build makes the go-did document the way the node's own manager does (CreateDocument + NewVerificationMethod + Add*).
func (d docSpec) build() did.Document {
	doc := didnuts.CreateDocument()
	doc.ID = d.id
	doc.Controller = append(doc.Controller, d.controllers...)
	for _, v := range d.vms {
		id := did.MustParseDIDURL(v.k.kid(d.id))
		vm, err := did.NewVerificationMethod(id, ssi.JsonWebKey2020, d.id, v.k.k.Priv.Public())
		if err != nil {
			panic(err)
		}
		doc.VerificationMethod.Add(vm)
		if v.rels&relCapInv != 0 {
			doc.CapabilityInvocation.Add(vm)
		}
		if v.rels&relAssert != 0 {
			doc.AssertionMethod.Add(vm)
		}
		if v.rels&relAuthn != 0 {
			doc.Authentication.Add(vm)
		}
		if v.rels&relKeyAgr != 0 {
			doc.KeyAgreement.Add(vm)
		}
		if v.rels&relCapDel != 0 {
			doc.CapabilityDelegation.Add(vm)
		}
	}
	for _, s := range d.services {
		doc.Service = append(doc.Service, did.Service{ID: ssi.MustParseURI(d.id.String() + "#" + s.frag), Type: s.typ, ServiceEndpoint: s.endpoint})
	}
	return doc
}

func (d docSpec) json() []byte {
	b, err := json.Marshal(d.build())
	if err != nil {
		panic(err)
	}
	return b
}

// mutate applies f to the generic JSON form of the document.
func mutate(doc []byte, f func(m map[string]any)) []byte {
	var m map[string]any
	if err := json.Unmarshal(doc, &m); err != nil {
		panic(err)
	}
	f(m)
	b, err := json.Marshal(m)
	if err != nil {
		panic(err)
	}
	return b
}

func sum(b []byte) string { h := sha256.Sum256(b); return fmt.Sprintf("%x", h[:6]) }

var _ = rand.Int
var _ = sort.Strings
var _ = strings.Join
var _ resolver.RelationType

func didnutsResolver(e *env) didnuts.Resolver { return didnuts.Resolver{Store: e.store} }
var _ *testing.T
