package c09

// Generators of histories and (transaction, document) pairs for check C09. Every random choice comes from the
// scenario's seeded PRNG; classification is never done here (scenario.analyse derives it from the property text and the shadow),
// the generators only say what they intend a pair to be (kind) and which validator rule a document breaks.

import (
	"fmt"
	"math/rand"
	"strings"

	"github.com/nuts-foundation/go-did/did"
	"github.com/nuts-foundation/nuts-node/network/dag"
)

// hdid is the generator's handle on a DID it has (tried to) put in the store.
type hdid struct {
	k    *key
	id   did.DID
	spec docSpec
	txs  []dag.Transaction // accepted transactions, in order
}

func (h *hdid) latest() dag.Transaction { return h.txs[len(h.txs)-1] }

type abort struct{ why string }

// need aborts the scenario when a set-up step was not accepted (the step itself has been judged already).
func (s *scenario) need(ok bool, what string) {
	if !ok {
		panic(abort{what})
	}
}

var svcTypes = []string{"NutsComm", "node-contact-info", "oauth", "eOverdracht-sender", "fhir", "notification"}

func (s *scenario) key(name string) *key { return newKey(name) }

// randShape gives the creation key capabilityInvocation plus random other relationships, and 0-2 services.
func (s *scenario) randShape(k *key) docSpec {
	rels := relCapInv
	for _, r := range []rel{relAssert, relAuthn, relKeyAgr, relCapDel} {
		if s.rnd.Intn(2) == 0 {
			rels |= r
		}
	}
	d := docSpec{id: k.did(), vms: []vmSpec{{k, rels}}}
	perm := s.rnd.Perm(len(svcTypes))
	for i := 0; i < s.rnd.Intn(3); i++ {
		d = d.withService(fmt.Sprintf("svc%d", i), svcTypes[perm[i]])
	}
	return d
}

func (s *scenario) nextService(d docSpec) docSpec {
	used := map[string]bool{}
	for _, sv := range d.services {
		used[sv.typ] = true
	}
	n := len(d.services)
	for i := 0; ; i++ {
		t := fmt.Sprintf("type-%d", n+i)
		if !used[t] {
			return d.withService(fmt.Sprintf("s%d", n+i), t)
		}
	}
}

// withRoot puts the root transaction (not a DID document) at a random position in some of the prevs lists.
func (s *scenario) withRoot(prevs []dag.Transaction) []dag.Transaction {
	if s.rnd.Intn(3) != 0 {
		return prevs
	}
	pos := s.rnd.Intn(len(prevs) + 1)
	out := append([]dag.Transaction{}, prevs[:pos]...)
	out = append(out, s.e.root)
	return append(out, prevs[pos:]...)
}

func (s *scenario) shuffled(prevs ...dag.Transaction) []dag.Transaction {
	out := append([]dag.Transaction{}, prevs...)
	s.rnd.Shuffle(len(out), func(i, j int) { out[i], out[j] = out[j], out[i] })
	return out
}

// mkDID creates a DID (a creation pair: judged like every other pair).
func (s *scenario) mkDID(name string, spec func(k *key) docSpec) *hdid {
	k := s.key(name)
	h := &hdid{k: k, id: k.did()}
	if spec != nil {
		h.spec = spec(k)
	} else {
		h.spec = s.randShape(k)
	}
	tx, ok := s.submit(&pair{kind: "create/correct-key", target: h.id, payload: h.spec.json(), signer: k, prevs: []dag.Transaction{s.e.root}})
	s.need(ok, "creation of "+name)
	h.txs = append(h.txs, tx)
	return h
}

// apply submits an update of h to spec; on acceptance the handle follows.
func (s *scenario) apply(h *hdid, kind string, spec docSpec, signer *key, owner *hdid, prevs []dag.Transaction) (dag.Transaction, bool) {
	tx, ok := s.submit(&pair{kind: kind, target: h.id, payload: spec.json(), signer: signer, kidOwner: &owner.id, prevs: prevs})
	if ok {
		h.spec = spec
		h.txs = append(h.txs, tx)
	}
	return tx, ok
}

// arrangements returns every ordered non-empty subset of items.
func arrangements[T any](items []T) [][]T {
	var out [][]T
	var rec func(cur []T, used []bool)
	rec = func(cur []T, used []bool) {
		if len(cur) > 0 {
			out = append(out, append([]T{}, cur...))
		}
		for i := range items {
			if !used[i] {
				used[i] = true
				rec(append(cur, items[i]), used)
				used[i] = false
			}
		}
	}
	rec(nil, make([]bool, len(items)))
	return out
}

type job struct {
	name string
	run  func(s *scenario)
}

// ---- creations ------------------------------------------------------------------------------------------------------------

func famCreation(s *scenario) {
	a := s.mkDID("a", nil)
	kv, kx := s.key("victim"), s.key("attacker")
	vdoc := s.randShape(kv)
	// somebody else's key embedded for the victim's DID (document is exactly what the victim would publish)
	s.submit(&pair{kind: "create/foreign-key", target: kv.did(), payload: vdoc.json(), signer: kx, prevs: s.withRoot([]dag.Transaction{s.e.root})})
	// ... and a document that lists the attacker's key for the victim's DID
	take := docSpec{id: kv.did(), vms: []vmSpec{{kx, relCapInv | relAssert}}}
	s.submit(&pair{kind: "create/foreign-key", target: kv.did(), payload: take.json(), signer: kx, prevs: []dag.Transaction{s.e.root}})
	// a "creation" of a DID that exists already, by a foreign key
	takeA := docSpec{id: a.id, vms: []vmSpec{{kx, relCapInv}}}
	s.submit(&pair{kind: "create/foreign-key-existing-did", target: a.id, payload: takeA.json(), signer: kx, prevs: s.withRoot([]dag.Transaction{a.latest()})})
	s.submit(&pair{kind: "create/foreign-key-existing-did", target: a.id, payload: takeA.json(), signer: kx, prevs: []dag.Transaction{s.e.root}})
	// DID that is not the thumbprint of the embedded key
	kn := s.key("n")
	for _, v := range []struct{ name, id string }{
		{"random-id", kx.thumb[:len(kx.thumb)-3] + "abc"},
		{"other-keys-thumbprint", kv.thumb},
		{"rfc7638-thumbprint-as-id", kn.frag},
		{"thumbprint-with-suffix", kn.thumb + "x"},
		{"thumbprint-lowercased", strings.ToLower(kn.thumb)},
		{"thumbprint-percent-escaped", fmt.Sprintf("%%%02X", kn.thumb[0]) + kn.thumb[1:]}, // another DID string that merely unescapes to the thumbprint
	} {
		if v.id == kn.thumb {
			continue
		}
		id := did.MustParseDID("did:nuts:" + v.id)
		d := docSpec{id: id, vms: []vmSpec{{kn, relCapInv | relAssert}}}
		s.submit(&pair{kind: "create/did-not-thumbprint/" + v.name, target: id, payload: d.json(), signer: kn, prevs: []dag.Transaction{s.e.root}})
	}
	// update-style transactions (kid, no embedded key) for a DID that does not exist
	ndoc := s.randShape(kn)
	owner := kn.did()
	s.submit(&pair{kind: "update/nonexistent-did/own-key", target: kn.did(), payload: ndoc.json(), signer: kn, kidOwner: &owner, prevs: []dag.Transaction{s.e.root}})
	s.submit(&pair{kind: "update/nonexistent-did/other-did-key", target: kn.did(), payload: ndoc.json(), signer: a.k, kidOwner: &a.id, prevs: s.shuffled(a.latest(), s.e.root)})
	// the victim's and n's real creations still work afterwards
	s.submit(&pair{kind: "create/correct-key", target: kv.did(), payload: vdoc.json(), signer: kv, prevs: []dag.Transaction{s.e.root}})
	s.submit(&pair{kind: "create/correct-key", target: kn.did(), payload: ndoc.json(), signer: kn, prevs: s.withRoot([]dag.Transaction{s.e.root})})
	// the creation key embedded again for the existing DID (text does not say whether this is a creation): observed only
	s.submit(&pair{kind: "create/existing-did-by-creation-key", target: a.id, payload: s.nextService(a.spec).json(), signer: a.k, prevs: []dag.Transaction{a.latest()}})
}

// famRecreate: the creation key, after the DID removed it, embedded in a new transaction for the DID (observed, unspecified).
func famRecreate(s *scenario) {
	b := s.mkDID("b", nil)
	k2 := s.key("k2")
	_, ok := s.apply(b, "update/own-key", b.spec.without(b.k).with(k2, relCapInv|relAssert), b.k, b, []dag.Transaction{b.latest()})
	s.need(ok, "rotation")
	back := docSpec{id: b.id, vms: []vmSpec{{b.k, relCapInv}}}
	prevs := [][]dag.Transaction{{b.latest()}, {b.txs[0]}, {s.e.root}}[s.rnd.Intn(3)]
	s.submit(&pair{kind: "create/existing-did-by-removed-creation-key", target: b.id, payload: back.json(), signer: b.k, prevs: prevs})
}

// famRepublish: a party that controls nothing of the DID republishes an OLD version of its document byte for byte (so the payload
// hash equals that of a version the store already holds), with prevs naming the old version first / alone / last.
func famRepublish(s *scenario) {
	a := s.mkDID("a", nil)
	b := s.mkDID("b", nil)
	k2 := s.key("k2")
	old := b.spec
	_, ok := s.apply(b, "update/own-key", b.spec.without(b.k).with(k2, relCapInv|relAssert), b.k, b, []dag.Transaction{b.latest()})
	s.need(ok, "rotation")
	first, latest := b.txs[0], b.latest()
	own := a.latest() // a transaction of the outsider's own DID, so that the DAG can resolve its signing key at all
	for _, prevs := range [][]dag.Transaction{{first, latest, own}, {first, own}, {first, own, latest}, {latest, first, own}, {latest, own}, {own, first, latest},
		s.withRoot([]dag.Transaction{first, latest, own}), {first, latest}} {
		s.submit(&pair{kind: "update/non-controller-did-key/republished-old-version", target: b.id, payload: old.json(), signer: a.k, kidOwner: &a.id, prevs: prevs})
	}
}

// ---- updates by keys of the DID itself ---------------------------------------------------------------------------------------

func famOwnKey(s *scenario) {
	k2, k3, kx := s.key("k2"), s.key("k3"), s.key("kx")
	nonCap := []rel{relAssert, relAuthn, relKeyAgr, relAssert | relAuthn, relAssert | relAuthn | relKeyAgr | relCapDel}
	d := s.mkDID("d", func(k *key) docSpec {
		return s.randShape(k).with(k2, nonCap[s.rnd.Intn(len(nonCap))]).with(k3, relCapDel)
	})
	for i := s.rnd.Intn(3); i > 0; i-- {
		_, ok := s.apply(d, "update/own-key", s.nextService(d.spec), d.k, d, s.withRoot([]dag.Transaction{d.latest()}))
		s.need(ok, "own-key update")
	}
	probes := func() {
		// a key of the document that is not under capabilityInvocation tries to promote itself
		s.apply(d, "update/non-capinv-key", d.spec.with(k2, relCapInv|relAssert), k2, d, s.withRoot([]dag.Transaction{d.latest()}))
		s.apply(d, "update/non-capinv-key", s.nextService(d.spec), k3, d, []dag.Transaction{d.latest()})
		if len(d.txs) > 1 {
			s.apply(d, "update/non-capinv-key", d.spec.with(k2, relCapInv), k2, d, s.shuffled(d.latest(), d.txs[0]))
		}
		// a key the DID never had
		s.apply(d, "update/unknown-key", d.spec.with(kx, relCapInv), kx, d, []dag.Transaction{d.latest()})
		// kid of the authorised key, signature by another key
		s.submit(&pair{kind: "update/kid-of-authorised-key-signed-by-other-key", target: d.id, payload: d.spec.with(kx, relCapInv).json(), signer: kx, kidKey: d.k, kidOwner: &d.id, prevs: []dag.Transaction{d.latest()}})
	}
	probes()
	_, ok := s.apply(d, "update/own-key", s.nextService(d.spec), d.k, d, s.withRoot([]dag.Transaction{d.latest()}))
	s.need(ok, "own-key update")
	probes()
	// a second capabilityInvocation key added by the first may update as well
	k4 := s.key("k4")
	_, ok = s.apply(d, "update/own-key", d.spec.with(k4, relCapInv), d.k, d, []dag.Transaction{d.latest()})
	s.need(ok, "add second capInv key")
	s.apply(d, "update/own-key", s.nextService(d.spec), k4, d, s.withRoot([]dag.Transaction{d.latest()}))
}

// famRemovedKey: v1 by k1; v2 (signed k1) removes k1 (or keeps it under assertionMethod only); optionally v3 by k2.
// The probe is signed by k1 and names the arrangement #idx of the DID's versions.
func famRemovedKey(demoted bool, versions, idx int) func(s *scenario) {
	return func(s *scenario) {
		k2 := s.key("k2")
		d := s.mkDID("d", func(k *key) docSpec { return docSpec{id: k.did(), vms: []vmSpec{{k, relCapInv | relAssert}}} })
		v2 := d.spec.without(d.k).with(k2, relCapInv)
		kind := "update/removed-key"
		if demoted {
			v2 = v2.with(d.k, relAssert|relAuthn)
			kind = "update/demoted-key"
		}
		_, ok := s.apply(d, "update/own-key", v2, d.k, d, s.withRoot([]dag.Transaction{d.latest()}))
		s.need(ok, "key replacement")
		for len(d.txs) < versions {
			_, ok := s.apply(d, "update/own-key", s.nextService(d.spec), k2, d, []dag.Transaction{d.latest()})
			s.need(ok, "update by new key")
		}
		arr := arrangements(d.txs)
		prevs := arr[idx%len(arr)]
		takeover := docSpec{id: d.id, vms: []vmSpec{{d.k, relCapInv | relAssert}}}
		s.apply(d, kind, takeover, d.k, d, s.withRoot(prevs))
		// whatever happened: the key that is authorised now (per the shadow) is still judged correctly afterwards
		s.apply(d, "update/non-capinv-key", s.nextService(d.spec), s.key("ky"), d, []dag.Transaction{d.latest()})
	}
}

func famDeactivatedDID(idx int) func(s *scenario) {
	return func(s *scenario) {
		d := s.mkDID("d", nil)
		if s.rnd.Intn(2) == 0 {
			_, ok := s.apply(d, "update/own-key", s.nextService(d.spec), d.k, d, []dag.Transaction{d.latest()})
			s.need(ok, "update")
		}
		active := d.spec
		_, ok := s.apply(d, "update/own-key/deactivation", docSpec{id: d.id}, d.k, d, s.withRoot([]dag.Transaction{d.latest()}))
		s.need(ok, "deactivation")
		arr := arrangements(d.txs)
		s.apply(d, "update/deactivated-did-former-key", s.nextService(active), d.k, d, arr[idx%len(arr)])
		if s.rnd.Intn(2) == 0 {
			s.submit(&pair{kind: "create/existing-did-by-creation-key/deactivated", target: d.id, payload: active.json(), signer: d.k, prevs: s.shuffled(d.latest(), s.e.root)[:1+s.rnd.Intn(2)]})
		}
	}
}

// ---- controllers -------------------------------------------------------------------------------------------------------------

// famController: D hands control to C (controller=[C]) or shares it (controller=[D,C]) or lists two controllers.
func famController(style int) func(s *scenario) {
	return func(s *scenario) {
		kca := s.key("c-assert")
		c := s.mkDID("c", func(k *key) docSpec { return s.randShape(k).with(kca, relAssert|relAuthn) })
		a := s.mkDID("attacker", nil)
		d := s.mkDID("d", nil)
		var c2 *hdid
		ctl := d.spec.clone()
		switch style {
		case 0:
			ctl.controllers = []did.DID{c.id}
		case 1:
			ctl.controllers = []did.DID{d.id, c.id}
			if s.rnd.Intn(2) == 0 {
				ctl.controllers = []did.DID{c.id, d.id}
			}
		default:
			c2 = s.mkDID("c2", nil)
			ctl.controllers = []did.DID{c2.id, c.id}
		}
		_, ok := s.apply(d, "update/own-key/set-controller", ctl, d.k, d, s.withRoot([]dag.Transaction{d.latest()}))
		s.need(ok, "setting the controller")
		if style == 2 {
			// one of the two controllers is deactivated: the other one keeps control
			_, ok := s.apply(c2, "update/own-key/deactivation", docSpec{id: c2.id}, c2.k, c2, []dag.Transaction{c2.latest()})
			s.need(ok, "deactivation of c2")
		}
		probes := func() {
			if style == 0 || style == 2 {
				// D's own capabilityInvocation key after control was handed over
				s.apply(d, "update/own-key-after-handover", s.nextService(d.spec), d.k, d, s.withRoot([]dag.Transaction{d.latest()}))
				back := d.spec.clone()
				back.controllers = nil
				s.apply(d, "update/own-key-after-handover", back, d.k, d, s.shuffled(d.latest(), c.latest()))
			}
			// the controller's key that is not under capabilityInvocation
			s.apply(d, "update/controller-non-capinv-key", s.nextService(d.spec), kca, c, s.shuffled(d.latest(), c.latest()))
			// a DID that is not a controller
			steal := d.spec.clone()
			steal.controllers = []did.DID{a.id}
			s.apply(d, "update/non-controller-did-key", steal, a.k, a, s.shuffled(d.latest(), a.latest()))
			s.apply(d, "update/non-controller-did-key", steal, a.k, a, s.withRoot(s.shuffled(d.latest(), a.latest(), c.latest())))
			s.apply(d, "update/non-controller-did-key", steal, a.k, a, []dag.Transaction{a.latest()})
		}
		probes()
		_, ok = s.apply(d, "update/controller-key", s.nextService(d.spec), c.k, c, s.withRoot(s.shuffled(d.latest(), c.latest())))
		s.need(ok, "update by controller")
		if style == 1 {
			_, ok = s.apply(d, "update/own-key", s.nextService(d.spec), d.k, d, s.withRoot([]dag.Transaction{d.latest()}))
			s.need(ok, "update by own key while sharing control")
		}
		probes()
		if style == 2 {
			s.apply(d, "update/deactivated-controller-key", s.nextService(d.spec), c2.k, c2, s.shuffled(d.latest(), c2.latest()))
			s.apply(d, "update/deactivated-controller-key", s.nextService(d.spec), c2.k, c2, s.shuffled(d.latest(), c2.txs[0]))
		}
		s.apply(d, "update/controller-key", s.nextService(d.spec), c.k, c, s.shuffled(d.latest(), c.latest()))
	}
}

// famControllerStale: C's key is removed from C (rotation) or C is deactivated after D made C its controller (or before, `late`).
// The probe is signed by C's former key; prevs = D's latest version placed into arrangement #idx of C's versions.
func famControllerStale(deactivate, late bool, idx int) func(s *scenario) {
	return func(s *scenario) {
		c := s.mkDID("c", func(k *key) docSpec { return docSpec{id: k.did(), vms: []vmSpec{{k, relCapInv | relAssert}}} })
		d := s.mkDID("d", nil)
		setCtl := func() {
			ctl := d.spec.clone()
			ctl.controllers = []did.DID{c.id}
			_, ok := s.apply(d, "update/own-key/set-controller", ctl, d.k, d, []dag.Transaction{d.latest()})
			s.need(ok, "setting the controller")
		}
		if !late {
			setCtl()
		}
		kc2 := s.key("kc2")
		kind := "update/controller-removed-key"
		if deactivate {
			kind = "update/deactivated-controller-key"
			_, ok := s.apply(c, "update/own-key/deactivation", docSpec{id: c.id}, c.k, c, s.withRoot([]dag.Transaction{c.latest()}))
			s.need(ok, "deactivation of the controller")
		} else {
			_, ok := s.apply(c, "update/own-key", c.spec.without(c.k).with(kc2, relCapInv), c.k, c, s.withRoot([]dag.Transaction{c.latest()}))
			s.need(ok, "rotation of the controller key")
		}
		if late {
			setCtl()
		}
		arr := arrangements(c.txs)
		cs := arr[idx%len(arr)]
		pos := (idx / len(arr)) % (len(cs) + 1)
		prevs := append([]dag.Transaction{}, cs[:pos]...)
		prevs = append(prevs, d.latest())
		prevs = append(prevs, cs[pos:]...)
		steal := d.spec.clone()
		steal.controllers = nil
		steal = steal.with(c.k, relCapInv)
		s.apply(d, kind, steal, c.k, c, prevs)
		if !deactivate {
			// the controller's current key works
			s.apply(d, "update/controller-key", s.nextService(d.spec), kc2, c, s.shuffled(d.latest(), c.latest()))
		}
	}
}

// famSharedKey: the controller's capabilityInvocation key is also a (non capabilityInvocation) verification method of the controlled DID,
// so a transaction can carry a kid of D itself and name only D's latest version; the controllers are then found by signing time.
func famSharedKey(deactivate bool) func(s *scenario) {
	return func(s *scenario) {
		c := s.mkDID("c", func(k *key) docSpec { return docSpec{id: k.did(), vms: []vmSpec{{k, relCapInv | relAssert}}} })
		d := s.mkDID("d", func(k *key) docSpec { return s.randShape(k).with(c.k, relAssert|relAuthn) })
		ctl := d.spec.clone()
		ctl.controllers = []did.DID{c.id}
		_, ok := s.apply(d, "update/own-key/set-controller", ctl, d.k, d, []dag.Transaction{d.latest()})
		s.need(ok, "setting the controller")
		kind := "update/controller-key-listed-in-did"
		if deactivate {
			kind = "update/deactivated-controller-key/listed-in-did"
			_, ok := s.apply(c, "update/own-key/deactivation", docSpec{id: c.id}, c.k, c, []dag.Transaction{c.latest()})
			s.need(ok, "deactivation of the controller")
		}
		steal := d.spec.clone()
		steal.controllers = nil
		steal = steal.with(c.k, relCapInv)
		s.apply(d, kind, steal, c.k, d, s.withRoot([]dag.Transaction{d.latest()}))
		s.apply(d, kind, s.nextService(d.spec), c.k, d, s.withRoot([]dag.Transaction{d.latest()}))
	}
}

// famFormerController: D's controller changes from C1 to C2; C1's key tries again.
func famFormerController(idx int) func(s *scenario) {
	return func(s *scenario) {
		c1 := s.mkDID("c1", nil)
		c2 := s.mkDID("c2", nil)
		d := s.mkDID("d", nil)
		ctl := d.spec.clone()
		ctl.controllers = []did.DID{c1.id}
		_, ok := s.apply(d, "update/own-key/set-controller", ctl, d.k, d, []dag.Transaction{d.latest()})
		s.need(ok, "setting controller c1")
		ctl2 := d.spec.clone()
		ctl2.controllers = []did.DID{c2.id}
		_, ok = s.apply(d, "update/controller-key/change-controller", ctl2, c1.k, c1, s.shuffled(d.latest(), c1.latest()))
		s.need(ok, "changing controller to c2")
		arr := arrangements(d.txs[1:])
		ds := arr[idx%len(arr)]
		prevs := append(append([]dag.Transaction{}, ds...), c1.latest())
		if (idx/len(arr))%2 == 1 {
			prevs = append([]dag.Transaction{c1.latest()}, ds...)
		}
		back := d.spec.clone()
		back.controllers = []did.DID{c1.id}
		s.apply(d, "update/former-controller-key", back, c1.k, c1, prevs)
		s.apply(d, "update/controller-key", s.nextService(d.spec), c2.k, c2, s.shuffled(d.latest(), c2.latest()))
	}
}

// famChain: D0 <- D1 <- ... <- Dn (controller links), pure (controller=[next]) or shared (controller=[self,next]); optionally one member deactivated.
func famChain(depth int, shared bool, deact int) func(s *scenario) {
	return func(s *scenario) {
		ds := make([]*hdid, depth+1)
		for i := range ds {
			ds[i] = s.mkDID(fmt.Sprintf("d%d", i), func(k *key) docSpec { return docSpec{id: k.did(), vms: []vmSpec{{k, relCapInv | relAssert}}} })
		}
		if deact > 0 && deact <= depth {
			_, ok := s.apply(ds[deact], "update/own-key/deactivation", docSpec{id: ds[deact].id}, ds[deact].k, ds[deact], []dag.Transaction{ds[deact].latest()})
			s.need(ok, "deactivation of a chain member")
		}
		// link from the top down, so that every link is made by a DID that still controls itself
		for i := depth - 1; i >= 0; i-- {
			if i == deact {
				continue
			}
			ctl := ds[i].spec.clone()
			ctl.controllers = []did.DID{ds[i+1].id}
			if shared {
				ctl.controllers = []did.DID{ds[i].id, ds[i+1].id}
			}
			_, ok := s.apply(ds[i], "update/own-key/set-controller", ctl, ds[i].k, ds[i], []dag.Transaction{ds[i].latest()})
			s.need(ok, "linking the chain")
		}
		d0 := ds[0]
		tag := fmt.Sprintf("/depth-%d", depth)
		// keys further up the chain are not keys of a controller of D0
		for j := 2; j <= depth; j++ {
			if j > 2 && j < depth && s.rnd.Intn(2) == 0 {
				continue
			}
			steal := d0.spec.clone()
			steal.controllers = []did.DID{ds[j].id}
			s.apply(d0, "update/chain-indirect-controller-key"+tag, steal, ds[j].k, ds[j], s.shuffled(d0.latest(), ds[j].txs[len(ds[j].txs)-1]))
			all := []dag.Transaction{d0.latest()}
			for i := 1; i <= j; i++ {
				all = append(all, ds[i].latest())
			}
			s.apply(d0, "update/chain-indirect-controller-key"+tag, steal, ds[j].k, ds[j], s.shuffled(all...))
		}
		// the direct controller's key
		kind := "update/chain-direct-controller-key" + tag
		if deact == 1 {
			kind = "update/deactivated-controller-key/chain" + tag
			s.apply(d0, kind, s.nextService(d0.spec), ds[1].k, ds[1], s.shuffled(d0.latest(), ds[1].txs[0]))
			s.apply(d0, kind, s.nextService(d0.spec), ds[1].k, ds[1], s.shuffled(d0.latest(), ds[1].latest()))
			return
		}
		s.apply(d0, kind, s.nextService(d0.spec), ds[1].k, ds[1], s.shuffled(d0.latest(), ds[1].latest()))
		all := []dag.Transaction{d0.latest()}
		for i := 1; i <= depth; i++ {
			all = append(all, ds[i].latest())
		}
		s.apply(d0, kind, s.nextService(d0.spec), ds[1].k, ds[1], s.shuffled(all...))
		if shared {
			s.apply(d0, "update/own-key", s.nextService(d0.spec), d0.k, d0, []dag.Transaction{d0.latest()})
		} else {
			s.apply(d0, "update/own-key-after-handover", s.nextService(d0.spec), d0.k, d0, []dag.Transaction{d0.latest()})
		}
	}
}

// ---- validator rules -----------------------------------------------------------------------------------------------------------

type rule struct {
	name   string
	unspec bool
	mut    func(m map[string]any, self did.DID, other did.DID, k, kOther *key)
}

func vms(m map[string]any) []any  { v, _ := m["verificationMethod"].([]any); return v }
func svcs(m map[string]any) []any { v, _ := m["service"].([]any); return v }
func cloneMap(x any) map[string]any {
	out := map[string]any{}
	for k, v := range x.(map[string]any) {
		out[k] = v
	}
	return out
}

// embeddedVM is a verification method object for key k with the given id, to be embedded in a relationship.
func embeddedVM(id string, owner did.DID, k *key) map[string]any {
	d := docSpec{id: k.did(), vms: []vmSpec{{k, relCapInv}}}
	var m map[string]any
	mutate(d.json(), func(x map[string]any) { m = x })
	vm := cloneMap(vms(m)[0])
	vm["id"] = id
	vm["controller"] = owner.String()
	return vm
}

// the base document of a rule case has two keys (the second one under assertionMethod only) and two services
var rules = []rule{
	{name: "vm-id-without-fragment", mut: func(m map[string]any, self, _ did.DID, _, _ *key) {
		vm := cloneMap(vms(m)[1])
		old := vm["id"]
		vm["id"] = self.String()
		m["verificationMethod"] = []any{vms(m)[0], vm}
		replaceRef(m, old.(string), self.String())
	}},
	{name: "vm-id-foreign-did-prefix", mut: func(m map[string]any, _, other did.DID, _, k2 *key) {
		vm := cloneMap(vms(m)[1])
		old := vm["id"]
		vm["id"] = k2.kid(other)
		m["verificationMethod"] = []any{vms(m)[0], vm}
		replaceRef(m, old.(string), k2.kid(other))
	}},
	// ids that merely START with the document's DID: another DID whose text extends it, or the DID followed by a path / query
	{name: "vm-id-did-text-extension", mut: func(m map[string]any, self, _ did.DID, _, k2 *key) {
		vm := cloneMap(vms(m)[1])
		old := vm["id"]
		vm["id"] = self.String() + "x#" + k2.frag
		m["verificationMethod"] = []any{vms(m)[0], vm}
		replaceRef(m, old.(string), vm["id"].(string))
	}},
	{name: "vm-id-did-with-path", mut: func(m map[string]any, self, _ did.DID, _, k2 *key) {
		vm := cloneMap(vms(m)[1])
		old := vm["id"]
		vm["id"] = self.String() + "/path#" + k2.frag
		m["verificationMethod"] = []any{vms(m)[0], vm}
		replaceRef(m, old.(string), vm["id"].(string))
	}},
	{name: "vm-id-did-with-query", mut: func(m map[string]any, self, _ did.DID, _, k2 *key) {
		vm := cloneMap(vms(m)[1])
		old := vm["id"]
		vm["id"] = self.String() + "?versionId=1#" + k2.frag
		m["verificationMethod"] = []any{vms(m)[0], vm}
		replaceRef(m, old.(string), vm["id"].(string))
	}},
	{name: "service-id-did-text-extension", mut: func(m map[string]any, self, _ did.DID, _, _ *key) {
		sv := cloneMap(svcs(m)[1])
		sv["id"] = self.String() + "x#svc"
		m["service"] = []any{svcs(m)[0], sv}
	}},
	{name: "service-id-did-with-path", mut: func(m map[string]any, self, _ did.DID, _, _ *key) {
		sv := cloneMap(svcs(m)[1])
		sv["id"] = self.String() + "/path#svc"
		m["service"] = []any{svcs(m)[0], sv}
	}},
	{name: "vm-id-duplicate", mut: func(m map[string]any, _, _ did.DID, _, _ *key) {
		m["verificationMethod"] = append(vms(m), cloneMap(vms(m)[1]))
	}},
	{name: "vm-id-duplicate-other-key", mut: func(m map[string]any, self, _ did.DID, k, k2 *key) {
		m["verificationMethod"] = append(vms(m), embeddedVM(k2.kid(self), self, k))
	}},
	{name: "vm-kid-not-thumbprint", mut: func(m map[string]any, self, _ did.DID, k, _ *key) {
		vm := cloneMap(vms(m)[1])
		old := vm["id"]
		vm["id"] = self.String() + "#" + k.frag // fragment is the thumbprint of the other key
		m["verificationMethod"] = []any{vm}
		m["capabilityInvocation"] = []any{vm["id"]}
		delete(m, "assertionMethod")
		delete(m, "authentication")
		delete(m, "keyAgreement")
		delete(m, "capabilityDelegation")
		_ = old
	}},
	{name: "vm-kid-free-text", mut: func(m map[string]any, self, _ did.DID, _, _ *key) {
		vm := cloneMap(vms(m)[1])
		old := vm["id"]
		vm["id"] = self.String() + "#key-1"
		m["verificationMethod"] = []any{vms(m)[0], vm}
		replaceRef(m, old.(string), self.String()+"#key-1")
	}},
	// the same two defects with a publicKeyJwk that itself declares the wanted fragment as its "kid" member:
	// the key id still is not the thumbprint of the key
	{name: "vm-kid-free-text-jwk-declares-kid", mut: func(m map[string]any, self, _ did.DID, _, _ *key) {
		vm := cloneMap(vms(m)[1])
		old := vm["id"]
		vm["id"] = self.String() + "#key-1"
		if j, ok := vm["publicKeyJwk"].(map[string]any); ok {
			j = cloneMap(j)
			j["kid"] = "key-1"
			vm["publicKeyJwk"] = j
		}
		m["verificationMethod"] = []any{vms(m)[0], vm}
		replaceRef(m, old.(string), self.String()+"#key-1")
	}},
	{name: "vm-kid-other-keys-thumbprint-jwk-declares-kid", mut: func(m map[string]any, self, _ did.DID, k, _ *key) {
		vm := cloneMap(vms(m)[1])
		old := vm["id"]
		vm["id"] = self.String() + "#" + k.frag + "A"
		if j, ok := vm["publicKeyJwk"].(map[string]any); ok {
			j = cloneMap(j)
			j["kid"] = k.frag + "A"
			vm["publicKeyJwk"] = j
		}
		m["verificationMethod"] = []any{vms(m)[0], vm}
		replaceRef(m, old.(string), vm["id"].(string))
	}},
	{name: "service-id-without-fragment", mut: func(m map[string]any, self, _ did.DID, _, _ *key) {
		sv := cloneMap(svcs(m)[0])
		sv["id"] = self.String()
		m["service"] = []any{sv, svcs(m)[1]}
	}},
	{name: "service-id-foreign-did-prefix", mut: func(m map[string]any, _, other did.DID, _, _ *key) {
		sv := cloneMap(svcs(m)[1])
		sv["id"] = other.String() + "#svc"
		m["service"] = []any{svcs(m)[0], sv}
	}},
	{name: "service-id-duplicate", mut: func(m map[string]any, _, _ did.DID, _, _ *key) {
		sv := cloneMap(svcs(m)[0])
		sv["type"] = "another-type"
		m["service"] = append(svcs(m), sv)
	}},
	{name: "service-type-duplicate", mut: func(m map[string]any, self, _ did.DID, _, _ *key) {
		sv := cloneMap(svcs(m)[0])
		sv["id"] = self.String() + "#second"
		m["service"] = append(svcs(m), sv)
	}},
	{name: "didcore-no-did-context", mut: func(m map[string]any, _, _ did.DID, _, _ *key) {
		m["@context"] = []any{"https://w3c-ccg.github.io/lds-jws2020/contexts/lds-jws2020-v1.json"}
	}},
	{name: "didcore-vm-without-type", mut: func(m map[string]any, _, _ did.DID, _, _ *key) {
		vm := cloneMap(vms(m)[1])
		delete(vm, "type")
		m["verificationMethod"] = []any{vms(m)[0], vm}
	}},
	{name: "didcore-vm-without-controller", mut: func(m map[string]any, _, _ did.DID, _, _ *key) {
		vm := cloneMap(vms(m)[1])
		delete(vm, "controller")
		m["verificationMethod"] = []any{vms(m)[0], vm}
	}},
	{name: "didcore-service-without-type", mut: func(m map[string]any, _, _ did.DID, _, _ *key) {
		sv := cloneMap(svcs(m)[0])
		delete(sv, "type")
		m["service"] = []any{sv, svcs(m)[1]}
	}},
	{name: "didcore-service-without-endpoint", mut: func(m map[string]any, _, _ did.DID, _, _ *key) {
		sv := cloneMap(svcs(m)[0])
		delete(sv, "serviceEndpoint")
		m["service"] = []any{sv, svcs(m)[1]}
	}},
	{name: "didcore-service-endpoint-number", mut: func(m map[string]any, _, _ did.DID, _, _ *key) {
		sv := cloneMap(svcs(m)[0])
		sv["serviceEndpoint"] = 42
		m["service"] = []any{sv, svcs(m)[1]}
	}},
	{name: "didcore-dangling-relationship-reference", mut: func(m map[string]any, self, _ did.DID, _, _ *key) {
		m["authentication"] = []any{self.String() + "#does-not-exist"}
	}},
	{name: "didcore-relationship-not-a-reference", mut: func(m map[string]any, _, _ did.DID, _, _ *key) {
		m["authentication"] = []any{42}
	}},
	{name: "didcore-embedded-method-without-type", mut: func(m map[string]any, self, _ did.DID, _, k2 *key) {
		vm := embeddedVM(self.String()+"#"+newKey("e").frag, self, k2)
		delete(vm, "type")
		m["authentication"] = []any{vm}
	}},
	{name: "didcore-controller-not-a-did", mut: func(m map[string]any, _, _ did.DID, _, _ *key) {
		m["controller"] = "urn:not-a-did"
	}},
	// verification methods embedded in a relationship instead of listed under verificationMethod
	{name: "embedded-method-kid-not-thumbprint", mut: func(m map[string]any, self, _ did.DID, k, _ *key) {
		e := newKey("e")
		m["assertionMethod"] = append(anyList(m["assertionMethod"]), embeddedVM(self.String()+"#"+k.frag+"x", self, e))
	}},
	{name: "embedded-method-foreign-did-prefix", mut: func(m map[string]any, _, other did.DID, _, _ *key) {
		e := newKey("e")
		m["capabilityInvocation"] = append(anyList(m["capabilityInvocation"]), embeddedVM(e.kid(other), other, e))
	}},
	{name: "embedded-method-id-without-fragment", mut: func(m map[string]any, self, _ did.DID, _, _ *key) {
		e := newKey("e")
		m["authentication"] = append(anyList(m["authentication"]), embeddedVM(self.String(), self, e))
	}},
	{name: "embedded-method-id-duplicate-other-key", mut: func(m map[string]any, self, _ did.DID, k, _ *key) {
		e := newKey("e")
		m["capabilityInvocation"] = append(anyList(m["capabilityInvocation"]), embeddedVM(k.kid(self), self, e))
	}},
	// well-formedness questions the text does not decide: observed only
	{name: "service-id-equals-vm-id", unspec: true, mut: func(m map[string]any, self, _ did.DID, k, _ *key) {
		sv := cloneMap(svcs(m)[0])
		sv["id"] = k.kid(self)
		m["service"] = []any{sv, svcs(m)[1]}
	}},
	{name: "embedded-method-wellformed", unspec: true, mut: func(m map[string]any, self, _ did.DID, _, _ *key) {
		e := newKey("e")
		m["assertionMethod"] = append(anyList(m["assertionMethod"]), embeddedVM(e.kid(self), self, e))
	}},
}

func anyList(x any) []any { l, _ := x.([]any); return l }

// replaceRef rewrites references to a verification method id in the relationships.
func replaceRef(m map[string]any, old, new string) {
	for _, r := range []string{"authentication", "assertionMethod", "keyAgreement", "capabilityInvocation", "capabilityDelegation"} {
		l := anyList(m[r])
		for i := range l {
			if s, ok := l[i].(string); ok && s == old {
				l[i] = new
			}
		}
	}
}

var rawPayloads = []struct {
	name    string
	payload string
}{
	{"didcore-not-json", "this is not a DID document"},
	{"didcore-json-array", "[]"},
	{"didcore-empty-object", "{}"},
	{"didcore-empty-payload", ""},
	{"didcore-truncated-json", `{"@context":["https://www.w3.org/ns/did/v1"],"id":"did:nuts:`},
}

// famValidator: each rule broken in turn, in a creation and in an update that the DID's own key signs on its latest version.
func famValidator(from, to int, creation bool) func(s *scenario) {
	return func(s *scenario) {
		other := s.mkDID("other", nil)
		for i := from; i < to && i < len(rules)+len(rawPayloads); i++ {
			k, k2 := s.key("k"), s.key("k2")
			base := docSpec{id: k.did(), vms: []vmSpec{{k, relCapInv | relAssert}, {k2, relAssert | relAuthn}}}.withService("a", "type-a").withService("b", "type-b")
			var name string
			var payload []byte
			var unspec string
			if i < len(rules) {
				ru := rules[i]
				name = ru.name
				payload = mutate(base.json(), func(m map[string]any) { ru.mut(m, k.did(), other.id, k, k2) })
				if ru.unspec {
					unspec = "wellformedness/" + ru.name
				}
			} else {
				name = rawPayloads[i-len(rules)].name
				payload = []byte(rawPayloads[i-len(rules)].payload)
			}
			invalid := name
			if unspec != "" {
				invalid = ""
			}
			if creation {
				s.submit(&pair{kind: "create/invalid-document", target: k.did(), payload: payload, signer: k, prevs: s.withRoot([]dag.Transaction{s.e.root}), invalid: invalid, unspec: unspec})
				continue
			}
			d := &hdid{k: k, id: k.did(), spec: docSpec{id: k.did(), vms: []vmSpec{{k, relCapInv | relAssert}}}}
			tx, ok := s.submit(&pair{kind: "create/correct-key", target: d.id, payload: d.spec.json(), signer: k, prevs: []dag.Transaction{s.e.root}})
			s.need(ok, "creation")
			d.txs = append(d.txs, tx)
			s.submit(&pair{kind: "update/invalid-document", target: d.id, payload: payload, signer: k, kidOwner: &d.id, prevs: s.withRoot([]dag.Transaction{d.latest()}), invalid: invalid, unspec: unspec})
			// the well-formed version of the same update goes through
			if s.rnd.Intn(3) == 0 {
				s.apply(d, "update/own-key", base, k, d, []dag.Transaction{d.latest()})
			}
		}
	}
}

// ---- random walks ------------------------------------------------------------------------------------------------------------

// famWalk: random histories over a few DIDs and keys; every step is judged by the same oracle.
func famWalk(steps int) func(s *scenario) {
	return func(s *scenario) {
		n := 2 + s.rnd.Intn(2)
		ds := make([]*hdid, n)
		for i := range ds {
			ds[i] = s.mkDID(fmt.Sprintf("w%d", i), nil)
		}
		pool := []*key{s.key("p0"), s.key("p1"), s.key("p2")}
		for _, d := range ds {
			pool = append(pool, d.k)
		}
		// keyOwners: which DIDs ever listed a key (so that a kid can be formed that may resolve)
		listed := map[*key][]*hdid{}
		for _, d := range ds {
			listed[d.k] = []*hdid{d}
		}
		all := map[*hdid][]dag.Transaction{} // every transaction submitted for a DID, accepted or not
		for _, d := range ds {
			all[d] = append(all[d], d.txs...)
		}
		for i := 0; i < steps; i++ {
			d := ds[s.rnd.Intn(n)]
			signer := pool[s.rnd.Intn(len(pool))]
			switch x := s.rnd.Intn(10); {
			case x < 5 && len(d.spec.vms) > 0: // a key the DID lists now (under any relationship)
				signer = d.spec.vms[s.rnd.Intn(len(d.spec.vms))].k
			case x < 8 && len(d.spec.controllers) > 0: // a key of one of its controllers
				for _, o := range ds {
					if o.id.Equals(d.spec.controllers[s.rnd.Intn(len(d.spec.controllers))]) && len(o.spec.vms) > 0 {
						signer = o.spec.vms[s.rnd.Intn(len(o.spec.vms))].k
					}
				}
			}
			owner := d
			if o := listed[signer]; len(o) > 0 {
				owner = o[s.rnd.Intn(len(o))]
				for _, c := range o { // mostly a DID that lists the key now
					for _, v := range c.spec.vms {
						if v.k == signer && s.rnd.Intn(2) == 0 {
							owner = c
						}
					}
				}
			}
			// the proposed document
			spec := d.spec.clone()
			switch s.rnd.Intn(8) {
			case 0, 1:
				spec = s.nextService(spec)
			case 2:
				spec = spec.with(pool[s.rnd.Intn(len(pool))], relCapInv|relAssert)
			case 3:
				spec = spec.with(pool[s.rnd.Intn(len(pool))], relAssert|relAuthn)
			case 4:
				if len(spec.vms) > 1 {
					spec = spec.without(spec.vms[s.rnd.Intn(len(spec.vms))].k)
				} else {
					spec = spec.with(signer, relCapInv)
				}
			case 5:
				o := ds[s.rnd.Intn(n)]
				spec.controllers = []did.DID{o.id}
				if s.rnd.Intn(2) == 0 {
					spec.controllers = append(spec.controllers, d.id)
				}
			case 6:
				spec.controllers = nil
				spec = spec.with(signer, relCapInv)
			case 7:
				if s.rnd.Intn(3) == 0 {
					spec = docSpec{id: d.id}
				} else {
					spec = s.nextService(spec)
				}
			}
			// prevs: 1-3 of: the DID's transactions (biased to the latest), the signer DID's, the root
			var cand []dag.Transaction
			cand = append(cand, d.latest(), d.latest())
			cand = append(cand, all[d]...)
			if owner != d {
				cand = append(cand, owner.latest(), owner.latest())
				cand = append(cand, all[owner]...)
			}
			cand = append(cand, s.e.root)
			var prevs []dag.Transaction
			seen := map[string]bool{}
			if s.rnd.Intn(3) != 0 { // mostly the shape the node itself publishes: the DID's latest, then the signer DID's latest
				seen[d.latest().Ref().String()] = true
				prevs = append(prevs, d.latest())
				if owner != d {
					seen[owner.latest().Ref().String()] = true
					prevs = append(prevs, owner.latest())
				}
				s.rnd.Shuffle(len(prevs), func(i, j int) { prevs[i], prevs[j] = prevs[j], prevs[i] })
			}
			for k := s.rnd.Intn(3) + 1 - min(1, len(prevs)); k > 0; k-- {
				t := cand[s.rnd.Intn(len(cand))]
				if !seen[t.Ref().String()] {
					seen[t.Ref().String()] = true
					prevs = append(prevs, t)
				}
			}
			tx, ok := s.apply(d, "update/random-walk", spec, signer, owner, prevs)
			if s.admitted[tx.Ref()] {
				all[d] = append(all[d], tx)
			}
			if ok {
				for _, v := range spec.vms {
					found := false
					for _, o := range listed[v.k] {
						if o == d {
							found = true
						}
					}
					if !found {
						listed[v.k] = append(listed[v.k], d)
					}
				}
			}
		}
	}
}

// ---- the case list: a pure function of (seed, tier) ---------------------------------------------------------------------------

func jobs(thorough bool, rnd *rand.Rand) []job {
	var out []job
	add := func(name string, f func(s *scenario)) {
		out = append(out, job{fmt.Sprintf("%s#%d", name, len(out)), f})
	}
	// the witness of design observation (l) and its neighbours: always
	for idx := 0; idx < 4; idx++ {
		add("removed-key/2-versions", famRemovedKey(false, 2, idx))
	}
	if !thorough {
		add("creation", famCreation)
		add("recreate", famRecreate)
		add("republish", famRepublish)
		add("own-key", famOwnKey)
		add("demoted-key/2-versions", famRemovedKey(true, 2, 2+rnd.Intn(2)))
		add("removed-key/3-versions", famRemovedKey(false, 3, rnd.Intn(15)))
		add("deactivated-did", famDeactivatedDID(rnd.Intn(4)))
		add("controller", famController(rnd.Intn(3)))
		for _, deact := range []bool{false, true} {
			for _, idx := range []int{0, 1, 2 + rnd.Intn(10)} { // [d,c1], [d,c1,c2] and one of the others
				add("controller-stale", famControllerStale(deact, rnd.Intn(2) == 0, idx))
			}
		}
		add("former-controller", famFormerController(rnd.Intn(8)))
		add("shared-key", famSharedKey(false))
		add("shared-key", famSharedKey(true))
		nr := len(rules) + len(rawPayloads)
		a := rnd.Intn(nr - 6)
		_ = a
		for from := 0; from < nr; from += 4 {
			add("validator", famValidator(from, from+4, rnd.Intn(2) == 0))
		}
		add("chain", famChain(1, false, -1))
		add("chain", famChain(2+rnd.Intn(4), rnd.Intn(2) == 0, -1))
		add("chain", famChain(6, false, -1))
		add("walk", famWalk(10))
		widenJobs(thorough, add)
		return out
	}
	for rep := 0; rep < 4; rep++ {
		add("creation", famCreation)
		add("own-key", famOwnKey)
		add("recreate", famRecreate)
		add("republish", famRepublish)
	}
	for rep := 0; rep < 2; rep++ {
		for idx := 0; idx < 4; idx++ {
			add("demoted-key/2-versions", famRemovedKey(true, 2, idx))
			add("deactivated-did", famDeactivatedDID(idx))
		}
		for idx := 0; idx < 15; idx++ {
			add("removed-key/3-versions", famRemovedKey(false, 3, idx))
		}
	}
	for idx := 0; idx < 15; idx++ {
		add("demoted-key/3-versions", famRemovedKey(true, 3, idx))
	}
	for idx := 0; idx < 12; idx++ {
		add("removed-key/4-versions", famRemovedKey(rnd.Intn(2) == 0, 4, rnd.Intn(64)))
	}
	for rep := 0; rep < 3; rep++ {
		for style := 0; style < 3; style++ {
			add("controller", famController(style))
		}
	}
	for _, deact := range []bool{false, true} {
		for _, late := range []bool{false, true} {
			for idx := 0; idx < 10; idx++ { // 2 single-version arrangements x 2 positions + 2 two-version arrangements x 3 positions
				add("controller-stale", famControllerStale(deact, late, idx))
			}
		}
	}
	for idx := 0; idx < 8; idx++ {
		add("former-controller", famFormerController(idx))
	}
	for rep := 0; rep < 3; rep++ {
		add("shared-key", famSharedKey(false))
		add("shared-key", famSharedKey(true))
	}
	nr := len(rules) + len(rawPayloads)
	for from := 0; from < nr; from += 4 {
		add("validator/update", famValidator(from, from+4, false))
		add("validator/create", famValidator(from, from+4, true))
	}
	for depth := 1; depth <= 6; depth++ {
		for _, shared := range []bool{false, true} {
			add("chain", famChain(depth, shared, -1))
			add("chain/deactivated-member", famChain(depth, shared, 1))
			if depth >= 2 {
				add("chain/deactivated-member", famChain(depth, shared, 2+rnd.Intn(depth-1)))
			}
		}
	}
	for i := 0; i < 30; i++ {
		add("walk", famWalk(14))
	}
	widenJobs(thorough, add)
	return out
}
