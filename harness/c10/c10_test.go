// Check C10: did:nuts resolution is independent of the order in which document transactions arrive.
// Generated event sets (creation, linear updates, 2-/3-way forks, fork resolution, deactivation (+ later
// updates), root conflicts, exact duplicates, equal clocks / signing times, rich documents) are fed to the
// REAL didstore on a real bbolt file in all permutations (or seeded samples), each order on a fresh store,
// the same order on several independent stores, with duplicates re-delivered and the store reopened from disk.
// Oracle: the resolution digest (see digest()) of one event set is the same for every order/store;
// online after every Add: a DID for which a deactivation was delivered never resolves as active, and the conflicted
// count, the Conflicted() iterator and the conflicted status of the latest versions agree (document count = DIDs seen);
// after the last Add: the latest version stems from exactly the unreferenced transactions (branches) of the DID - one
// branch: not conflicted and that transaction's own document - and carries the creation transaction's signing time.
package c10

import (
	"context"
	"crypto/ecdsa"
	"crypto/elliptic"
	"crypto/sha256"
	"encoding/hex"
	"encoding/json"
	"errors"
	"fmt"
	"io"
	"math/big"
	"math/rand"
	"os"
	"path/filepath"
	"reflect"
	"runtime"
	"sort"
	"strings"
	"sync"
	"testing"
	"time"

	"github.com/lestrrat-go/jwx/v2/jwk"
	ssi "github.com/nuts-foundation/go-did"
	"github.com/nuts-foundation/go-did/did"
	"github.com/nuts-foundation/go-stoabs"
	"github.com/nuts-foundation/go-stoabs/bbolt"
	"github.com/nuts-foundation/nuts-node/core"
	nutsCrypto "github.com/nuts-foundation/nuts-node/crypto"
	"github.com/nuts-foundation/nuts-node/crypto/hash"
	"github.com/nuts-foundation/nuts-node/storage"
	"github.com/nuts-foundation/nuts-node/vdr/didnuts"
	"github.com/nuts-foundation/nuts-node/vdr/didnuts/didstore"
	"github.com/nuts-foundation/nuts-node/vdr/resolver"
	"github.com/sirupsen/logrus"
	"verif/lib/ev"
)

// ---- real store on a real bbolt file ------------------------------------------------------------

type provider struct{ db stoabs.KVStore }

func (p provider) GetKVStore(string, storage.Class) (stoabs.KVStore, error) { return p.db, nil }

type env struct {
	dir string
	db  stoabs.KVStore
	st  didstore.Store
}

func openEnv(dir string) (*env, error) {
	lg := logrus.New()
	lg.SetOutput(io.Discard)
	db, err := bbolt.CreateBBoltStore(filepath.Join(dir, "didstore.db"), stoabs.WithLogger(lg), stoabs.WithNoSync())
	if err != nil {
		return nil, err
	}
	st := didstore.New(provider{db})
	if err := st.(core.Configurable).Configure(core.ServerConfig{}); err != nil {
		return nil, err
	}
	return &env{dir: dir, db: db, st: st}, nil
}

func (e *env) close() { _ = e.db.Close(context.Background()) }

func (e *env) reopen() error {
	e.close()
	n, err := openEnv(e.dir)
	if err != nil {
		return err
	}
	*e = *n
	return nil
}

// ---- generator: keys, document states, event sets -------------------------------------------------

type keyMat struct {
	pub   *ecdsa.PublicKey
	frag  string // JWK thumbprint as used for verification method ids
	nutsT string // base58 thumbprint as used for did:nuts identifiers
}

func genKey(rnd *rand.Rand) keyMat {
	buf := make([]byte, 32)
	rnd.Read(buf)
	c := elliptic.P256()
	d := new(big.Int).SetBytes(buf)
	d.Mod(d, new(big.Int).Sub(c.Params().N, big.NewInt(1)))
	d.Add(d, big.NewInt(1))
	x, y := c.ScalarBaseMult(d.Bytes())
	pub := &ecdsa.PublicKey{Curve: c, X: x, Y: y}
	k, err := jwk.FromRaw(pub)
	if err != nil {
		panic(err)
	}
	if err := jwk.AssignKeyID(k); err != nil {
		panic(err)
	}
	nt, err := nutsCrypto.Thumbprint(k)
	if err != nil {
		panic(err)
	}
	return keyMat{pub: pub, frag: k.KeyID(), nutsT: nt}
}

type svc struct {
	typ string
	ep  any
}

type keyUse struct {
	k                                    int
	auth, assert, capInv, capDel, keyAgr bool
}

// docState is the generator's description of one document version.
type docState struct {
	ctx         int   // 0: DID v1; 1: DID v1 + JWS2020; 2: JWS2020 + DID v1
	controllers []int // indices into the controller pool, in document order
	keys        []keyUse
	services    []svc
	deactivated bool
	kaEmbed     map[int]bool // per key: override of world.embedKA for this version
}

func (s docState) clone() docState {
	n := s
	n.controllers = append([]int(nil), s.controllers...)
	n.keys = append([]keyUse(nil), s.keys...)
	n.services = append([]svc(nil), s.services...)
	return n
}

type world struct {
	id       did.DID
	keys     []keyMat
	ctrlPool []did.DID // [0] is the subject itself
	embedKA  []bool    // per key: keyAgreement relationship is embedded (not a reference)
	idReuse  bool      // service ids are per type (content may change under the same id) instead of content-derived
}

const jws2020 = "https://w3c-ccg.github.io/lds-jws2020/contexts/lds-jws2020-v1.json"

func (w *world) build(s docState) did.Document {
	doc := did.Document{ID: w.id}
	switch s.ctx {
	case 0:
		doc.Context = []interface{}{did.DIDContextV1URI()}
	case 1:
		doc.Context = []interface{}{did.DIDContextV1URI(), ssi.MustParseURI(jws2020)}
	default:
		doc.Context = []interface{}{ssi.MustParseURI(jws2020), did.DIDContextV1URI()}
	}
	if s.deactivated {
		// RFC006 deactivation: no controllers, no keys. Services may linger.
		for _, sv := range s.services {
			doc.Service = append(doc.Service, w.service(sv))
		}
		return doc
	}
	for _, c := range s.controllers {
		doc.Controller = append(doc.Controller, w.ctrlPool[c])
	}
	for _, ku := range s.keys {
		km := w.keys[ku.k]
		kid := did.DIDURL{DID: w.id, Fragment: km.frag}
		vm, err := did.NewVerificationMethod(kid, ssi.JsonWebKey2020, w.id, km.pub)
		if err != nil {
			panic(err)
		}
		embed := w.embedKA[ku.k]
		if v, ok := s.kaEmbed[ku.k]; ok {
			embed = v
		}
		if ku.keyAgr && embed && !ku.auth && !ku.assert && !ku.capInv && !ku.capDel {
			// embedded-only key: present in keyAgreement as an object, not listed in verificationMethod
			doc.KeyAgreement = append(doc.KeyAgreement, did.VerificationRelationship{VerificationMethod: vm})
			continue
		}
		doc.VerificationMethod.Add(vm)
		if ku.auth {
			doc.Authentication.Add(vm)
		}
		if ku.assert {
			doc.AssertionMethod.Add(vm)
		}
		if ku.capInv {
			doc.CapabilityInvocation.Add(vm)
		}
		if ku.capDel {
			doc.CapabilityDelegation.Add(vm)
		}
		if ku.keyAgr {
			if embed {
				doc.KeyAgreement = append(doc.KeyAgreement, did.VerificationRelationship{VerificationMethod: vm})
			} else {
				doc.KeyAgreement.Add(vm)
			}
		}
	}
	for _, sv := range s.services {
		doc.Service = append(doc.Service, w.service(sv))
	}
	return doc
}

func (w *world) service(sv svc) did.Service {
	var frag string
	if w.idReuse {
		frag = "svc-" + sv.typ
	} else {
		b, _ := json.Marshal([]any{sv.typ, sv.ep})
		h := sha256.Sum256(b)
		frag = hex.EncodeToString(h[:6])
	}
	return did.Service{ID: ssi.MustParseURI(w.id.String() + "#" + frag), Type: sv.typ, ServiceEndpoint: sv.ep}
}

var svcTypes = []string{"NutsComm", "node-contact-info", "oauth", "eOverdracht-sender", "geolocation"}

func genEndpoint(rnd *rand.Rand) any {
	switch rnd.Intn(3) {
	case 0:
		return fmt.Sprintf("https://example.com/ep/%d", rnd.Intn(1000))
	case 1:
		return map[string]interface{}{"auth": fmt.Sprintf("https://example.com/auth/%d", rnd.Intn(1000)), "fhir": "https://example.com/fhir"}
	}
	return fmt.Sprintf("grpc://node%d.example.com:5555", rnd.Intn(1000))
}

func (w *world) initial(rnd *rand.Rand, rich bool) docState {
	s := docState{ctx: rnd.Intn(3)}
	s.keys = []keyUse{{k: 0, auth: true, assert: true, capInv: true, capDel: rnd.Intn(2) == 0, keyAgr: rnd.Intn(2) == 0}}
	if rich || rnd.Intn(2) == 0 {
		s.keys = append(s.keys, keyUse{k: 1, auth: rnd.Intn(2) == 0, assert: true, capInv: rnd.Intn(2) == 0, keyAgr: rnd.Intn(2) == 0})
	}
	if rich {
		s.keys = append(s.keys, keyUse{k: 2, keyAgr: true})
	}
	nc := rnd.Intn(2)
	if rich {
		nc = 2 + rnd.Intn(2)
	}
	for _, c := range rnd.Perm(len(w.ctrlPool))[:nc] {
		s.controllers = append(s.controllers, c)
	}
	ns := rnd.Intn(3)
	if rich {
		ns = 2 + rnd.Intn(2)
	}
	for _, ti := range rnd.Perm(len(svcTypes))[:ns] {
		s.services = append(s.services, svc{typ: svcTypes[ti], ep: genEndpoint(rnd)})
	}
	return s
}

// mutate derives the next version of a document: 1..3 edits of controllers / keys / services / context / order.
func (w *world) mutate(rnd *rand.Rand, s docState, rich bool) docState {
	n := s.clone()
	if n.deactivated {
		// an update after deactivation: a full document again
		n = w.initial(rnd, rich)
		return n
	}
	edits := 1 + rnd.Intn(3)
	for e := 0; e < edits; e++ {
		switch rnd.Intn(9) {
		case 0, 1: // add a controller
			have := map[int]bool{}
			for _, c := range n.controllers {
				have[c] = true
			}
			for _, c := range rnd.Perm(len(w.ctrlPool)) {
				if !have[c] {
					pos := rnd.Intn(len(n.controllers) + 1)
					n.controllers = append(n.controllers[:pos], append([]int{c}, n.controllers[pos:]...)...)
					break
				}
			}
		case 2: // remove / reorder controllers
			if len(n.controllers) > 1 && rnd.Intn(2) == 0 {
				i := rnd.Intn(len(n.controllers))
				n.controllers = append(n.controllers[:i], n.controllers[i+1:]...)
			} else {
				rnd.Shuffle(len(n.controllers), func(i, j int) { n.controllers[i], n.controllers[j] = n.controllers[j], n.controllers[i] })
			}
		case 3: // add a key
			have := map[int]bool{}
			for _, k := range n.keys {
				have[k.k] = true
			}
			for _, k := range rnd.Perm(len(w.keys)) {
				if !have[k] {
					n.keys = append(n.keys, keyUse{k: k, auth: rnd.Intn(2) == 0, assert: rnd.Intn(2) == 0, capInv: rnd.Intn(3) == 0, capDel: rnd.Intn(3) == 0, keyAgr: rnd.Intn(2) == 0})
					break
				}
			}
		case 4: // remove a key (never the last capabilityInvocation key) or change its relationships
			if len(n.keys) > 1 {
				i := 1 + rnd.Intn(len(n.keys)-1)
				if rnd.Intn(2) == 0 {
					n.keys = append(n.keys[:i], n.keys[i+1:]...)
				} else {
					n.keys[i].auth = !n.keys[i].auth
					n.keys[i].keyAgr = !n.keys[i].keyAgr
				}
			}
		case 5, 6: // add a service / replace its endpoint
			used := map[string]int{}
			for i, sv := range n.services {
				used[sv.typ] = i
			}
			ti := svcTypes[rnd.Intn(len(svcTypes))]
			if i, ok := used[ti]; ok {
				n.services[i].ep = genEndpoint(rnd)
			} else {
				n.services = append(n.services, svc{typ: ti, ep: genEndpoint(rnd)})
			}
		case 7: // remove a service / reorder
			if len(n.services) > 0 && rnd.Intn(2) == 0 {
				i := rnd.Intn(len(n.services))
				n.services = append(n.services[:i], n.services[i+1:]...)
			} else {
				rnd.Shuffle(len(n.services), func(i, j int) { n.services[i], n.services[j] = n.services[j], n.services[i] })
				rnd.Shuffle(len(n.keys)-1, func(i, j int) { n.keys[i+1], n.keys[j+1] = n.keys[j+1], n.keys[i+1] })
			}
		case 8:
			n.ctx = rnd.Intn(3)
		}
	}
	return n
}

// evt is one accepted did:nuts document transaction as the ambassador hands it to the store.
type evt struct {
	Label   string
	DID     did.DID
	Kind    string
	Payload []byte // the DID document as published (transaction payload)
	Tx      didstore.Transaction
	Deact   bool
	parents []int
}

type eventSet struct {
	Index    int
	Shape    string
	Features []string
	Events   []evt
	DIDs     []did.DID
	maxTime  time.Time
}

func (s *eventSet) name() string { return fmt.Sprintf("set%03d-%s", s.Index, s.Shape) }

// node in a shape: which earlier nodes it references and what it does
type node struct {
	parents []int
	kind    string // create | update | deactivate | revert
}

func shapeNodes(rnd *rand.Rand, shape string, big bool) []node {
	up := func(p ...int) node { return node{parents: p, kind: "update"} }
	cr := node{kind: "create"}
	switch shape {
	case "linear":
		n := 2 + rnd.Intn(3)
		if big {
			n = 5 + rnd.Intn(3)
		}
		out := []node{cr}
		for i := 1; i < n; i++ {
			k := up(i - 1)
			if i >= 2 && rnd.Intn(5) == 0 {
				k.kind = "revert" // same document content as two versions earlier
			}
			out = append(out, k)
		}
		return out
	case "fork2":
		out := []node{cr, up(0), up(0)}
		if rnd.Intn(3) == 0 {
			out = append(out, up(1)) // one branch continues
		}
		return out
	case "fork2-resolved":
		out := []node{cr, up(0), up(0), up(1, 2)}
		if rnd.Intn(2) == 0 {
			out = append(out, up(3))
		}
		if big {
			out = append(out, up(len(out)-1), up(len(out)-1))
		}
		return out
	case "fork3":
		out := []node{cr, up(0), up(0), up(0)}
		if big {
			out = append(out, up(1), up(2))
		}
		return out
	case "fork3-resolved":
		out := []node{cr, up(0), up(0), up(0), up(1, 2, 3)}
		if big {
			out = append(out, up(4))
		}
		return out
	case "fork3-partial":
		a, b := 1+rnd.Intn(3), 1+rnd.Intn(3)
		for b == a {
			b = 1 + rnd.Intn(3)
		}
		out := []node{cr, up(0), up(0), up(0), up(a, b)}
		if big {
			out = append(out, up(4, 6-a-b))
		}
		return out
	case "fork-late":
		// a branch from an old version while the main line has moved on
		out := []node{cr, up(0), up(1), up(0)}
		if rnd.Intn(2) == 0 {
			out = append(out, up(2, 3))
		}
		return out
	case "deactivate":
		out := []node{cr, up(0), {parents: []int{1}, kind: "deactivate"}}
		if rnd.Intn(2) == 0 {
			out = append(out, up(2))
			if rnd.Intn(2) == 0 || big {
				out = append(out, up(3))
			}
		}
		return out
	case "deactivate-fork":
		// deactivation in parallel with an update of the same version
		out := []node{cr, {parents: []int{0}, kind: "deactivate"}, up(0)}
		switch rnd.Intn(3) {
		case 0:
			out = append(out, up(1, 2))
		case 1:
			out = append(out, up(2))
		}
		if big {
			out = append(out, up(0), up(len(out)-1))
		}
		return out
	case "root-conflict":
		// two creations of the same DID (both without a reference to the other)
		out := []node{cr, cr}
		switch rnd.Intn(3) {
		case 0:
			out = append(out, up(0, 1))
		case 1:
			out = append(out, up(0), up(1))
		}
		return out
	case "fork3-idclash":
		// parallel branches give the SAME service id / key id different content, a third branch drops them
		out := []node{{kind: "create-clash"}, {parents: []int{0}, kind: "clash"}, {parents: []int{0}, kind: "clash"}, {parents: []int{0}, kind: "clash-drop"}}
		if big {
			out = []node{{kind: "create-clash"}, {parents: []int{0}, kind: "clash"}, {parents: []int{0}, kind: "clash"}, {parents: []int{0}, kind: "clash"}, {parents: []int{0}, kind: "clash-drop"}}
		}
		if rnd.Intn(2) == 0 {
			ps := []int{}
			for i := 1; i < len(out); i++ {
				ps = append(ps, i)
			}
			out = append(out, up(ps...))
		}
		return out
	case "random":
		n := 3 + rnd.Intn(3)
		if big {
			n = 6 + rnd.Intn(2)
		}
		out := []node{cr}
		for i := 1; i < n; i++ {
			np := 1
			if i >= 2 && rnd.Intn(3) == 0 {
				np = 2
			}
			if i >= 3 && rnd.Intn(6) == 0 {
				np = 3
			}
			seen := map[int]bool{}
			var ps []int
			for len(ps) < np {
				// biased to recent events
				p := i - 1 - rnd.Intn(min(i, 3))
				if !seen[p] {
					seen[p] = true
					ps = append(ps, p)
				}
			}
			k := node{parents: ps, kind: "update"}
			if rnd.Intn(7) == 0 {
				k.kind = "deactivate"
			}
			out = append(out, k)
		}
		return out
	}
	panic("unknown shape " + shape)
}

var shapes = []string{"fork2", "fork3", "fork2-resolved", "deactivate", "fork3-resolved", "linear", "deactivate-fork", "root-conflict", "fork3-partial", "fork-late", "random", "two-dids", "fork3-idclash"}

func refOf(seed int64, set, did, i int) hash.SHA256Hash {
	return hash.SHA256Sum([]byte(fmt.Sprintf("c10-ref/%d/%d/%d/%d", seed, set, did, i)))
}

// genSet builds event set number idx. Everything is a function of (seed, idx, tier sizes).
func genSet(r *ev.Run, idx int, keys []keyMat) *eventSet {
	rnd := r.Rand(fmt.Sprintf("set/%d", idx))
	set := &eventSet{Index: idx, Shape: shapes[idx%len(shapes)]}
	// 6-7 events, orders sampled: a quarter of the sets in the thorough tier, a few in the quick tier
	big := r.Thorough() && (idx/len(shapes))%4 == 3 || !r.Thorough() && idx >= 2*len(shapes) && idx%2 == 0
	rich := rnd.Intn(3) != 0 // several controllers / services / keys
	idReuse := rnd.Intn(4) == 0
	timeMode := []string{"monotone", "equal-siblings", "all-equal", "skewed"}[rnd.Intn(4)]
	clockJitter := rnd.Intn(3) == 0
	unrelatedPrevs := rnd.Intn(2) == 0
	dups := 0
	if rnd.Intn(4) == 0 {
		dups = 1 + rnd.Intn(2)
	}
	if set.Shape == "fork3-idclash" {
		// ids are not content-derived here; siblings sort by signing time so that the branch that drops the entries is applied last
		idReuse, timeMode, clockJitter = true, "monotone", false
	}
	feat := []string{"time:" + timeMode}
	if rich {
		feat = append(feat, "rich")
	}
	if idReuse {
		feat = append(feat, "service-id-reuse")
	}
	if clockJitter {
		feat = append(feat, "clock-jitter")
	}
	if unrelatedPrevs {
		feat = append(feat, "unrelated-prevs")
	}
	if big {
		feat = append(feat, "big")
	}
	base := time.Unix(1700000000+int64(idx)*86400, 0).UTC()
	set.maxTime = base

	nd := 1
	shapesFor := []string{set.Shape}
	if set.Shape == "two-dids" {
		nd = 2
		shapesFor = []string{"fork2", []string{"linear", "fork2-resolved", "deactivate", "fork3"}[rnd.Intn(4)]}
	}
	for d := 0; d < nd; d++ {
		// keys of this DID: a rotation of the shared pool; the DID is the thumbprint of its first key
		ks := append(append([]keyMat(nil), keys[(idx+d*4)%len(keys):]...), keys[:(idx+d*4)%len(keys)]...)[:4]
		w := &world{keys: ks, idReuse: idReuse}
		w.id = did.MustParseDID("did:nuts:" + ks[0].nutsT)
		w.ctrlPool = []did.DID{w.id}
		for c := 0; c < 3; c++ {
			w.ctrlPool = append(w.ctrlPool, did.MustParseDID("did:nuts:"+keys[(idx+d*4+5+c)%len(keys)].nutsT))
		}
		for range ks {
			w.embedKA = append(w.embedKA, rnd.Intn(3) == 0)
		}
		set.DIDs = append(set.DIDs, w.id)
		nodes := shapeNodes(rnd, shapesFor[d], big && nd == 1)
		states := make([]docState, len(nodes))
		first := len(set.Events)
		depth := make([]int, len(nodes))
		for i, nd := range nodes {
			var st docState
			switch nd.kind {
			case "create":
				st = w.initial(rnd, rich)
			case "deactivate":
				st = states[nd.parents[0]].clone()
				st.deactivated = true
				if rnd.Intn(2) == 0 {
					st.services = nil
				}
			case "revert":
				st = states[i-2].clone()
			case "create-clash":
				st = w.initial(rnd, rich)
				has := false
				for _, sv := range st.services {
					has = has || sv.typ == "NutsComm"
				}
				if !has {
					st.services = append(st.services, svc{typ: "NutsComm", ep: genEndpoint(rnd)})
				}
			case "clash":
				st = states[nd.parents[0]].clone()
				for k := range st.services {
					if st.services[k].typ == "NutsComm" {
						st.services[k].ep = fmt.Sprintf("grpc://branch%d.example.com:5555", i)
					}
				}
				have := false
				for _, ku := range st.keys {
					have = have || ku.k == 3
				}
				if !have {
					st.keys = append(st.keys, keyUse{k: 3, assert: true, keyAgr: true})
				}
				st.kaEmbed = map[int]bool{3: i%2 == 0}
			case "clash-drop":
				st = states[nd.parents[0]].clone()
				var keep []svc
				for _, sv := range st.services {
					if sv.typ != "NutsComm" {
						keep = append(keep, sv)
					}
				}
				st.services = keep
				var kk []keyUse
				for _, ku := range st.keys {
					if ku.k != 3 {
						kk = append(kk, ku)
					}
				}
				st.keys = kk
			default:
				st = w.mutate(rnd, states[nd.parents[0]], rich)
				if len(nd.parents) > 1 && !st.deactivated {
					// a resolution typically carries over something of the other branches too
					o := states[nd.parents[1]]
					if !o.deactivated && len(o.services) > 0 {
						have := map[string]bool{}
						for _, sv := range st.services {
							have[sv.typ] = true
						}
						if sv := o.services[rnd.Intn(len(o.services))]; !have[sv.typ] {
							st.services = append(st.services, sv)
						}
					}
				}
			}
			states[i] = st
			doc := w.build(st)
			payload, err := json.Marshal(doc)
			if err != nil {
				r.Fatalf("marshal generated document: %v", err)
			}
			// the generated document must be one the network layer accepts (same validator as ambassador.callback)
			var parsed did.Document
			if err := json.Unmarshal(payload, &parsed); err != nil {
				r.Fatalf("generated document does not parse: %v\n%s", err, payload)
			}
			if err := didnuts.NetworkDocumentValidator().Validate(parsed); err != nil {
				r.Fatalf("generated document is not acceptable to NetworkDocumentValidator: %v\n%s", err, payload)
			}
			deact := len(parsed.Controller) == 0 && len(parsed.CapabilityInvocation) == 0
			if deact != st.deactivated {
				r.Fatalf("generator: deactivation flag mismatch for %s", payload)
			}
			// Lamport clock and prevs as the DAG would have them
			clock := uint32(0)
			if len(nd.parents) == 0 {
				clock = uint32(rnd.Intn(40))
			}
			var prevs []hash.SHA256Hash
			for _, p := range nd.parents {
				pe := set.Events[first+p]
				prevs = append(prevs, pe.Tx.Ref)
				if pe.Tx.Clock+1 > clock {
					clock = pe.Tx.Clock + 1
				}
				if depth[p]+1 > depth[i] {
					depth[i] = depth[p] + 1
				}
			}
			if clockJitter && rnd.Intn(2) == 0 {
				clock += uint32(rnd.Intn(4)) // an unrelated prev with a higher clock
			}
			if unrelatedPrevs || len(prevs) == 0 && rnd.Intn(2) == 0 {
				for k := rnd.Intn(3); k > 0; k-- {
					prevs = append(prevs, hash.SHA256Sum([]byte(fmt.Sprintf("unrelated/%d/%d/%d/%d", idx, d, i, k))))
				}
				rnd.Shuffle(len(prevs), func(a, b int) { prevs[a], prevs[b] = prevs[b], prevs[a] })
			}
			var ts time.Time
			switch timeMode {
			case "monotone":
				ts = base.Add(time.Duration(len(set.Events))*time.Minute + time.Duration(rnd.Intn(50))*time.Second)
			case "equal-siblings":
				ts = base.Add(time.Duration(depth[i]) * time.Hour)
			case "all-equal":
				ts = base
			default: // clock skew between nodes: signing time unrelated to causal order
				ts = base.Add(time.Duration(rnd.Intn(7)-2) * 30 * time.Minute).Add(time.Duration(rnd.Intn(3)) * time.Millisecond)
			}
			if ts.After(set.maxTime) {
				set.maxTime = ts
			}
			e := evt{Label: fmt.Sprintf("e%d", len(set.Events)), DID: w.id, Kind: nd.kind, Payload: payload, Deact: deact, parents: nd.parents,
				Tx: didstore.Transaction{Clock: clock, PayloadHash: hash.SHA256Sum(payload), Previous: prevs, Ref: refOf(r.Seed(), idx, d, i), SigningTime: ts}}
			set.Events = append(set.Events, e)
		}
	}
	// exact duplicates: the same transaction is in the multiset more than once
	uniq := len(set.Events)
	for k := 0; k < dups && len(set.Events) < 7; k++ {
		d := set.Events[rnd.Intn(uniq)]
		d.Kind = "duplicate-of-" + d.Label
		set.Events = append(set.Events, d)
		if k == 0 {
			feat = append(feat, "exact-duplicates")
		}
	}
	set.Features = feat
	return set
}

// ---- orders ---------------------------------------------------------------------------------------------

func factorial(n int) int {
	f := 1
	for i := 2; i <= n; i++ {
		f *= i
	}
	return f
}

func allPerms(n int) [][]int {
	var out [][]int
	p := make([]int, n)
	for i := range p {
		p[i] = i
	}
	var rec func(k int)
	rec = func(k int) {
		if k == n {
			out = append(out, append([]int(nil), p...))
			return
		}
		for i := k; i < n; i++ {
			p[k], p[i] = p[i], p[k]
			rec(k + 1)
			p[k], p[i] = p[i], p[k]
		}
	}
	rec(0)
	return out
}

// orders returns the arrival orders to run for a set of n events: all permutations when n! <= limit,
// else identity, reverse and seeded distinct samples. The second result says whether it is exhaustive.
func orders(rnd *rand.Rand, n, limit int) ([][]int, bool) {
	if n <= 7 && factorial(n) <= limit {
		return allPerms(n), true
	}
	id := make([]int, n)
	rev := make([]int, n)
	for i := range id {
		id[i] = i
		rev[i] = n - 1 - i
	}
	out := [][]int{id, rev}
	seen := map[string]bool{fmt.Sprint(id): true, fmt.Sprint(rev): true}
	for len(out) < limit {
		p := rnd.Perm(n)
		if k := fmt.Sprint(p); !seen[k] {
			seen[k] = true
			out = append(out, p)
		}
	}
	return out, false
}

// ---- the digest -----------------------------------------------------------------------------------------------

// qres is the answer to one query. shape leaves out document content and hashes (so that one differing merged
// document does not show up as a difference of every query that returns it), full has everything.
type qres struct {
	Key   string `json:"query"`
	Shape string `json:"shape"`
	Full  string `json:"full"`
	Doc   string `json:"document,omitempty"`
}

type labeler map[string]string

func (l labeler) of(h hash.SHA256Hash) string {
	if s, ok := l[h.String()]; ok {
		return s
	}
	return h.String()[:10]
}

func errClass(err error) string {
	switch {
	case err == nil:
		return ""
	case errors.Is(err, resolver.ErrDeactivated):
		return "ERR:deactivated"
	case errors.Is(err, resolver.ErrNotFound):
		return "ERR:not-found"
	}
	return "ERR:unexpected:" + err.Error()
}

func metaStrings(lab labeler, m resolver.DocumentMetadata) (shape, full string) {
	var src []string
	for _, s := range m.SourceTransactions {
		src = append(src, lab.of(s))
	}
	sort.Strings(src) // SourceTransactions are compared as a SET
	upd := "-"
	if m.Updated != nil {
		upd = fmt.Sprint(m.Updated.UnixNano())
	}
	prev := "-"
	if m.PreviousHash != nil {
		prev = m.PreviousHash.String()
	}
	shape = fmt.Sprintf("src={%s} created=%d updated=%s deactivated=%v conflicted=%v hasPrev=%v", strings.Join(src, ","), m.Created.UnixNano(), upd, m.Deactivated, m.IsConflicted(), m.PreviousHash != nil)
	full = shape + " hash=" + m.Hash.String() + " prev=" + prev
	return
}

type panicErr struct{ v any }

func (p panicErr) Error() string { return fmt.Sprintf("panic: %v", p.v) }

func safeResolve(st didstore.Store, id did.DID, md *resolver.ResolveMetadata) (doc *did.Document, meta *resolver.DocumentMetadata, err error) {
	defer func() {
		if p := recover(); p != nil {
			err = panicErr{p}
		}
	}()
	return st.Resolve(id, md)
}

func safeAdd(st didstore.Store, doc did.Document, tx didstore.Transaction) (err error) {
	defer func() {
		if p := recover(); p != nil {
			err = panicErr{p}
		}
	}()
	return st.Add(doc, tx)
}

func query(st didstore.Store, lab labeler, key string, id did.DID, md *resolver.ResolveMetadata) (qres, *resolver.DocumentMetadata) {
	doc, meta, err := safeResolve(st, id, md)
	if err != nil {
		return qres{Key: key, Shape: errClass(err), Full: errClass(err)}, nil
	}
	if doc == nil || meta == nil {
		return qres{Key: key, Shape: "ERR:unexpected:nil result without error", Full: "nil"}, nil
	}
	b := docBytes(*doc)
	sh, full := metaStrings(lab, *meta)
	if !doc.ID.Equals(id) {
		sh += " WRONG-ID=" + doc.ID.String()
	}
	return qres{Key: key, Shape: sh, Full: full + " doc=" + string(b), Doc: string(b)}, meta
}

// docBytes serialises a document completely and deterministically (members in struct order, context and controller
// always as lists; the library's own MarshalJSON makes two more passes to turn one-element lists into strings).
func docBytes(doc did.Document) string {
	type plain did.Document
	b, err := json.Marshal(plain(doc))
	if err != nil {
		return "unmarshallable: " + err.Error()
	}
	return string(b)
}

// digest asks the store everything the property lists. Keys are functions of the event set only (versions found by
// walking the hash chain are keyed by their identity: source transaction set + update time).
// Queries without AllowDeactivated are repeated for by-ref/by-hash/by-time only when the set contains a deactivation
// (without one both forms take the same path through the store).
func digest(st didstore.Store, set *eventSet, lab labeler) []qres {
	var out []qres
	add := func(q qres, _ *resolver.DocumentMetadata) { out = append(out, q) }
	for di, id := range set.DIDs {
		p := fmt.Sprintf("did%d/", di)
		both := false
		for _, e := range set.Events {
			if e.Deact && e.DID.Equals(id) {
				both = true
			}
		}
		add(query(st, lab, p+"latest/active", id, nil))
		add(query(st, lab, p+"latest/active-explicit", id, &resolver.ResolveMetadata{}))
		q, latest := query(st, lab, p+"latest/allow-deactivated", id, &resolver.ResolveMetadata{AllowDeactivated: true})
		out = append(out, q)
		var times []time.Time
		seenRef := map[string]bool{}
		type ans struct {
			q qres
			m *resolver.DocumentMetadata
		}
		byHashAllow := map[string]ans{} // identical queries are asked once
		for _, e := range set.Events {
			if !e.DID.Equals(id) || seenRef[e.Tx.Ref.String()] {
				continue
			}
			seenRef[e.Tx.Ref.String()] = true
			ref, ph := e.Tx.Ref, e.Tx.PayloadHash
			add(query(st, lab, p+"by-ref/"+e.Label+"/allow-deactivated", id, &resolver.ResolveMetadata{SourceTransaction: &ref, AllowDeactivated: true}))
			a, ok := byHashAllow[ph.String()]
			if !ok {
				a.q, a.m = query(st, lab, "", id, &resolver.ResolveMetadata{Hash: &ph, AllowDeactivated: true})
				byHashAllow[ph.String()] = a
			}
			a.q.Key = p + "by-hash/payload-" + e.Label + "/allow-deactivated"
			out = append(out, a.q)
			if both {
				add(query(st, lab, p+"by-ref/"+e.Label+"/active", id, &resolver.ResolveMetadata{SourceTransaction: &ref}))
				add(query(st, lab, p+"by-hash/payload-"+e.Label+"/active", id, &resolver.ResolveMetadata{Hash: &ph}))
			}
			times = append(times, e.Tx.SigningTime)
		}
		// every version hash: walk the version chain from the latest version along previousHash
		identity := map[string]int{}
		next := latest
		visited := map[string]bool{}
		for k := 0; next != nil && k <= len(set.Events)+1; k++ {
			h := next.Hash
			if visited[h.String()] {
				// two versions with the same hash: resolving by hash yields the later one, the walk cannot get past it
				break
			}
			visited[h.String()] = true
			a, ok := byHashAllow[h.String()]
			if !ok {
				a.q, a.m = query(st, lab, "", id, &resolver.ResolveMetadata{Hash: &h, AllowDeactivated: true})
			}
			q, m := a.q, a.m
			ident := "unresolvable"
			if m != nil {
				ident = q.Shape[:strings.Index(q.Shape, " deactivated=")]
			}
			identity[ident]++
			key := fmt.Sprintf("%sby-hash/version[%s]#%d", p, ident, identity[ident])
			q.Key = key + "/allow-deactivated"
			out = append(out, q)
			if both {
				add(query(st, lab, key+"/active", id, &resolver.ResolveMetadata{Hash: &h}))
			}
			if m == nil || m.PreviousHash == nil {
				break
			}
			next = &resolver.DocumentMetadata{Hash: *m.PreviousHash}
		}
		// times at and between all signing times
		sort.Slice(times, func(i, j int) bool { return times[i].Before(times[j]) })
		var probes []time.Time
		var names []string
		nt := 0
		for i, t := range times {
			if i == 0 {
				probes, names = append(probes, t.Add(-time.Second)), append(names, "before-t0")
			} else if t.Equal(times[i-1]) {
				continue
			} else {
				probes, names = append(probes, times[i-1].Add(t.Sub(times[i-1])/2)), append(names, fmt.Sprintf("between-t%d-t%d", nt-1, nt))
			}
			probes, names = append(probes, t), append(names, fmt.Sprintf("at-t%d", nt))
			nt++
		}
		if len(times) > 0 {
			probes, names = append(probes, times[len(times)-1].Add(time.Second)), append(names, "after-last")
		}
		for i := range probes {
			t := probes[i]
			add(query(st, lab, p+"by-time/"+names[i]+"/allow-deactivated", id, &resolver.ResolveMetadata{ResolveTime: &t, AllowDeactivated: true}))
			if both {
				add(query(st, lab, p+"by-time/"+names[i]+"/active", id, &resolver.ResolveMetadata{ResolveTime: &t}))
			}
		}
		// published history
		hist, err := st.HistorySinceVersion(id, 0)
		hs := errClass(err)
		var hf []string
		for _, h := range hist {
			hf = append(hf, fmt.Sprintf("v%d created=%d updated=%d raw=%s", h.Version, h.Created.UnixNano(), h.Updated.UnixNano(), h.Raw))
		}
		out = append(out, qres{Key: p + "history", Shape: fmt.Sprintf("%s versions=%d", hs, len(hist)), Full: hs + strings.Join(hf, "\n")})
	}
	cc, err := st.ConflictedCount()
	out = append(out, qres{Key: "conflicted-count", Shape: fmt.Sprintf("%d %s", cc, errClass(err)), Full: fmt.Sprintf("%d %s", cc, errClass(err))})
	dc, err := st.DocumentCount()
	out = append(out, qres{Key: "document-count", Shape: fmt.Sprintf("%d %s", dc, errClass(err)), Full: fmt.Sprintf("%d %s", dc, errClass(err))})
	out = append(out, iterDigest("conflicted-set", lab, st.Conflicted)...)
	out = append(out, iterDigest("iterate", lab, st.Iterate)...)
	return out
}

func iterDigest(key string, lab labeler, it func(resolver.DocIterator) error) []qres {
	type row struct{ id, shape, full, doc string }
	var rows []row
	err := it(func(doc did.Document, m resolver.DocumentMetadata) error {
		sh, full := metaStrings(lab, m)
		rows = append(rows, row{doc.ID.String(), sh, full, docBytes(doc)})
		return nil
	})
	sort.Slice(rows, func(i, j int) bool { return rows[i].id < rows[j].id })
	out := []qres{{Key: key + "/members", Shape: errClass(err), Full: errClass(err)}}
	for _, rw := range rows {
		out[0].Shape += " " + rw.id
		out[0].Full += " " + rw.id
		out = append(out, qres{Key: key + "/" + rw.id, Shape: rw.shape, Full: rw.full + " doc=" + rw.doc, Doc: rw.doc})
	}
	return out
}

func digestHash(d []qres) string {
	h := sha256.New()
	for _, q := range d {
		h.Write([]byte(q.Key))
		h.Write([]byte{0})
		h.Write([]byte(q.Full))
		h.Write([]byte{1})
	}
	return hex.EncodeToString(h.Sum(nil)[:12])
}

// ---- one run: one order on one fresh store ---------------------------------------------------------------

type finding struct {
	key, what string
	witness   map[string]any
}

type runResult struct {
	order       []int
	replica     int
	variant     string
	digests     [][]qres // final digest; with reopen variants also the digest after reopening from disk
	stage       []string
	findings    []finding
	unspec      map[string]int
	adds        int
	redeliver   int
	reopens     int
	online      int
	countChecks int
	headChecks  int
	broken      string
}

func orderString(set *eventSet, order []int) string {
	var s []string
	for _, i := range order {
		s = append(s, set.Events[i].Label)
	}
	return strings.Join(s, ",")
}

// run delivers the events of set in the given order to a fresh store. replica 0 is a plain run; higher
// replicas also re-deliver already delivered transactions at seeded positions, reopen the store from disk at a
// seeded position and take the digest both before and after a final reopen.
func run(r *ev.Run, set *eventSet, lab labeler, oi int, order []int, replica int) (res runResult) {
	res = runResult{order: order, replica: replica, variant: "plain", unspec: map[string]int{}}
	rnd := r.Rand(fmt.Sprintf("run/%d/%d/%d", set.Index, oi, replica))
	dir, err := os.MkdirTemp("", "c10-")
	if err != nil {
		res.broken = err.Error()
		return
	}
	defer os.RemoveAll(dir)
	e, err := openEnv(dir)
	if err != nil {
		res.broken = err.Error()
		return
	}
	defer func() { e.close() }()
	redeliver, midReopen := false, -1
	if replica > 0 {
		res.variant = "redeliver+reopen"
		redeliver = true
		if rnd.Intn(2) == 0 {
			midReopen = rnd.Intn(len(order))
		}
	}
	deliver := func(i int, again bool) {
		ev := set.Events[i]
		// as ambassador.callback does: the document handed to the store is the unmarshalled payload
		var doc did.Document
		if err := json.Unmarshal(ev.Payload, &doc); err != nil {
			res.broken = "payload does not parse: " + err.Error()
			return
		}
		if err := safeAdd(e.st, doc, ev.Tx); err != nil {
			site := "Add"
			if _, ok := err.(panicErr); ok {
				site = "panic/Add"
			}
			res.findings = append(res.findings, finding{"C10/" + site + "/accepted-transaction-refused", fmt.Sprintf("Add of accepted transaction %s (%s) failed in arrival order [%s]: %v", ev.Label, ev.Kind, orderString(set, order), err),
				map[string]any{"order": orderString(set, order), "event": ev.Label, "redelivery": again, "error": err.Error()}})
		}
		res.adds++
	}
	deactDelivered := map[string]bool{}
	delivered := map[string]bool{}
	after := set.maxTime.Add(time.Hour)
	for pos, i := range order {
		deliver(i, false)
		if res.broken != "" {
			return
		}
		if set.Events[i].Deact {
			deactDelivered[set.Events[i].DID.String()] = true
		}
		if redeliver && rnd.Intn(3) == 0 {
			deliver(order[rnd.Intn(pos+1)], true)
			res.redeliver++
		}
		if pos == midReopen {
			if err := e.reopen(); err != nil {
				res.broken = "reopen: " + err.Error()
				return
			}
			res.reopens++
		}
		// online: once a deactivation of a DID has been delivered, the DID never resolves as active, whatever arrives
		for _, id := range set.DIDs {
			if !deactDelivered[id.String()] {
				continue
			}
			res.online++
			w := map[string]any{"order": orderString(set, order), "delivered": orderString(set, order[:pos+1])}
			doc, _, err := safeResolve(e.st, id, nil)
			if err == nil && doc != nil {
				b, _ := json.Marshal(doc)
				w["resolved"] = string(b)
				res.findings = append(res.findings, finding{"C10/deactivated-resolves-active/latest", fmt.Sprintf("after delivering [%s] (a deactivation is among them) Resolve(latest) returns an active document", orderString(set, order[:pos+1])), w})
			} else if !errors.Is(err, resolver.ErrDeactivated) {
				w["error"] = fmt.Sprint(err)
				res.findings = append(res.findings, finding{"C10/deactivated-resolves-active/latest-error", fmt.Sprintf("after delivering [%s] (a deactivation is among them) Resolve(latest) fails with %v instead of ErrDeactivated", orderString(set, order[:pos+1]), err), w})
			}
			_, meta, err := safeResolve(e.st, id, &resolver.ResolveMetadata{AllowDeactivated: true})
			if err != nil || meta == nil || !meta.Deactivated {
				w["error"] = fmt.Sprint(err)
				res.findings = append(res.findings, finding{"C10/deactivated-resolves-active/flag", fmt.Sprintf("after delivering [%s] (a deactivation is among them) the latest version is not flagged deactivated (err=%v)", orderString(set, order[:pos+1]), err), w})
			}
			// The text does not say what a resolve *by time* at a moment after the deactivation must answer without AllowDeactivated.
			if doc, m, err := safeResolve(e.st, id, &resolver.ResolveMetadata{ResolveTime: &after}); err == nil && doc != nil && !m.Deactivated {
				res.unspec["resolve-by-time-after-deactivation-returns-older-active-version"]++
			}
		}
		// online: conflicted status and the counts agree with each other after every delivery
		delivered[set.Events[i].DID.String()] = true
		checkCounts(e.st, set, delivered, orderString(set, order), orderString(set, order[:pos+1]), &res)
	}
	res.digests = append(res.digests, digest(e.st, set, lab))
	res.stage = append(res.stage, "after-last-add")
	checkHeads(e.st, set, lab, orderString(set, order), &res)
	if replica > 0 {
		if err := e.reopen(); err != nil {
			res.broken = "reopen: " + err.Error()
			return
		}
		res.reopens++
		res.digests = append(res.digests, digest(e.st, set, lab))
		res.stage = append(res.stage, "after-reopen-from-disk")
	}
	return
}

// checkCounts: "the same ... conflicted status and counts" - the number of conflicted documents the store reports, the
// documents its Conflicted() iterator yields and the DIDs whose latest version is conflicted are the same number; the
// document count is the number of DIDs of which a transaction was delivered.
func checkCounts(st didstore.Store, set *eventSet, delivered map[string]bool, order, prefix string, res *runResult) {
	res.countChecks++
	conflictedLatest := 0
	for _, id := range set.DIDs {
		if !delivered[id.String()] {
			continue
		}
		if _, m, err := safeResolve(st, id, &resolver.ResolveMetadata{AllowDeactivated: true}); err == nil && m != nil && m.IsConflicted() {
			conflictedLatest++
		}
	}
	cc, err1 := st.ConflictedCount()
	iter := 0
	err2 := st.Conflicted(func(did.Document, resolver.DocumentMetadata) error { iter++; return nil })
	if err1 != nil || err2 != nil || int(cc) != conflictedLatest || iter != conflictedLatest {
		res.findings = append(res.findings, finding{"C10/count-mismatch/conflicted", fmt.Sprintf("after delivering [%s]: ConflictedCount()=%d (err=%v), Conflicted() yields %d (err=%v), but %d DID(s) resolve to a conflicted latest version", prefix, cc, err1, iter, err2, conflictedLatest),
			map[string]any{"order": order, "delivered": prefix, "conflictedCount": cc, "conflictedIterator": iter, "conflictedLatest": conflictedLatest}})
	}
	dc, err := st.DocumentCount()
	if err != nil || int(dc) != len(delivered) {
		res.findings = append(res.findings, finding{"C10/count-mismatch/documents", fmt.Sprintf("after delivering [%s]: DocumentCount()=%d (err=%v) but transactions of %d DID(s) were delivered", prefix, dc, err, len(delivered)),
			map[string]any{"order": order, "delivered": prefix, "documentCount": dc, "dids": len(delivered)}})
	}
}

// checkHeads: "parallel updates are merged into one conflicted document, a later update that references all branches resolves
// the conflict". With Lamport-consistent clocks every transaction is ordered after the ones it references, so once the whole set is
// delivered the latest version stems from exactly the transactions of the DID that no other transaction of the DID references
// (its heads): one head = not conflicted and the head's own document; several = conflicted with exactly these sources.
func checkHeads(st didstore.Store, set *eventSet, lab labeler, order string, res *runResult) {
	for _, id := range set.DIDs {
		referenced := map[string]bool{}
		for _, e := range set.Events {
			if e.DID.Equals(id) {
				for _, p := range e.Tx.Previous {
					referenced[p.String()] = true
				}
			}
		}
		heads := map[string]*evt{}
		for i := range set.Events {
			e := &set.Events[i]
			if e.DID.Equals(id) && !referenced[e.Tx.Ref.String()] {
				heads[e.Tx.Ref.String()] = e
			}
		}
		var want []string
		for _, e := range heads {
			want = append(want, e.Label)
		}
		sort.Strings(want)
		res.headChecks++
		doc, m, err := safeResolve(st, id, &resolver.ResolveMetadata{AllowDeactivated: true})
		if err != nil || m == nil {
			res.findings = append(res.findings, finding{"C10/resolution/latest-unresolvable", fmt.Sprintf("after order [%s] the latest version does not resolve: %v", order, err), map[string]any{"order": order}})
			continue
		}
		var got []string
		for _, s := range m.SourceTransactions {
			got = append(got, lab.of(s))
		}
		sort.Strings(got)
		w := map[string]any{"order": order, "heads": want, "sourceTransactions": got, "conflicted": m.IsConflicted()}
		if !reflect.DeepEqual(got, want) {
			site := "conflict-not-resolved"
			if len(got) < len(want) {
				site = "branch-lost"
			}
			res.findings = append(res.findings, finding{"C10/resolution/" + site, fmt.Sprintf("after order [%s] the latest version stems from {%s} but the unreferenced transactions (branches) of the DID are {%s}", order, strings.Join(got, ","), strings.Join(want, ",")), w})
			continue
		}
		// a DID with one creation transaction: every version carries that transaction's signing time as creation time
		var creations []*evt
		seenC := map[string]bool{}
		for i := range set.Events {
			e := &set.Events[i]
			if e.DID.Equals(id) && len(e.parents) == 0 && !seenC[e.Tx.Ref.String()] {
				seenC[e.Tx.Ref.String()] = true
				creations = append(creations, e)
			}
		}
		if len(creations) == 1 && !m.Created.Equal(creations[0].Tx.SigningTime) {
			w["created"], w["creationSigningTime"] = m.Created.Format(time.RFC3339Nano), creations[0].Tx.SigningTime.Format(time.RFC3339Nano)
			res.findings = append(res.findings, finding{"C10/resolution/created-time", fmt.Sprintf("after order [%s] the latest version says it was created at %s, the only creation transaction %s was signed at %s", order, m.Created.Format(time.RFC3339Nano), creations[0].Label, creations[0].Tx.SigningTime.Format(time.RFC3339Nano)), w})
		}
		if len(want) == 1 {
			head := heads[m.SourceTransactions[0].String()]
			var pub did.Document
			_ = json.Unmarshal(head.Payload, &pub)
			if !m.Hash.Equals(head.Tx.PayloadHash) || docBytes(*doc) != docBytes(pub) {
				w["resolved"], w["published"] = docBytes(*doc), docBytes(pub)
				res.findings = append(res.findings, finding{"C10/resolution/not-the-resolving-document", fmt.Sprintf("after order [%s] the only head is %s but the latest version is not its document (hash %s, payload hash %s)", order, head.Label, m.Hash, head.Tx.PayloadHash), w})
			}
		}
	}
}

// ---- comparison and classification --------------------------------------------------------------------------

func classOf(key string) string {
	k := key
	if strings.HasPrefix(k, "did") {
		if i := strings.Index(k, "/"); i > 0 {
			k = k[i+1:]
		}
	}
	switch {
	case strings.HasPrefix(k, "latest"):
		return "latest"
	case strings.HasPrefix(k, "by-ref"):
		return "resolve-by-source-transaction"
	case strings.HasPrefix(k, "by-hash"):
		return "resolve-by-hash"
	case strings.HasPrefix(k, "by-time"):
		return "resolve-by-time"
	case strings.HasPrefix(k, "history"):
		return "history"
	case strings.HasPrefix(k, "conflicted-count"):
		return "conflicted-count"
	case strings.HasPrefix(k, "document-count"):
		return "document-count"
	case strings.HasPrefix(k, "conflicted-set"):
		return "conflicted-set"
	case strings.HasPrefix(k, "iterate"):
		return "iterate"
	}
	return "other"
}

// docFieldDiff names the top-level members in which two JSON documents differ and whether they only differ in order.
func docFieldDiff(a, b string) (orderOnly, content []string) {
	var ma, mb map[string]json.RawMessage
	if json.Unmarshal([]byte(a), &ma) != nil || json.Unmarshal([]byte(b), &mb) != nil {
		return nil, []string{"unparseable"}
	}
	keys := map[string]bool{}
	for k := range ma {
		keys[k] = true
	}
	for k := range mb {
		keys[k] = true
	}
	norm := func(raw json.RawMessage) []string {
		var arr []json.RawMessage
		if json.Unmarshal(raw, &arr) != nil {
			arr = []json.RawMessage{raw}
		}
		var out []string
		for _, el := range arr {
			var v any
			_ = json.Unmarshal(el, &v)
			c, _ := json.Marshal(v) // canonical member order
			out = append(out, string(c))
		}
		return out
	}
	for k := range keys {
		if string(ma[k]) == string(mb[k]) {
			continue
		}
		name := strings.TrimPrefix(k, "@")
		ea, eb := norm(ma[k]), norm(mb[k])
		if reflect.DeepEqual(ea, eb) {
			continue
		}
		sa, sb := append([]string(nil), ea...), append([]string(nil), eb...)
		sort.Strings(sa)
		sort.Strings(sb)
		if reflect.DeepEqual(sa, sb) {
			orderOnly = append(orderOnly, name)
		} else {
			content = append(content, name)
		}
	}
	sort.Strings(orderOnly)
	sort.Strings(content)
	return
}

type diffEntry struct {
	Query string `json:"query"`
	A     string `json:"a"`
	B     string `json:"b"`
}

// compare returns violation keys (with the differing queries) between two digests of the same event set.
func compare(a, b []qres) map[string][]diffEntry {
	out := map[string][]diffEntry{}
	ma := map[string]qres{}
	for _, q := range a {
		ma[q.Key] = q
	}
	mb := map[string]qres{}
	for _, q := range b {
		mb[q.Key] = q
	}
	var keys []string
	for k := range ma {
		keys = append(keys, k)
	}
	for k := range mb {
		if _, ok := ma[k]; !ok {
			keys = append(keys, k)
		}
	}
	sort.Strings(keys)
	shapeDiff := false
	for _, k := range keys {
		qa, oka := ma[k]
		qb, okb := mb[k]
		if !oka || !okb || qa.Shape != qb.Shape {
			shapeDiff = true
			key := "C10/order-dependence/" + classOf(k)
			va, vb := qa.Shape, qb.Shape
			if !oka {
				va = "(query not applicable: version chain shorter)"
			}
			if !okb {
				vb = "(query not applicable: version chain shorter)"
			}
			out[key] = append(out[key], diffEntry{k, va, vb})
		}
	}
	docDiff := false
	for _, k := range keys {
		qa, qb := ma[k], mb[k]
		if qa.Doc != "" && qb.Doc != "" && qa.Doc != qb.Doc {
			docDiff = true
			oo, cc := docFieldDiff(qa.Doc, qb.Doc)
			for _, f := range oo {
				key := "C10/merge-order/" + f
				out[key] = append(out[key], diffEntry{k, qa.Doc, qb.Doc})
			}
			for _, f := range cc {
				key := "C10/merge-content/" + f
				out[key] = append(out[key], diffEntry{k, qa.Doc, qb.Doc})
			}
			if len(oo)+len(cc) == 0 {
				key := "C10/merge-order/document-bytes"
				out[key] = append(out[key], diffEntry{k, qa.Doc, qb.Doc})
			}
		}
	}
	if !shapeDiff && !docDiff {
		for _, k := range keys {
			if ma[k].Full != mb[k].Full {
				key := "C10/order-dependence/content/" + classOf(k)
				out[key] = append(out[key], diffEntry{k, ma[k].Full, mb[k].Full})
			}
		}
	}
	return out
}

func (s *eventSet) witness(lab labeler) []map[string]any {
	var out []map[string]any
	for _, e := range s.Events {
		var prevs []string
		for _, p := range e.Tx.Previous {
			prevs = append(prevs, lab.of(p))
		}
		out = append(out, map[string]any{"label": e.Label, "did": e.DID.String(), "kind": e.Kind, "clock": e.Tx.Clock, "signingTime": e.Tx.SigningTime.Format(time.RFC3339Nano),
			"ref": e.Tx.Ref.String(), "prevs": prevs, "payloadHash": e.Tx.PayloadHash.String(), "document": json.RawMessage(e.Payload), "deactivation": e.Deact})
	}
	return out
}

// ---- the check ------------------------------------------------------------------------------------------------------

// seen is the representative (lowest run index) of one distinct digest of a set.
type seen struct {
	idx     int // (order index * replicas + replica) * 2 + stage
	order   []int
	replica int
	variant string
	stage   string
	d       []qres
}

type runInfo struct {
	hashes   []string
	findings []finding
	unspec   map[string]int
	adds     int
	redeliv  int
	reopens  int
	online   int
	counts   int
	heads    int
	queries  int
	broken   string
}

type setWork struct {
	set        *eventSet
	lab        labeler
	ords       [][]int
	exhaustive bool
	distinctTx int
	mu         sync.Mutex
	byHash     map[string]*seen
	runs       [][]runInfo // [order][replica]
}

func TestCheck(t *testing.T) {
	r := ev.Start(t, "C10", "exploration")
	defer r.Finish()
	r.SetRule("cases = (event set, arrival order, store replica). Event sets are generated from (seed, index): shapes " + strings.Join(shapes, "/") +
		" x document richness (several controllers/services/keys, embedded key agreement keys, content-derived or reused service ids) x time mode (monotone, equal siblings, all equal, skewed) x clock jitter x unrelated prevs x exact duplicates; " +
		"every generated document passes the real NetworkDocumentValidator and is handed to the real didstore (bbolt file) as the unmarshalled payload with Lamport-consistent clocks. " +
		"Orders: all permutations when n! <= the tier's limit, else identity+reverse+seeded samples; every order on a fresh store, replicas >0 additionally re-deliver duplicates, reopen mid-way and compare the digest before/after a final reopen. " +
		"Besides digest equality: online after every Add deactivation stickiness and agreement of conflicted count / Conflicted() / latest conflicted status / document count; after the last Add sources of the latest version = unreferenced transactions of the DID. " +
		"A case is non-trivial when the set has >= 2 distinct transactions; distinct by (set, order, replica).")
	r.Require(500, 200)
	r.Assume("a bbolt-backed store; the redis back end is not exercised")
	r.Assume("event sets respect what the DAG guarantees: clock(tx) > clock(prev) for every prev, unique refs; signing times are NOT assumed to follow causal order")
	r.Assume("transactions are delivered one at a time (the ambassador is a single sequential subscriber); concurrent Add is out of scope")

	nSets := r.Pick(40, 169)
	limit := r.Pick(24, 120)
	// independent stores per order: quick 2; thorough 3 for sets with <= 24 orders, else alternately 2 and 1
	// (measured cost is ~0.2 CPU-s per store under -race, so the 144k stores of the design estimate do not fit the budget)
	repsOf := func(nOrders, oi int) int {
		switch {
		case !r.Thorough():
			return 2
		case nOrders <= 24:
			return 3
		case oi%2 == 0:
			return 2
		}
		return 1
	}
	if s := os.Getenv("C10_SETS"); s != "" {
		fmt.Sscan(s, &nSets)
	}

	krnd := r.Rand("keys")
	var keys []keyMat
	for i := 0; i < 12; i++ {
		keys = append(keys, genKey(krnd))
	}

	works := make([]*setWork, nSets)
	planned := 0
	for si := range works {
		set := genSet(r, si, keys)
		w := &setWork{set: set, lab: labeler{}, byHash: map[string]*seen{}}
		dt := map[string]bool{}
		for _, e := range set.Events {
			w.lab[e.Tx.Ref.String()] = e.Label
			dt[e.Tx.Ref.String()] = true
		}
		w.distinctTx = len(dt)
		w.ords, w.exhaustive = orders(r.Rand(fmt.Sprintf("orders/%d", si)), len(set.Events), limit)
		w.runs = make([][]runInfo, len(w.ords))
		for oi := range w.ords {
			w.runs[oi] = make([]runInfo, repsOf(len(w.ords), oi))
			planned += len(w.runs[oi])
		}
		works[si] = w
	}

	workers := runtime.GOMAXPROCS(0)
	if workers > 16 {
		workers = 16
	}
	type job struct{ si, oi, rep int }
	jobs := make(chan job, 64)
	var wg sync.WaitGroup
	for k := 0; k < workers; k++ {
		wg.Add(1)
		go func() {
			defer wg.Done()
			for j := range jobs {
				w := works[j.si]
				res := run(r, w.set, w.lab, j.oi, w.ords[j.oi], j.rep)
				ri := runInfo{findings: res.findings, unspec: res.unspec, adds: res.adds, redeliv: res.redeliver, reopens: res.reopens, online: res.online, counts: res.countChecks, heads: res.headChecks, broken: res.broken}
				for di, d := range res.digests {
					h := digestHash(d)
					ri.hashes = append(ri.hashes, h)
					ri.queries += len(d)
					for _, q := range d {
						if strings.Contains(q.Shape, "ERR:unexpected") {
							ri.findings = append(ri.findings, finding{"C10/resolve-error/" + classOf(q.Key), fmt.Sprintf("query %s failed after order [%s]: %s", q.Key, orderString(w.set, res.order), q.Shape),
								map[string]any{"order": orderString(w.set, res.order), "query": q.Key, "answer": q.Shape}})
						}
					}
					idx := (j.oi*4+j.rep)*2 + di
					w.mu.Lock()
					if s, ok := w.byHash[h]; !ok || idx < s.idx {
						w.byHash[h] = &seen{idx, res.order, res.replica, res.variant, res.stage[di], d}
					}
					w.mu.Unlock()
				}
				w.runs[j.oi][j.rep] = ri
			}
		}()
	}
	for si, w := range works {
		for oi := range w.ords {
			for rep := range w.runs[oi] {
				jobs <- job{si, oi, rep}
			}
		}
	}
	close(jobs)
	wg.Wait()

	// report in a fixed order
	type perSet struct {
		Set        string   `json:"set"`
		Features   []string `json:"features"`
		Events     int      `json:"events"`
		Orders     int      `json:"orders"`
		Stores     int      `json:"stores"`
		Digests    int      `json:"digests_taken"`
		Distinct   int      `json:"distinct_digests"`
		Exhaustive bool     `json:"exhaustive"`
	}
	var summary []perSet
	allExhaustive := true
	setsWithDifference := 0
	for _, w := range works {
		set, lab := w.set, w.lab
		digests, stores := 0, 0
		sameOrderDiffers := 0
		for oi, ord := range w.ords {
			hs := map[string]bool{}
			for rep := range w.runs[oi] {
				stores++
				ri := &w.runs[oi][rep]
				if ri.broken != "" {
					r.Fatalf("harness failure in %s order [%s]: %s", set.name(), orderString(set, ord), ri.broken)
				}
				r.Case(fmt.Sprintf("%s/%s/%d", set.name(), orderString(set, ord), rep), w.distinctTx >= 2)
				r.Count("adds", ri.adds)
				r.Count("redeliveries", ri.redeliv)
				r.Count("reopens_from_disk", ri.reopens)
				r.Count("online_deactivation_checks", ri.online)
				r.Count("online_count_consistency_checks", ri.counts)
				r.Count("final_head_checks", ri.heads)
				r.Count("queries_answered", ri.queries)
				r.Count("stores", 1)
				for k, n := range ri.unspec {
					for ; n > 0; n-- {
						r.Unspecified(k)
					}
				}
				for _, f := range ri.findings {
					f.witness["set"] = set.name()
					f.witness["features"] = set.Features
					f.witness["events"] = set.witness(lab)
					r.Violation(f.key, set.name()+": "+f.what, f.witness)
				}
				for _, h := range ri.hashes {
					hs[h] = true
					digests++
				}
			}
			if len(hs) > 1 {
				sameOrderDiffers++
			}
		}
		r.Count("orders_run", len(w.ords))
		r.Count("digests_compared", digests)
		r.Count("event_sets", 1)
		r.Distinct("shapes", set.Shape)
		for _, f := range set.Features {
			r.Distinct("features", f)
		}
		if w.exhaustive {
			r.Count("event_sets_exhaustive", 1)
		} else {
			allExhaustive = false
		}
		summary = append(summary, perSet{set.name(), set.Features, len(set.Events), len(w.ords), stores, digests, len(w.byHash), w.exhaustive})
		var reps []*seen
		for _, s := range w.byHash {
			reps = append(reps, s)
		}
		sort.Slice(reps, func(i, j int) bool { return reps[i].idx < reps[j].idx })
		if set.Index < 4 {
			r.Sample(map[string]any{"set": set.name(), "features": set.Features, "events": set.witness(lab), "orders": len(w.ords), "exhaustive": w.exhaustive, "stores": stores,
				"distinct_digests": len(w.byHash), "queries_per_digest": len(reps[0].d), "example_order": orderString(set, w.ords[len(w.ords)-1])})
		}
		if len(reps) > 1 {
			setsWithDifference++
			ref := reps[0]
			for _, other := range reps[1:] {
				cmp := compare(ref.d, other.d)
				var ckeys []string
				for k := range cmp {
					ckeys = append(ckeys, k)
				}
				sort.Strings(ckeys)
				for _, key := range ckeys {
					diffs := cmp[key]
					if len(diffs) > 6 {
						diffs = diffs[:6]
					}
					r.Violation(key, fmt.Sprintf("%s %v: %d distinct resolution digests over %d orders on %d stores (%d orders give different digests on identical deliveries); order [%s] (%s, replica %d) and order [%s] (%s, replica %d) differ in %s: %q vs %q",
						set.name(), set.Features, len(reps), len(w.ords), stores, sameOrderDiffers, orderString(set, ref.order), ref.stage, ref.replica, orderString(set, other.order), other.stage, other.replica,
						diffs[0].Query, clip(diffs[0].A), clip(diffs[0].B)),
						map[string]any{"set": set.name(), "features": set.Features, "events": set.witness(lab), "order_a": orderString(set, ref.order), "stage_a": ref.stage, "variant_a": ref.variant,
							"order_b": orderString(set, other.order), "stage_b": other.stage, "variant_b": other.variant, "differences": diffs, "distinct_digests": len(reps), "orders_with_nondeterministic_result": sameOrderDiffers})
				}
			}
		}
	}
	r.Exhaustive(allExhaustive)
	r.Extra("per_set", summary)
	r.Extra("event_sets_with_more_than_one_digest", setsWithDifference)
	r.Extra("order_limit_per_set", limit)
	r.Extra("stores_per_order", map[string]any{"quick": 2, "thorough": "3 for sets with <= 24 orders, else alternately 2 and 1"})
	r.Extra("stores_planned", planned)
}

func clip(s string) string {
	if len(s) > 300 {
		return s[:300] + "…"
	}
	return s
}
