package c12

// The discovery client's use of presentation exchange (discovery/module.go): a registration on a Discovery Service is a JWT
// presentation WITHOUT a submission; Module.Search re-matches the presentation's credentials against the service's
// Presentation Definition, pairs the descriptor mappings with credentials itself and feeds that map to
// ResolveConstraintsFields (SearchResult.Fields = the named constraint fields). That pairing is code outside package pe and
// is reached by none of the other legs.
//
// Driven here: a real discovery.Module (real SQL store, real Register -> verifyRegistration -> validateRegistration, real
// Search) that serves one Discovery Service per chosen case, the service's Presentation Definition being the generated
// definition. Only the signature check is faked (vcr.VCR whose Verifier accepts every presentation: signatures are not part of
// this property). Per case the credentials the wallet selected are registered by several holders, each listing them in another
// order (descriptor order as the node's own wallet emits them, reversed, rotated, seeded shuffle): the order of credentials in a
// presentation is the holder's choice. Search is then called without a query and with queries that select on one credential.
//
// Oracle: cases are only taken when the reference decides the mapping a registration has whatever the order: among the
// registered credentials every selected descriptor is satisfied by exactly its own credential and by no other, every
// credential satisfies exactly its own descriptor, no other descriptor of the definition is satisfied by any of them
// (reference matrix, all pairs decided). A sound mapping of those credentials is then the wallet's selection itself, so the
// fields Search reports must equal what the reference reads in the credential mapped to each field's descriptor. Whether the
// server takes a registration and whether Search lists it is not stated by the property: counted, never a violation.

import (
	"context"
	"encoding/json"
	"fmt"
	"os"
	"path/filepath"
	"runtime/debug"
	"sort"
	"strings"
	"testing"
	"time"

	ssi "github.com/nuts-foundation/go-did"
	"github.com/nuts-foundation/go-did/vc"
	"github.com/nuts-foundation/nuts-node/core"
	"github.com/nuts-foundation/nuts-node/discovery"
	"github.com/nuts-foundation/nuts-node/storage"
	"github.com/nuts-foundation/nuts-node/vcr"
	"github.com/nuts-foundation/nuts-node/vcr/verifier"
	"verif/lib/ev"
)

// discCase: the wallet's selection in Match (= input descriptor) order.
type discCase struct {
	pairs [][2]string // descriptor id, credential key
	byKey map[string]*cred
}

// discoveryCandidate decides (reference only) whether the mapping of a registration over the selected credentials is forced.
func discoveryCandidate(out *caseOut, in *caseIn, selPairs [][2]string, byKey map[string]*cred, sat map[string]map[string]bool) *discCase {
	if len(selPairs) == 0 {
		return nil
	}
	own := map[string]string{} // credential key -> its descriptor
	ids := map[string]bool{}
	for _, p := range selPairs {
		c := byKey[p[1]]
		if _, twice := own[p[1]]; twice || c == nil || c.tmpl == nil {
			out.count("discovery_skipped_credential_mapped_twice", 1)
			return nil
		}
		own[p[1]] = p[0]
		// what the discovery store can hold at all: a credential id (unique within the presentation), one subject, and a
		// presentation may not outlive its credentials (the generated expiration dates lie in the past)
		if c.tmpl.id == "" || ids[c.tmpl.id] || len(c.tmpl.subjects) != 1 || c.tmpl.expires != nil {
			out.count("discovery_skipped_not_registrable", 1)
			return nil
		}
		ids[c.tmpl.id] = true
	}
	for _, x := range in.rd.Descs {
		for key, d := range own {
			if sat[x.ID][key] != (d == x.ID) {
				out.count("discovery_skipped_mapping_not_forced", 1)
				return nil
			}
		}
	}
	return &discCase{pairs: selPairs, byKey: byKey}
}

// ---- environment: everything real but the signature check ---------------------------------------------

type acceptingVCR struct{ vcr.VCR }

func (acceptingVCR) Verifier() verifier.Verifier { return acceptingVerifier{} }

type acceptingVerifier struct{ verifier.Verifier }

func (acceptingVerifier) VerifyVP(vp vc.VerifiablePresentation, _ bool, _ bool, _ *time.Time) ([]vc.VerifiableCredential, error) {
	return vp.VerifiableCredential, nil
}

const discExp = 4102444800 // 2100-01-01: registrations neither expire during the run nor exceed the service's maximum validity

func discServiceID(idx int) string { return fmt.Sprintf("c12-service-%d", idx) }

// discVP: a registration as RFC022 wants it (JWT presentation, jti, aud = service, exp), credentials in the given order.
func discVP(holder, service string, n int, creds []*cred) (string, *vc.VerifiablePresentation, error) {
	var vcs []vc.VerifiableCredential
	for _, c := range creds {
		vcs = append(vcs, c.vc)
	}
	holderURI := uri(holder)
	body := vc.VerifiablePresentation{
		Context:              []ssi.URI{uri(ctxV1)},
		Type:                 []ssi.URI{uri("VerifiablePresentation")},
		Holder:               &holderURI,
		VerifiableCredential: vcs,
	}
	data, err := body.MarshalJSON()
	if err != nil {
		return "", nil, err
	}
	id := fmt.Sprintf("%s#registration-%d", holder, n)
	claims := map[string]any{"iss": holder, "sub": holder, "jti": id, "nbf": 1717200000, "exp": discExp, "aud": []string{service}, "vp": json.RawMessage(data)}
	header := map[string]any{"alg": "ES256", "typ": "JWT", "kid": holder + "#k1"}
	raw := b64(mustJSON(header)) + "." + b64(mustJSON(claims)) + "." + b64([]byte("c12-discovery-registration-sig--"))
	parsed, err := vc.ParseVerifiablePresentation(raw)
	return id, parsed, err
}

type discOrder struct {
	name string
	perm []int
}

// discOrders: the orders in which holders list n credentials. Position k of the presentation holds selection element perm[k].
func discOrders(n int, shuffle func(int, func(i, j int))) []discOrder {
	ident := make([]int, n)
	for i := range ident {
		ident[i] = i
	}
	if n == 1 {
		return []discOrder{{"single", ident}}
	}
	rev := make([]int, n)
	for i := range rev {
		rev[i] = n - 1 - i
	}
	orders := []discOrder{{"descriptor-order", ident}, {"reversed", rev}}
	if n >= 3 {
		rot := append(append([]int{}, ident[1:]...), 0)
		orders = append(orders, discOrder{"rotated", rot})
		sh := append([]int{}, ident...)
		shuffle(n, func(i, j int) { sh[i], sh[j] = sh[j], sh[i] })
		orders = append(orders, discOrder{"shuffled", sh})
	}
	return orders
}

func discoveryLeg(t *testing.T, r *ev.Run, cases []*caseIn, outs []*caseOut) {
	began := time.Now()
	defer func() { r.Extra("discovery_leg_wall_s", time.Since(began).Seconds()) }() // reporting only
	multiLeft, singleLeft := r.Pick(220, 2200), r.Pick(40, 400)
	var chosen []int
	for i, o := range outs {
		if o == nil || o.disc == nil {
			continue
		}
		if len(o.disc.pairs) >= 2 && multiLeft > 0 {
			multiLeft--
			chosen = append(chosen, i)
		} else if len(o.disc.pairs) == 1 && singleLeft > 0 {
			singleLeft--
			chosen = append(chosen, i)
		}
	}
	if len(chosen) == 0 {
		r.Fatalf("discovery leg: no case with a forced registration mapping")
	}
	dir, err := os.MkdirTemp("", "c12-discovery-")
	if err != nil {
		r.Fatalf("discovery leg: %v", err)
	}
	defer os.RemoveAll(dir)
	var serviceIDs []string
	for _, i := range chosen {
		id := discServiceID(i)
		serviceIDs = append(serviceIDs, id)
		def := map[string]any{"id": id, "endpoint": "https://discovery.example/discovery/" + id, "presentation_max_validity": 4000000000,
			"presentation_definition": json.RawMessage(cases[i].raw)}
		if err := os.WriteFile(filepath.Join(dir, id+".json"), mustJSON(def), 0o644); err != nil {
			r.Fatalf("discovery leg: %v", err)
		}
	}
	storageEngine := storage.NewTestStorageEngine(t)
	if err := storageEngine.Start(); err != nil {
		r.Fatalf("discovery leg: storage: %v", err)
	}
	storageEngine.GetSQLDatabase().Exec("PRAGMA synchronous = OFF") // durability is not under observation
	m := discovery.New(storageEngine, acceptingVCR{}, nil, nil)
	cfg := m.Config().(*discovery.Config)
	cfg.Definitions.Directory = dir
	cfg.Server.IDs = serviceIDs
	cfg.Client.RefreshInterval = 0 // no background routine: nothing here depends on time
	if err := m.Configure(core.TestServerConfig()); err != nil {
		r.Fatalf("discovery leg: the module refuses the service definitions: %v", err)
	}
	if err := m.Start(); err != nil {
		r.Fatalf("discovery leg: start: %v", err)
	}
	defer m.Shutdown()

	for _, i := range chosen {
		o := discoveryCase(r, m, cases[i], outs[i].disc)
		flush(r, o, fmt.Sprintf("discovery case %d", i), false)
	}
	if r.Get("discovery_results_compared") == 0 || r.Get("discovery_fields_compared") == 0 || r.Get("discovery_results_compared_other_order") == 0 {
		r.Fatalf("monitor observed too little on discovery search: registered=%d results compared=%d (credentials not in descriptor order: %d) fields=%d",
			r.Get("discovery_registrations_accepted"), r.Get("discovery_results_compared"), r.Get("discovery_results_compared_other_order"), r.Get("discovery_fields_compared"))
	}
}

func discoveryCase(r *ev.Run, m *discovery.Module, in *caseIn, dc *discCase) (out *caseOut) {
	out = &caseOut{counts: map[string]int{}, distinct: map[string][]string{}}
	defer func() {
		if p := recover(); p != nil {
			out.fatal = fmt.Sprintf("harness panic: %v\n%s", p, debug.Stack())
		}
	}()
	n := len(dc.pairs)
	service := discServiceID(in.idx)
	out.fingerprint = fmt.Sprintf("%s|discovery|n%d", in.ds.shape(), n)
	out.count("discovery_cases", 1)
	rnd := r.Rand(in.stream + "/discovery")
	type registration struct {
		order  discOrder
		holder string
		keys   []string // credential keys in presentation order
		ids    []string // credential ids in presentation order
	}
	registered := map[string]*registration{} // by presentation id
	for k, ord := range discOrders(n, rnd.Shuffle) {
		reg := &registration{order: ord, holder: fmt.Sprintf("did:web:holder-%d.example", k)}
		var creds []*cred
		for _, sel := range ord.perm {
			c := dc.byKey[dc.pairs[sel][1]]
			creds = append(creds, c)
			reg.keys = append(reg.keys, c.key)
			reg.ids = append(reg.ids, c.tmpl.id)
		}
		id, vp, err := discVP(reg.holder, service, k, creds)
		if err != nil {
			out.fatal = "harness: registration does not parse: " + err.Error()
			return
		}
		witness := func() any {
			return map[string]any{"definition": json.RawMessage(in.raw), "presentation_credentials": reg.keys, "selection": dc.pairs}
		}
		var regErr error
		if guard(out, "discovery.Register", witness, func() { regErr = m.Register(context.Background(), service, *vp) }) {
			continue
		}
		if regErr != nil {
			// the property does not say which registrations a Discovery Server takes
			out.count("discovery_registrations_refused", 1)
			out.unspecified("discovery-registration-refused:" + ord.name)
			continue
		}
		out.count("discovery_registrations_accepted", 1)
		registered[id] = reg
	}
	if len(registered) == 0 {
		return
	}
	// queries: none; on the holder the credentials are about; on the id of one registered credential (rotating)
	queries := []map[string]string{nil, {"credentialSubject.id": holderDID}, {"id": dc.byKey[dc.pairs[in.idx%n][1]].tmpl.id}}
	for qi, q := range queries {
		var results []discovery.SearchResult
		var err error
		witness := func() any {
			return map[string]any{"definition": json.RawMessage(in.raw), "selection": dc.pairs, "query": q}
		}
		if guard(out, "discovery.Search", witness, func() { results, err = m.Search(service, q) }) {
			continue
		}
		if err != nil {
			out.count("discovery_search_errors", 1)
			out.unspecified("discovery-search-error")
			continue
		}
		out.count("discovery_searches", 1)
		seen := map[string]bool{}
		for _, res := range results {
			if res.Presentation.ID == nil {
				continue
			}
			reg := registered[res.Presentation.ID.String()]
			if reg == nil || seen[res.Presentation.ID.String()] {
				continue
			}
			seen[res.Presentation.ID.String()] = true
			via := fmt.Sprintf("discovery.Search (credentials listed %s: %s)", reg.order.name, strings.Join(reg.ids, ", "))
			cmp := compareExtractionAt(out, in, res.Fields, dc.pairs, dc.byKey, via, "C12/extraction/discovery-search/", "discovery_fields_compared")
			out.count("discovery_results_compared", 1)
			if reg.order.name != "descriptor-order" && reg.order.name != "single" {
				out.count("discovery_results_compared_other_order", 1)
			}
			if cmp > 0 {
				out.nontrivial = true
			}
			out.dist("discovery_orders", fmt.Sprintf("n%d/%s/q%d", n, reg.order.name, qi))
		}
		if len(seen) < len(registered) {
			// which registrations a search lists is not this property's subject
			out.count("discovery_results_not_listed", len(registered)-len(seen))
		}
	}
	var orders []string
	for _, reg := range registered {
		orders = append(orders, reg.order.name)
	}
	sort.Strings(orders)
	out.fingerprint += "|" + strings.Join(orders, ",")
	return
}
