package c12

// Independent reference matcher for Presentation Exchange definitions. It reads the SAME JSON bytes the code under
// test parses, with its own generic-JSON reader, its own dot/bracket path walker (limited to the path forms the
// generator emits), its own filter evaluator (Go RE2 `regexp`, patterns limited to the common RE2/ECMAScript subset)
// and its own requirement-tree evaluator. It shares no code with package pe.

import (
	"encoding/json"
	"fmt"
	"reflect"
	"regexp"
	"sort"
	"strconv"
	"strings"
	"sync"
)

// ---- definition model (read from generic JSON) -------------------------------------------------

type rFilter struct {
	HasType bool
	Type    string
	Const   *string
	Enum    []string
	HasEnum bool
	Pattern *string
}

type rField struct {
	ID       *string
	Optional bool
	Paths    []string
	Filter   *rFilter
}

type rFormat map[string]map[string][]string

type rDesc struct {
	ID     string
	Groups []string
	Fields []rField
	Format rFormat // nil = absent
}

type rReq struct {
	Rule            string
	Count, Min, Max *int
	From            string
	Nested          []*rReq
}

type rDef struct {
	ID     string
	Format rFormat
	Descs  []*rDesc
	Reqs   []*rReq
}

func asInt(v any) *int {
	f, ok := v.(float64)
	if !ok {
		return nil
	}
	i := int(f)
	return &i
}

func readFormat(v any) rFormat {
	m, ok := v.(map[string]any)
	if !ok {
		return nil
	}
	out := rFormat{}
	for k, e := range m {
		inner := map[string][]string{}
		if em, ok := e.(map[string]any); ok {
			for k2, l := range em {
				var ss []string
				if la, ok := l.([]any); ok {
					for _, s := range la {
						if str, ok := s.(string); ok {
							ss = append(ss, str)
						}
					}
				}
				inner[k2] = ss
			}
		}
		out[k] = inner
	}
	return out
}

func readReq(m map[string]any) *rReq {
	q := &rReq{}
	q.Rule, _ = m["rule"].(string)
	q.From, _ = m["from"].(string)
	q.Count, q.Min, q.Max = asInt(m["count"]), asInt(m["min"]), asInt(m["max"])
	if l, ok := m["from_nested"].([]any); ok {
		for _, e := range l {
			if em, ok := e.(map[string]any); ok {
				q.Nested = append(q.Nested, readReq(em))
			}
		}
	}
	return q
}

// readDef reads a presentation definition from its JSON. Only called for definitions the schema accepted.
func readDef(raw []byte) (*rDef, error) {
	var m map[string]any
	if err := json.Unmarshal(raw, &m); err != nil {
		return nil, err
	}
	d := &rDef{}
	d.ID, _ = m["id"].(string)
	d.Format = readFormat(m["format"])
	if l, ok := m["submission_requirements"].([]any); ok {
		for _, e := range l {
			if em, ok := e.(map[string]any); ok {
				d.Reqs = append(d.Reqs, readReq(em))
			}
		}
	}
	l, _ := m["input_descriptors"].([]any)
	for _, e := range l {
		em, ok := e.(map[string]any)
		if !ok {
			return nil, fmt.Errorf("descriptor is not an object")
		}
		x := &rDesc{}
		x.ID, _ = em["id"].(string)
		x.Format = readFormat(em["format"])
		if gl, ok := em["group"].([]any); ok {
			for _, g := range gl {
				if s, ok := g.(string); ok {
					x.Groups = append(x.Groups, s)
				}
			}
		}
		if c, ok := em["constraints"].(map[string]any); ok {
			if fl, ok := c["fields"].([]any); ok {
				for _, fe := range fl {
					fm, _ := fe.(map[string]any)
					f := rField{}
					if s, ok := fm["id"].(string); ok {
						f.ID = &s
					}
					f.Optional, _ = fm["optional"].(bool)
					if pl, ok := fm["path"].([]any); ok {
						for _, p := range pl {
							if s, ok := p.(string); ok {
								f.Paths = append(f.Paths, s)
							}
						}
					}
					if flt, ok := fm["filter"].(map[string]any); ok {
						rf := &rFilter{}
						if s, ok := flt["type"].(string); ok {
							rf.HasType, rf.Type = true, s
						}
						if s, ok := flt["const"].(string); ok {
							rf.Const = &s
						}
						if el, ok := flt["enum"].([]any); ok {
							rf.HasEnum = true
							for _, ev := range el {
								if s, ok := ev.(string); ok {
									rf.Enum = append(rf.Enum, s)
								}
							}
						}
						if s, ok := flt["pattern"].(string); ok {
							rf.Pattern = &s
						}
						f.Filter = rf
					}
					x.Fields = append(x.Fields, f)
				}
			}
		}
		d.Descs = append(d.Descs, x)
	}
	return d, nil
}

// ---- path walker -------------------------------------------------------------------------------

type seg struct {
	key   string
	idx   int
	isIdx bool
}

// parsePath understands $ followed by .name, ["name"] and [n] segments.
func parsePath(p string) ([]seg, error) {
	if !strings.HasPrefix(p, "$") {
		return nil, fmt.Errorf("path %q does not start with $", p)
	}
	var out []seg
	i := 1
	for i < len(p) {
		switch p[i] {
		case '.':
			j := i + 1
			for j < len(p) && p[j] != '.' && p[j] != '[' {
				j++
			}
			if j == i+1 {
				return nil, fmt.Errorf("empty member in %q", p)
			}
			out = append(out, seg{key: p[i+1 : j]})
			i = j
		case '[':
			j := strings.IndexByte(p[i:], ']')
			if j < 0 {
				return nil, fmt.Errorf("unterminated [ in %q", p)
			}
			inner := p[i+1 : i+j]
			i += j + 1
			if len(inner) >= 2 && inner[0] == '"' && inner[len(inner)-1] == '"' {
				out = append(out, seg{key: inner[1 : len(inner)-1]})
			} else if n, err := strconv.Atoi(inner); err == nil && n >= 0 {
				out = append(out, seg{idx: n, isIdx: true})
			} else {
				return nil, fmt.Errorf("unsupported selector [%s] in %q", inner, p)
			}
		default:
			return nil, fmt.Errorf("unexpected %q in %q", p[i], p)
		}
	}
	return out, nil
}

// walk returns the value at path in doc; found is false when any step does not exist (or the value is JSON null).
func walk(doc any, path string) (any, bool, error) {
	segs, err := parsePath(path)
	if err != nil {
		return nil, false, err
	}
	cur := doc
	for _, s := range segs {
		switch c := cur.(type) {
		case map[string]any:
			k := s.key
			if s.isIdx {
				k = strconv.Itoa(s.idx)
			}
			v, ok := c[k]
			if !ok {
				return nil, false, nil
			}
			cur = v
		case []any:
			if !s.isIdx || s.idx >= len(c) {
				return nil, false, nil
			}
			cur = c[s.idx]
		default:
			return nil, false, nil
		}
	}
	if cur == nil {
		return nil, false, nil
	}
	return cur, true, nil
}

// ---- filter evaluation -------------------------------------------------------------------------

type unspecified string // non-empty: the case is outside what the property (or its quantifier) decides

func typeIs(t string, v any) bool {
	switch t {
	case "string":
		_, ok := v.(string)
		return ok
	case "number":
		_, ok := v.(float64)
		return ok
	case "boolean":
		_, ok := v.(bool)
		return ok
	case "array":
		_, ok := v.([]any)
		return ok
	case "object":
		_, ok := v.(map[string]any)
		return ok
	}
	return false
}

var reCache sync.Map

func compile(p string) *regexp.Regexp {
	if re, ok := reCache.Load(p); ok {
		return re.(*regexp.Regexp)
	}
	re := regexp.MustCompile(p)
	reCache.Store(p, re)
	return re
}

// satSelf evaluates the filter as a JSON schema on the value itself.
func (f *rFilter) satSelf(v any) bool {
	if f.HasType && !typeIs(f.Type, v) {
		return false
	}
	s, isString := v.(string)
	if f.Const != nil && !(isString && s == *f.Const) {
		return false
	}
	if f.HasEnum {
		in := false
		for _, e := range f.Enum {
			if isString && e == s {
				in = true
			}
		}
		if !in {
			return false
		}
	}
	if f.Pattern != nil && isString && !compile(*f.Pattern).MatchString(s) {
		return false
	}
	return true
}

// sat: an array value satisfies the filter when one of its elements does (the documented way to filter on `type`)
// or when the array itself validates against the filter.
//
// A filter WITHOUT `type` is decided on one side only. pe documents the vocabulary it supports as typed filters, so
// whether a value that fits the remaining keywords has to be selected is not decided here ("filter-without-type"). But a
// value that violates one of the keywords that are there (const, enum, or - for a string - pattern), as the value itself
// and in every element, satisfies the filter under no reading of it (JSON Schema: `type` is optional and the other
// keywords keep constraining the value; typed-vocabulary reading: nothing satisfies it): that is a decided "no".
func (f *rFilter) sat(v any) (bool, unspecified) {
	ok, u := f.satAny(v)
	if u != "" {
		return false, u
	}
	if !f.HasType {
		if !ok {
			return false, ""
		}
		return false, "filter-without-type"
	}
	return ok, ""
}

func (f *rFilter) satAny(v any) (bool, unspecified) {
	switch x := v.(type) {
	case map[string]any:
		return false, "object-valued-filter-target"
	case []any:
		for _, e := range x {
			switch e.(type) {
			case map[string]any, []any:
				return false, "nested-array-or-object-element"
			}
			if f.satSelf(e) {
				return true, ""
			}
		}
		return f.satSelf(v), ""
	}
	return f.satSelf(v), ""
}

// fieldResult is what the reference says about one field against one credential view.
type fieldResult struct {
	ok        bool
	present   bool  // a value was selected (false: optional field absent)
	value     any   // the value at the selected path
	allowed   []any // values the extraction may report
	unspec    unspecified
	pathError error
}

func (f *rField) eval(view any) fieldResult {
	filterFailed := false
	for _, p := range f.Paths {
		v, found, err := walk(view, p)
		if err != nil {
			return fieldResult{pathError: err}
		}
		if !found {
			continue
		}
		if f.Filter == nil {
			return fieldResult{ok: true, present: true, value: v, allowed: []any{v}}
		}
		ok, u := f.Filter.sat(v)
		if u != "" {
			return fieldResult{unspec: u}
		}
		if ok {
			return fieldResult{ok: true, present: true, value: v, allowed: f.Filter.extractions(v)}
		}
		filterFailed = true
	}
	if f.Optional && !filterFailed {
		return fieldResult{ok: true}
	}
	return fieldResult{}
}

// extractions: the value actually present, or - for a string pattern with exactly one capture group - that capture.
// For an enum that carries a pattern as well the text does not say which of the two it is: both are allowed.
func (f *rFilter) extractions(v any) []any {
	if f.Pattern == nil {
		return []any{v}
	}
	re := compile(*f.Pattern)
	switch x := v.(type) {
	case string:
		if re.NumSubexp() == 1 {
			if m := re.FindStringSubmatch(x); m != nil {
				if f.HasEnum {
					return []any{v, m[1]}
				}
				return []any{m[1]}
			}
		}
		return []any{v}
	case []any:
		out := []any{v}
		if re.NumSubexp() == 1 {
			for _, e := range x {
				if s, ok := e.(string); ok && f.satSelf(e) {
					if m := re.FindStringSubmatch(s); m != nil {
						out = append(out, m[1])
					}
				}
			}
		}
		return out
	}
	return []any{v}
}

// ---- format ------------------------------------------------------------------------------------

// formatOK: absent/empty designation = no restriction; otherwise the credential's format must be listed and, when the
// credential is signed, its proof type / algorithm must be among the listed ones.
func formatOK(f rFormat, c *cred) (bool, unspecified) {
	if len(f) == 0 {
		return true, ""
	}
	entry, ok := f[c.format]
	if !ok {
		return false, ""
	}
	if c.signed == "" {
		return true, ""
	}
	key := "proof_type"
	if c.format == "jwt_vc" {
		key = "alg"
	}
	list, has := entry[key]
	if !has {
		return false, "format-designation-without-list"
	}
	for _, s := range list {
		if s == c.signed {
			return true, ""
		}
	}
	return false, ""
}

// ---- descriptor --------------------------------------------------------------------------------

// A descriptor is a conjunction: a field (or the format) the credential certainly fails decides "no" even when a filter
// without `type` (undecided on its satisfied side, see rFilter.sat) is among the other fields. The remaining undecided
// classes (pe answers those with an error) keep deciding in field order, as before.
func (d *rDef) satisfies(x *rDesc, c *cred) (bool, unspecified, error) {
	var open unspecified
	for i := range x.Fields {
		fr := x.Fields[i].eval(c.view)
		if fr.pathError != nil {
			return false, "", fr.pathError
		}
		if fr.unspec == typelessUndecided {
			open = fr.unspec
			continue
		}
		if fr.unspec != "" {
			return false, fr.unspec, nil
		}
		if !fr.ok {
			return false, "", nil
		}
	}
	for _, f := range []rFormat{d.Format, x.Format} {
		ok, u := formatOK(f, c)
		if u != "" {
			return false, u, nil
		}
		if !ok {
			return false, "", nil
		}
	}
	if open != "" {
		return false, open, nil
	}
	return true, "", nil
}

const typelessUndecided unspecified = "filter-without-type"

func (d *rDef) desc(id string) *rDesc {
	for _, x := range d.Descs {
		if x.ID == id {
			return x
		}
	}
	return nil
}

// ---- requirement tree --------------------------------------------------------------------------

func (d *rDef) group(name string) []*rDesc {
	var out []*rDesc
	for _, x := range d.Descs {
		for _, g := range x.Groups {
			if g == name {
				out = append(out, x)
				break
			}
		}
	}
	return out
}

func (q *rReq) nested() bool {
	if len(q.Nested) > 0 {
		return true
	}
	return false
}

// contradictory: bounds that no number satisfies (count below min, max below count/min). Neither the schema nor the
// specification says what such a requirement means.
func (q *rReq) contradictory() bool {
	if q.Rule == "pick" {
		if q.Count != nil && q.Min != nil && *q.Min > *q.Count {
			return true
		}
		if q.Count != nil && q.Max != nil && *q.Max < *q.Count {
			return true
		}
		if q.Min != nil && q.Max != nil && *q.Min > *q.Max {
			return true
		}
	}
	for _, n := range q.Nested {
		if n.contradictory() {
			return true
		}
	}
	return false
}

func (d *rDef) contradictory() bool {
	for _, q := range d.Reqs {
		if q.contradictory() {
			return true
		}
	}
	return false
}

func (d *rDef) hasNesting() bool {
	for _, q := range d.Reqs {
		if q.nested() {
			return true
		}
	}
	return false
}

func (q *rReq) allGroups(into map[string]int) {
	if q.From != "" {
		into[q.From]++
	}
	for _, n := range q.Nested {
		n.allGroups(into)
	}
}

// eval evaluates the requirement on a selection (set of descriptor ids). lower: the at-least side (all / count / min);
// upper: the at-most side (count / max), only meaningful for `from` requirements.
func (q *rReq) eval(d *rDef, sel map[string]bool) (lower, upper bool) {
	n, size := 0, 0
	if q.From != "" {
		g := d.group(q.From)
		size = len(g)
		for _, x := range g {
			if sel[x.ID] {
				n++
			}
		}
	} else {
		size = len(q.Nested)
		for _, c := range q.Nested {
			if l, _ := c.eval(d, sel); l {
				n++
			}
		}
	}
	lower, upper = true, true
	if q.Rule == "all" {
		return n == size, true
	}
	if q.Count != nil {
		lower = lower && n >= *q.Count
		upper = upper && n <= *q.Count
	}
	if q.Min != nil {
		lower = lower && n >= *q.Min
	}
	if q.Max != nil {
		upper = upper && n <= *q.Max
	}
	return lower, upper
}

// treeOK evaluates all top-level requirements (or, without requirements, "every descriptor").
func (d *rDef) treeOK(sel map[string]bool) (lower, upper bool) {
	lower, upper = true, true
	if len(d.Reqs) == 0 {
		for _, x := range d.Descs {
			if !sel[x.ID] {
				lower = false
			}
		}
		return
	}
	for _, q := range d.Reqs {
		l, u := q.eval(d, sel)
		lower = lower && l
		if !q.nested() {
			upper = upper && u
		}
	}
	return
}

// structural classes in which the property text does not decide completeness / upper bounds
func (d *rDef) structure() (ungrouped, unreferenced, overlap bool) {
	if len(d.Reqs) == 0 {
		return
	}
	refs := map[string]int{}
	for _, q := range d.Reqs {
		q.allGroups(refs)
	}
	for _, x := range d.Descs {
		if len(x.Groups) == 0 {
			ungrouped = true
		}
		if len(x.Groups) > 1 {
			overlap = true
		}
		for _, g := range x.Groups {
			if refs[g] == 0 {
				unreferenced = true
			}
		}
	}
	for _, n := range refs {
		if n > 1 {
			overlap = true
		}
	}
	return
}

// exists decides (for definitions without nesting) whether a complete selection exists given which descriptors are
// matchable. strict honours upper bounds as well; lax only the at-least side.
func (d *rDef) exists(matchable map[string]bool) (strict, lax bool) {
	var ids []string
	for _, x := range d.Descs {
		if matchable[x.ID] {
			ids = append(ids, x.ID)
		}
	}
	sort.Strings(ids)
	all := map[string]bool{}
	for _, id := range ids {
		all[id] = true
	}
	lax, _ = d.treeOK(all)
	if len(ids) > 12 {
		return lax, lax
	}
	for mask := 0; mask < 1<<len(ids); mask++ {
		sel := map[string]bool{}
		for i, id := range ids {
			if mask&(1<<i) != 0 {
				sel[id] = true
			}
		}
		if l, u := d.treeOK(sel); l && u {
			return true, lax
		}
	}
	return false, lax
}

// ---- helpers -----------------------------------------------------------------------------------

func jsonEqual(a, b any) bool {
	ja, _ := json.Marshal(a)
	jb, _ := json.Marshal(b)
	var na, nb any
	_ = json.Unmarshal(ja, &na)
	_ = json.Unmarshal(jb, &nb)
	return reflect.DeepEqual(na, nb)
}
