package c12

// Verifier soundness against id-colliding credentials. The envelope presented to the verifier holds, next to the
// credentials the wallet selected, a TWIN of one of them: a different credential that carries the same `id` (an older /
// re-issued version, a near clone that does not satisfy the descriptor, a clone whose extracted claims differ), or - for
// credentials without an id - another id-less credential. The forged descriptor map points the descriptor at the twin.
//
// The decision is the reference matcher's (ref_test.go), not pe's: for every descriptor the reference determines the
// first credential (in presentation order) that satisfies it. A twin is only used when it leaves that first-match vector
// untouched, so matching itself still selects the original credential and the twin is NOT what matching selects for the
// descriptor: the verifier must reject the forged map. Besides accept/reject the oracle looks at what the verifier
// reports for the descriptor: the credential (Validate's map, PEXConsumer.credentialMap live and restored from the
// session store) and the field values (ResolveConstraintsFields, resolveInputDescriptorValues), which must be the
// original credential's, never the twin's. Credentials are told apart by content (never by id).

import (
	"encoding/json"
	"fmt"
	"math/rand"
	"strings"
	"time"

	"github.com/nuts-foundation/go-did/vc"
	"github.com/nuts-foundation/nuts-node/auth/api/iam"
	"github.com/nuts-foundation/nuts-node/vcr/pe"
)

// canon identifies a credential by its content: the compact JWS for a JWT credential, the canonical (re-marshalled)
// JSON document for a JSON-LD credential (pe re-serialises JSON-LD credentials on their way through path evaluation).
func canon(v vc.VerifiableCredential) string {
	if v.Format() == vc.JWTCredentialProofFormat {
		return "jwt:" + v.Raw()
	}
	var doc any
	if err := json.Unmarshal([]byte(v.Raw()), &doc); err != nil {
		return "ldp-unparseable:" + v.Raw()
	}
	return "ldp:" + string(mustJSON(doc))
}

// rerender renders a (modified) template with the securing of an existing credential.
func rerender(t *tmpl, like *cred, rnd *rand.Rand) (*cred, error) {
	var c *cred
	var err error
	if like.format == "ldp_vc" {
		c, err = renderLDP(t, like.signed, rnd)
	} else {
		c, err = renderJWT(t, like.signed, like.subjArr, rnd)
	}
	if err != nil {
		return nil, err
	}
	c.tmpl, c.subjArr = t, like.subjArr
	return c, nil
}

// refFirst: per descriptor (in definition order) the index of the first credential of the list that satisfies it
// according to the reference (-1: none). decided=false when the reference does not decide one of the pairs.
func refFirst(rd *rDef, creds []*cred) (first []int, decided bool) {
	for _, x := range rd.Descs {
		idx := -1
		for i, c := range creds {
			ok, u, err := rd.satisfies(x, c)
			if err != nil || u != "" {
				return nil, false
			}
			if ok {
				idx = i
				break
			}
		}
		first = append(first, idx)
	}
	return first, true
}

type twinVariant struct {
	name   string // fails | claims-differ | reissued
	idless bool
}

var twinVariants = []twinVariant{
	{"fails", false}, {"claims-differ", false}, {"reissued", false},
	{"fails", true}, {"claims-differ", true},
}

var twinShapes = []string{"single/ldp_vp", "single/jwt_vp", "array/ldp_vp", "array/jwt_vp", "array/other-presentation"}

// twinTemplates lists modified copies of the original's template that may serve as a twin of the wanted kind. The
// definition's generator spec only steers the synthesis; whether a candidate is usable is decided by the reference.
func twinTemplates(rnd *rand.Rand, d *descSpec, orig *tmpl, kind string) []*tmpl {
	var out []*tmpl
	with := func(f func(t *tmpl) bool) {
		t := orig.clone()
		if f(t) {
			out = append(out, t)
		}
	}
	subjectOf := func(t *tmpl, f fieldSpec) map[string]any {
		if f.subject < len(t.subjects) {
			return t.subjects[f.subject]
		}
		return nil
	}
	switch kind {
	case "fails":
		if d != nil {
			for _, f := range d.fields {
				f := f
				if f.attr.top {
					if f.attr == issuerAttr {
						for _, v := range f.opt.bad {
							if s, ok := v.(string); ok {
								with(func(t *tmpl) bool { t.issuer = s; return true })
							}
						}
					}
					continue
				}
				for _, v := range f.opt.bad {
					v := v
					with(func(t *tmpl) bool {
						s := subjectOf(t, f)
						if s == nil {
							return false
						}
						setAt(s, f.attr.keys, deepCopy(v))
						return true
					})
				}
				with(func(t *tmpl) bool {
					s := subjectOf(t, f)
					if s == nil {
						return false
					}
					deleteAt(s, f.attr.keys)
					return true
				})
			}
			if d.typ != "" {
				for _, o := range types {
					if o != d.typ {
						o := o
						with(func(t *tmpl) bool { t.types = []string{"VerifiableCredential", o}; return true })
					}
				}
			}
			rnd.Shuffle(len(out), func(a, b int) { out[a], out[b] = out[b], out[a] })
		}
		// independent of the spec: a clone stripped of all claims / of another type
		with(func(t *tmpl) bool {
			for i := range t.subjects {
				t.subjects[i] = map[string]any{"id": holderDID}
			}
			return true
		})
		with(func(t *tmpl) bool {
			t.types = []string{"VerifiableCredential", "RevokedEarlierVersionCredential"}
			return true
		})
	case "claims-differ":
		if d != nil {
			for _, f := range d.fields {
				f := f
				if f.attr.top {
					if f.attr == issuerAttr {
						for _, v := range f.opt.good {
							if s, ok := v.(string); ok {
								with(func(t *tmpl) bool { t.issuer = s; return true })
							}
						}
					}
					continue
				}
				for _, v := range f.opt.good {
					v := v
					with(func(t *tmpl) bool {
						s := subjectOf(t, f)
						if s == nil {
							return false
						}
						setAt(s, f.attr.keys, deepCopy(v))
						return true
					})
				}
			}
			rnd.Shuffle(len(out), func(a, b int) { out[a], out[b] = out[b], out[a] })
		}
		// independent of the spec: other values for every attribute the generator knows
		for _, a := range attrs {
			a := a
			var vals []any
			switch a.kind {
			case "string":
				vals = anys("Admin level 2", "Nurse", "Alice", "Bob", "Utrecht", "IJbergen")
			case "number":
				vals = anys(1.0, 2.0, 3.0)
			case "boolean":
				vals = anys(true, false)
			default:
				continue
			}
			v := vals[rnd.Intn(len(vals))]
			with(func(t *tmpl) bool { setAt(t.subjects[0], a.keys, v); return true })
		}
	case "reissued":
		with(func(t *tmpl) bool {
			t.issued = t.issued.Add(-365 * 24 * time.Hour)
			if t.expires != nil {
				e := t.expires.Add(-365 * 24 * time.Hour)
				t.expires = &e
			}
			return true
		})
	}
	return out
}

// extractionDiffers: does the reference extract different values for a named field of x from the two views?
func extractionDiffers(x *rDesc, a, b any) bool {
	for i := range x.Fields {
		f := &x.Fields[i]
		if f.ID == nil {
			continue
		}
		fa, fb := f.eval(a), f.eval(b)
		if !fa.ok || !fb.ok {
			continue
		}
		if fa.present != fb.present {
			return true
		}
		if !fa.present {
			continue
		}
		overlap := false
		for _, va := range fa.allowed {
			for _, vb := range fb.allowed {
				if jsonEqual(va, vb) {
					overlap = true
				}
			}
		}
		if !overlap {
			return true
		}
	}
	return false
}

// twins drives the id-colliding envelopes for one case. selPairs: the wallet's selection (descriptor id -> credential
// key, in mapping order), which the verifier accepted on the plain envelopes.
func twins(out *caseOut, in *caseIn, rnd *rand.Rand, selPairs [][2]string, byKey map[string]*cred) {
	rd := in.rd
	if len(selPairs) == 0 {
		return
	}
	var sel []*cred
	for _, p := range selPairs {
		c := byKey[p[1]]
		if c == nil || c.tmpl == nil {
			return
		}
		sel = append(sel, c)
	}
	baseFirst, decided := refFirst(rd, sel)
	if !decided {
		out.count("twin_cases_skipped_reference_undecided", 1)
		return
	}
	descIdx := map[string]int{}
	for i, x := range rd.Descs {
		descIdx[x.ID] = i
	}
	for i, p := range selPairs {
		// the reference must agree that the wallet's selection is the first-match selection of this credential list
		if k := baseFirst[descIdx[p[0]]]; k < 0 || sel[k].key != sel[i].key {
			out.count("twin_cases_skipped_selection_not_first_match", 1)
			return
		}
	}
	emptyOK, _ := rd.treeOK(map[string]bool{})
	out.count("twin_cases", 1)

	for vi, variant := range twinVariants {
		shape := twinShapes[(in.idx+vi)%len(twinShapes)]
		start := rnd.Intn(len(selPairs))
		built := false
		for k := 0; k < len(selPairs) && !built; k++ {
			i := (start + k) % len(selPairs)
			built = twinOne(out, in, rnd, variant, shape, vi, i, selPairs, sel, baseFirst, descIdx, emptyOK)
			if out.fatal != "" {
				return
			}
		}
		if !built {
			out.count("twin_variant_not_constructible/"+variant.name, 1)
		}
	}
}

// twinOne tries to build a twin of the wanted variant for the i-th selected credential and, when that works, runs the
// oracle. Returns false when no usable twin exists for this credential.
func twinOne(out *caseOut, in *caseIn, rnd *rand.Rand, variant twinVariant, shape string, vi, i int, selPairs [][2]string, sel []*cred,
	baseFirst []int, descIdx map[string]int, emptyOK bool) bool {
	rd := in.rd
	xID := selPairs[i][0]
	x := rd.desc(xID)
	var spec *descSpec
	for _, d := range in.ds.descs {
		if d.id == xID {
			spec = d
		}
	}
	c := sel[i]
	orig := c
	creds := append([]*cred{}, sel...)
	if variant.idless {
		t := c.tmpl.clone()
		t.id = ""
		o, err := rerender(t, c, rnd)
		if err != nil {
			out.fatal = "cannot render id-less credential: " + err.Error()
			return false
		}
		o.key, o.role = c.key+"~noid", c.role+" (id removed)"
		orig = o
		for k := range creds {
			if creds[k].key == c.key {
				creds[k] = o
			}
		}
		// removing the id must not change what the reference selects
		f, ok := refFirst(rd, creds)
		if !ok || fmt.Sprint(f) != fmt.Sprint(baseFirst) {
			return false
		}
	}
	if !jsonEqual(orig.view, libraryView(orig)) {
		out.fatal = fmt.Sprintf("harness view of a %s credential differs from the library's rendering:\n%s\n%s", orig.format, mustJSON(orig.view), mustJSON(libraryView(orig)))
		return false
	}

	// --- find a twin the reference classifies as wanted and that leaves the first-match vector alone
	var twin *cred
	var main []*cred // credentials of the main presentation, in order
	twinAt := -1     // index of the twin in main; -1: the twin sits in a presentation of its own
	twinSatisfiesNothing := false
	for _, t := range twinTemplates(rnd, spec, orig.tmpl, variant.name) {
		cand, err := rerender(t, orig, rnd)
		if err != nil {
			continue // a modification the credential parser does not take
		}
		if jsonEqual(cand.view, orig.view) {
			continue
		}
		ok, u, err := rd.satisfies(x, cand)
		if err != nil || u != "" {
			continue
		}
		switch variant.name {
		case "fails":
			if ok {
				continue
			}
		case "claims-differ":
			if !ok || !extractionDiffers(x, orig.view, cand.view) {
				continue
			}
		case "reissued":
			if !ok {
				continue
			}
		}
		alone, dec := refFirst(rd, []*cred{cand})
		if !dec {
			continue
		}
		nothing := true
		for _, k := range alone {
			if k >= 0 {
				nothing = false
			}
		}
		cand.key, cand.role = orig.key+"~twin", "twin:"+variant.name+" of "+orig.role
		if shape == "array/other-presentation" {
			twin, main, twinAt, twinSatisfiesNothing = cand, creds, -1, nothing
			break
		}
		// positions to try: anywhere for a twin that fails the descriptor, behind the original otherwise
		var positions []int
		if variant.name == "fails" {
			positions = append(positions, rnd.Intn(len(creds)+1))
		}
		positions = append(positions, len(creds))
		for _, at := range positions {
			list := append(append(append([]*cred{}, creds[:at]...), cand), creds[at:]...)
			f, dec := refFirst(rd, list)
			if !dec {
				continue
			}
			same := true
			for di, k := range f {
				want := baseFirst[di]
				if want >= at {
					want++
				}
				if k != want {
					same = false
				}
			}
			if same {
				twin, main, twinAt, twinSatisfiesNothing = cand, list, at, nothing
				break
			}
		}
		if twin != nil {
			break
		}
	}
	if twin == nil {
		return false
	}
	if !jsonEqual(twin.view, libraryView(twin)) {
		out.fatal = fmt.Sprintf("harness view of a %s twin differs from the library's rendering:\n%s\n%s", twin.format, mustJSON(twin.view), mustJSON(libraryView(twin)))
		return false
	}
	if canon(twin.vc) == canon(orig.vc) {
		return false
	}
	if (twin.vc.ID == nil) != variant.idless || (!variant.idless && (orig.vc.ID == nil || twin.vc.ID.String() != orig.vc.ID.String())) {
		out.fatal = "harness: twin does not collide on id as intended"
		return false
	}

	// --- the envelope
	parts := strings.Split(shape, "/")
	array := parts[0] == "array"
	var vps []*vpModel
	mainVP, twinVP := 0, 0
	mk := func(format string, cs []*cred, n int) *vpModel {
		v, err := buildVP(format, holderDID, cs, rnd, in.idx*10+n)
		if err != nil {
			out.fatal = "cannot build presentation: " + err.Error()
		}
		return v
	}
	if twinAt >= 0 {
		v := mk(parts[1], main, 20+vi)
		if v == nil {
			return false
		}
		vps = []*vpModel{v}
	} else {
		formats := []string{"ldp_vp", "jwt_vp"}
		m, t := mk(formats[in.idx%2], main, 20+vi), mk(formats[(in.idx/2)%2], []*cred{twin}, 30+vi)
		if m == nil || t == nil {
			return false
		}
		// matching walks the presentations in order and takes the first that satisfies the definition: the twin's
		// presentation may only come first when it certainly does not (the twin satisfies no descriptor and an empty
		// selection does not satisfy the definition)
		if twinSatisfiesNothing && !emptyOK && !rd.hasNesting() && rnd.Intn(2) == 0 {
			vps, mainVP, twinVP = []*vpModel{t, m}, 1, 0
		} else {
			vps, mainVP, twinVP = []*vpModel{m, t}, 0, 1
		}
		twinAt = 0
	}
	e := buildEnvelope(array, vps...)
	// where the credential of selected pair j lives in the main presentation
	posOf := func(j int) int {
		want := sel[j].key
		if sel[j].key == c.key {
			want = orig.key
		}
		for k, mc := range vps[mainVP].creds {
			if mc.key == want {
				return k
			}
		}
		return -1
	}
	entries := func(forged bool, detour bool) []pe.InputDescriptorMappingObject {
		var l []pe.InputDescriptorMappingObject
		for j, p := range selPairs {
			en := e.entry(p[0], mainVP, posOf(j))
			if forged && j == i {
				en = e.entry(p[0], twinVP, twinAt)
				if detour && !array {
					inner := en
					// the envelope of a single presentation is its (decoded) JSON document: only resolvable when designated ldp_vp
					en = pe.InputDescriptorMappingObject{Id: inner.Id, Format: "ldp_vp", Path: "$", PathNested: &inner}
				}
			}
			l = append(l, en)
		}
		return l
	}
	class := "same-id-twin"
	if variant.idless {
		class = "id-less-twin"
	}
	keyBase := "C12/soundness/forged-map/" + class + "/" + twin.format
	label := fmt.Sprintf("%s/%s twin in a %s envelope", class, variant.name, shape)

	// --- baseline: the correct map over the envelope that also holds the twin
	correct := pe.PresentationSubmission{Id: "twin-baseline", DefinitionId: rd.ID, DescriptorMap: entries(false, false)}
	env, _, err, panicked := validate(out, in, e, correct)
	if panicked {
		return true
	}
	if env != nil && err != nil && array && !e.jwtAsLdp && strings.Contains(err.Error(), "can't be decoded using format 'jwt_vp'") {
		e.jwtAsLdp = true // see the agreement check: a JWT presentation inside an array is only resolvable as ldp_vp
		correct.DescriptorMap = entries(false, false)
		env, _, err, panicked = validate(out, in, e, correct)
		if panicked {
			return true
		}
	}
	if env == nil {
		out.count("twin_envelopes_unparseable", 1)
		return true
	}
	out.count("twin_envelopes", 1)
	out.dist("twin_kinds", class+"/"+variant.name+"/"+twin.format+"/"+shape)
	baselineAccepted := err == nil
	if baselineAccepted {
		out.count("twin_baseline_accepted", 1)
	} else {
		out.count("twin_baseline_rejected", 1)
	}

	// --- the forged map
	origCanon, twinCanon := canon(orig.vc), canon(twin.vc)
	refPairs := make([][2]string, len(selPairs)) // what matching selects, in terms of this envelope's credentials
	refKey := map[string]*cred{}
	for j, p := range selPairs {
		k := sel[j]
		if k.key == c.key {
			k = orig
		}
		refPairs[j] = [2]string{p[0], k.key}
		refKey[k.key] = k
	}
	for _, detour := range []bool{false, true} {
		if detour && (array || (in.idx+vi)%3 != 0) {
			continue
		}
		forged := pe.PresentationSubmission{Id: "twin-forged", DefinitionId: rd.ID, DescriptorMap: entries(true, detour)}
		witness := func() any {
			return map[string]any{"definition": json.RawMessage(in.raw), "variant": variant.name, "id_less": variant.idless, "envelope_shape": e.shape,
				"descriptor": xID, "matching_selects": orig.view, "twin": twin.view, "credential_format": twin.format,
				"submission": forged, "envelope": string(e.raw), "baseline_accepted": baselineAccepted}
		}
		// does the forged entry point where the harness means it to?
		var resolved map[string]vc.VerifiableCredential
		var rerr error
		if !guard(out, "Resolve", witness, func() { resolved, rerr = forged.Resolve(*env) }) {
			if rerr != nil && array && !e.jwtAsLdp && strings.Contains(rerr.Error(), "can't be decoded using format 'jwt_vp'") {
				// the twin's presentation is a JWT inside an array (the main one is not): same designation question as above
				e.jwtAsLdp = true
				forged.DescriptorMap = entries(true, detour)
				guard(out, "Resolve", witness, func() { resolved, rerr = forged.Resolve(*env) })
			}
			if r, ok := resolved[xID]; rerr == nil && ok && canon(r) == twinCanon {
				out.count("twin_forged_resolves_to_twin", 1)
			} else {
				out.count(fmt.Sprintf("twin_forged_resolves_elsewhere_or_not/%s/detour=%v", e.shape, detour), 1)
			}
		}
		var got map[string]vc.VerifiableCredential
		var verr error
		if guard(out, "Validate", witness, func() { got, verr = forged.Validate(*env, *in.pd) }) {
			continue
		}
		out.count("mutants_evaluated", 1)
		out.count("twin_forged_evaluated", 1)
		out.dist("mutators", "forged-map-to-"+class)
		if verr != nil {
			out.count("mutants_rejected", 1)
			out.count("twin_forged_rejected", 1)
		} else {
			out.count("mutants_accepted_wrongly", 1)
			out.find(keyBase, fmt.Sprintf("Validate accepts a descriptor map that points descriptor %s at a %s; the reference (and matching itself) selects the other credential", xID, label), witness())
			if r, ok := got[xID]; ok && canon(r) != origCanon {
				out.find(keyBase+"/reported-credential", fmt.Sprintf("Validate accepts the forged map and returns for descriptor %s a credential that is not the one matching selects (%s)", xID, label), witness())
			}
			var vals map[string]any
			var eerr error
			if !guard(out, "ResolveConstraintsFields", witness, func() { vals, eerr = in.pd.ResolveConstraintsFields(got) }) && eerr == nil {
				twinValues(out, in, keyBase, "Validate/ResolveConstraintsFields", label, vals, refPairs, refKey, witness)
			}
		}

		// the verifier state of the token endpoints: fulfill, then what the token's claims are taken from
		consumer := iam.VerifNewPEXConsumer(pe.WalletOwnerMapping{pe.WalletOwnerOrganization: *in.pd})
		var ferr error
		if guard(out, "PEXConsumer.fulfill", witness, func() { ferr = consumer.VerifFulfill(forged, *env) }) {
			continue
		}
		out.count("mutants_evaluated", 1)
		if ferr != nil {
			out.count("mutants_rejected", 1)
			out.count("twin_forged_rejected_by_pexconsumer", 1)
			continue
		}
		out.find(keyBase+"/pexconsumer", fmt.Sprintf("PEXConsumer.fulfill accepts a descriptor map that points descriptor %s at a %s", xID, label), witness())
		consumers := []*iam.PEXConsumer{consumer}
		names := []string{"live"}
		if data, merr := json.Marshal(consumer); merr == nil {
			var restored iam.PEXConsumer
			if !guard(out, "PEXConsumer.UnmarshalJSON", witness, func() { merr = json.Unmarshal(data, &restored) }) && merr == nil {
				consumers, names = append(consumers, &restored), append(names, "restored")
			}
		}
		for n, cns := range consumers {
			var cm map[string]vc.VerifiableCredential
			var cerr error
			if guard(out, "PEXConsumer.credentialMap", witness, func() { cm, cerr = cns.VerifCredentialMap() }) || cerr != nil {
				continue
			}
			if r, ok := cm[xID]; ok && canon(r) != origCanon {
				what := "another credential than matching selects"
				if canon(r) == twinCanon {
					what = "the twin"
				}
				out.find(keyBase+"/reported-credential", fmt.Sprintf("PEXConsumer(%s).credentialMap reports %s for descriptor %s (%s)", names[n], what, xID, label), witness())
			}
			var vals map[string]any
			var eerr error
			if guard(out, "resolveInputDescriptorValues", witness, func() { vals, eerr = iam.VerifResolveInputDescriptorValues(cns.RequiredPresentationDefinitions, cm) }) || eerr != nil {
				continue
			}
			twinValues(out, in, keyBase, "PEXConsumer("+names[n]+")/resolveInputDescriptorValues", label, vals, refPairs, refKey, witness)
		}
	}
	return true
}

// twinValues: the field values reported after a forged map was accepted must be those of the credentials matching selects.
func twinValues(out *caseOut, in *caseIn, keyBase, via, label string, vals map[string]any, refPairs [][2]string, refKey map[string]*cred, witness func() any) {
	diffs, unexpected, compared, sound := extractionDiffs(in, vals, refPairs, refKey)
	if !sound {
		return
	}
	out.count("twin_value_comparisons", compared)
	for _, d := range diffs {
		out.find(keyBase+"/reported-values", fmt.Sprintf("%s: after the forged map was accepted field %q is reported as %s; the credential matching selects holds %s (%s)",
			via, d.field, mustJSON(d.reported), mustJSON(d.want), label), map[string]any{"case": witness(), "field": d.field, "reported": d.reported, "allowed": d.want})
	}
	for _, id := range unexpected {
		out.find(keyBase+"/reported-values", fmt.Sprintf("%s: after the forged map was accepted a value is reported for %q which is not a named field of a mapped descriptor (%s)", via, id, label), witness())
	}
}
