package c12

// Submission mutators for the unforgeability part: each takes the wallet's correct submission for one envelope and
// forges / permutes / truncates / extends it. The harness knows by construction which credential every forged entry
// points at (it builds the paths from envelope positions), so it knows whether the descriptor -> credential relation
// changed. A changed relation (or an entry that resolves outside the envelope) must be rejected by Validate.

import (
	"encoding/json"
	"fmt"
	"math/rand"

	"github.com/nuts-foundation/go-did/vc"
	"github.com/nuts-foundation/nuts-node/vcr/pe"
)

type pos struct{ vp, ci int }

type ref struct {
	id string
	pos
}

type mutant struct {
	name         string
	entries      []pe.InputDescriptorMappingObject
	rel          relation
	unresolvable bool
	env          *envModel // nil: the unmodified envelope
	definitionID string
	formatOnly   bool
}

func mutate(out *caseOut, in *caseIn, rnd *rand.Rand, e *envModel, selPairs [][2]string, selection relation, byRaw map[string]string, byKey map[string]*cred) {
	main := len(e.vps) - 1
	var base []ref
	for i, p := range selPairs {
		base = append(base, ref{p[0], pos{main, i}})
	}
	keyAt := func(env *envModel, p pos) string { return env.vps[p.vp].creds[p.ci].key }
	build := func(env *envModel, refs []ref) ([]pe.InputDescriptorMappingObject, relation) {
		var entries []pe.InputDescriptorMappingObject
		rel := relation{}
		for _, x := range refs {
			entries = append(entries, env.entry(x.id, x.vp, x.ci))
			rel[pair(x.id, keyAt(env, x.pos))] = true
		}
		return entries, rel
	}
	clone := func() []ref { return append([]ref{}, base...) }
	// a position holding a different credential than the one at p (prefers other presentations in the envelope)
	otherPos := func(p pos) (pos, bool) {
		var cands []pos
		for vi, v := range e.vps {
			for ci := range v.creds {
				q := pos{vi, ci}
				if keyAt(e, q) != keyAt(e, p) {
					cands = append(cands, q)
				}
			}
		}
		if len(cands) == 0 {
			return pos{}, false
		}
		return cands[rnd.Intn(len(cands))], true
	}
	var muts []mutant
	add := func(name string, refs []ref) {
		entries, rel := build(e, refs)
		muts = append(muts, mutant{name: name, entries: entries, rel: rel})
	}
	n := len(base)
	i := rnd.Intn(n)

	// 1. permute paths
	if n >= 2 {
		j := (i + 1 + rnd.Intn(n-1)) % n
		m := clone()
		m[i].pos, m[j].pos = m[j].pos, m[i].pos
		add("permute-paths", m)
		// 2. two descriptors at one credential
		m = clone()
		m[j].pos = m[i].pos
		add("two-descriptors-one-credential", m)
	}
	// 3. drop a descriptor
	{
		m := append(clone()[:i], clone()[i+1:]...)
		add("drop-descriptor", m)
	}
	// 4./5. add a descriptor
	add("add-unknown-descriptor", append(clone(), ref{"ghost-descriptor", base[i].pos}))
	selected := map[string]bool{}
	for _, b := range base {
		selected[b.id] = true
	}
	for _, x := range in.rd.Descs {
		if !selected[x.ID] {
			p := base[i].pos
			if q, ok := otherPos(p); ok && rnd.Intn(2) == 0 {
				p = q
			}
			add("add-unselected-descriptor", append(clone(), ref{x.ID, p}))
			break
		}
	}
	// 6. foreign definition id
	{
		entries, rel := build(e, base)
		muts = append(muts, mutant{name: "foreign-definition-id", entries: entries, rel: rel, definitionID: "pd-of-someone-else"})
	}
	// 7./8. wrong format
	{
		entries, rel := build(e, base)
		target := &entries[i]
		if target.PathNested != nil && rnd.Intn(2) == 0 {
			target = target.PathNested
		}
		flip := map[string]string{"ldp_vc": "jwt_vc", "jwt_vc": "ldp_vc", "ldp_vp": "jwt_vp", "jwt_vp": "ldp_vp"}
		target.Format = flip[target.Format]
		muts = append(muts, mutant{name: "wrong-format", entries: entries, rel: rel, formatOnly: true})
		entries, rel = build(e, base)
		target = &entries[i]
		if target.PathNested != nil {
			target = target.PathNested
		}
		target.Format = map[string]string{"ldp_vc": "ldp", "jwt_vc": "jwt"}[target.Format]
		muts = append(muts, mutant{name: "generic-format", entries: entries, rel: rel, formatOnly: true})
	}
	// 9./10. path_nested detours
	if !e.array {
		entries, rel := build(e, base)
		inner := entries[i]
		entries[i] = pe.InputDescriptorMappingObject{Id: inner.Id, Format: e.vps[0].format, Path: "$", PathNested: &inner}
		muts = append(muts, mutant{name: "path-nested-detour-same-credential", entries: entries, rel: rel})
		if q, ok := otherPos(base[i].pos); ok {
			m := clone()
			m[i].pos = q
			entries, rel := build(e, m)
			inner := entries[i]
			entries[i] = pe.InputDescriptorMappingObject{Id: inner.Id, Format: e.vps[0].format, Path: "$", PathNested: &inner}
			muts = append(muts, mutant{name: "path-nested-detour-other-credential", entries: entries, rel: rel})
		}
		// a detour through the credential itself: path -> credential, path_nested -> something inside it
		entries, rel = build(e, base)
		inner = entries[i]
		nested := pe.InputDescriptorMappingObject{Id: inner.Id, Format: inner.Format, Path: "$.credentialSubject"}
		inner.PathNested = &nested
		entries[i] = inner
		muts = append(muts, mutant{name: "path-nested-into-credential", entries: entries, rel: rel, unresolvable: true})
	} else if q, ok := otherPos(base[i].pos); ok {
		m := clone()
		m[i].pos = q
		add("path-nested-detour-other-credential", m)
		// nested part dropped: the entry then references a presentation, not a credential
		entries, rel := build(e, base)
		entries[i].PathNested = nil
		muts = append(muts, mutant{name: "path-nested-dropped", entries: entries, rel: rel, unresolvable: true})
	}
	// 11. paths outside the envelope
	{
		outside := []string{fmt.Sprintf("$.verifiableCredential[%d]", len(e.vps[main].creds)+3), "$.holder", "$.proof", "$.type", "$.verifiableCredential.credentialSubject",
			"$.verifiableCredential[0].credentialSubject", "$.nonce", "$.vp.verifiableCredential"}
		entries, rel := build(e, base)
		target := &entries[i]
		if e.array {
			if rnd.Intn(3) == 0 {
				target.Path = fmt.Sprintf("$[%d]", len(e.vps)+2)
			} else {
				target = target.PathNested
				target.Path = outside[rnd.Intn(len(outside))]
			}
		} else {
			target.Path = outside[rnd.Intn(len(outside))]
		}
		muts = append(muts, mutant{name: "path-outside-envelope", entries: entries, rel: rel, unresolvable: true})
	}
	// 12.-14. duplicate ids
	add("duplicate-entry-same-credential", append(clone(), base[i]))
	if q, ok := otherPos(base[i].pos); ok {
		add("duplicate-id-forged-entry-first", append([]ref{{base[i].id, q}}, clone()...))
		add("duplicate-id-forged-entry-last", append(clone(), ref{base[i].id, q}))
		// plain redirection of one entry
		m := clone()
		m[i].pos = q
		add("redirect-to-other-credential", m)
	}
	// 15. negative index
	if k := len(e.vps[main].creds); k >= 2 {
		entries, _ := build(e, base)
		target := &entries[0]
		if target.PathNested != nil {
			target = target.PathNested
		}
		target.Path = "$.verifiableCredential[-1]"
		m := clone()
		m[0].pos = pos{main, k - 1}
		_, rel := build(e, m)
		muts = append(muts, mutant{name: "negative-index", entries: entries, rel: rel})
	}
	// 16. surplus credential in the presentation (with and without a surplus descriptor)
	var extra *cred
	inMain := map[string]bool{}
	for _, c := range e.vps[main].creds {
		inMain[c.key] = true
	}
	for _, c := range in.w.creds {
		if !inMain[c.key] {
			extra = c
			break
		}
	}
	var extended *envModel
	if extra != nil {
		creds := append(append([]*cred{}, e.vps[main].creds...), extra)
		vp, err := buildVP(e.vps[main].format, holderDID, creds, rnd, in.idx*10+9)
		if err == nil {
			vps := append(append([]*vpModel{}, e.vps[:main]...), vp)
			extended = buildEnvelope(e.array, vps...)
			entries, rel := build(extended, base)
			muts = append(muts, mutant{name: "surplus-credential-in-presentation", entries: entries, rel: rel, env: extended})
			id := "ghost-descriptor"
			for _, x := range in.rd.Descs {
				if !selected[x.ID] {
					id = x.ID
					break
				}
			}
			entries, rel = build(extended, append(clone(), ref{id, pos{main, len(creds) - 1}}))
			muts = append(muts, mutant{name: "surplus-credential-and-descriptor", entries: entries, rel: rel, env: extended})
		}
	}

	// what matching itself selects in an envelope: first presentation (in order) that satisfies the definition
	matchingSelects := func(env *envModel) (relation, bool) {
		for _, v := range env.vps {
			var vcs []vc.VerifiableCredential
			for _, c := range v.creds {
				vcs = append(vcs, c.vc)
			}
			var sel []vc.VerifiableCredential
			var maps []pe.InputDescriptorMappingObject
			var err error
			if guard(out, "Match", func() any { return "presentation credentials" }, func() { sel, maps, err = in.pd.Match(vcs) }) {
				return nil, false
			}
			if err != nil {
				continue
			}
			rel := relation{}
			for k, m := range maps {
				rel[pair(m.Id, identify(sel[k], byRaw))] = true
			}
			return rel, true
		}
		return relation{"<nothing>": true}, true
	}

	for _, m := range muts {
		env := e
		want := selection
		if m.env != nil {
			env = m.env
			var ok bool
			if want, ok = matchingSelects(env); !ok {
				continue
			}
		}
		defID := in.rd.ID
		if m.definitionID != "" {
			defID = m.definitionID
		}
		s := pe.PresentationSubmission{Id: "mutated", DefinitionId: defID, DescriptorMap: m.entries}
		parsed, got, err, panicked := validate(out, in, env, s)
		if panicked {
			continue
		}
		if parsed == nil {
			out.count("mutant_envelopes_unparseable", 1)
			continue
		}
		out.count("mutants_evaluated", 1)
		out.dist("mutators", m.name)
		acceptedM := err == nil
		mustReject := m.unresolvable || !m.rel.equal(want)
		witness := func() any {
			return map[string]any{"definition": json.RawMessage(in.raw), "mutator": m.name, "submission": s, "envelope": string(env.raw), "envelope_shape": env.shape,
				"submission_relation": m.rel.list(), "matching_selects": want.list()}
		}
		switch {
		case m.definitionID != "":
			if acceptedM {
				out.count("mutants_accepted_unspecified", 1)
				out.unspecified("foreign-definition-id-not-checked-by-Validate")
			} else {
				out.count("mutants_rejected", 1)
			}
		case m.formatOnly:
			if acceptedM {
				out.count("mutants_accepted_unspecified", 1)
				out.unspecified("wrong-mapping-format-accepted")
			} else {
				out.count("mutants_rejected", 1)
			}
		case mustReject && acceptedM:
			out.count("mutants_accepted_wrongly", 1)
			out.find("C12/unforgeable/"+m.name, fmt.Sprintf("Validate accepts a %s submission (%s envelope) whose descriptor->credential relation %v differs from what matching selects %v",
				m.name, shapeClass(env), m.rel.list(), want.list()), witness())
		case mustReject:
			out.count("mutants_rejected", 1)
		case acceptedM:
			out.count("mutants_accepted_equivalent", 1)
		default:
			out.count("mutants_rejected_equivalent", 1)
		}
		if acceptedM {
			rel := relation{}
			for id, v := range got {
				rel[pair(id, identify(v, byRaw))] = true
			}
			if !rel.equal(want) {
				out.find("C12/unforgeable/accepted-map-differs/"+m.name, fmt.Sprintf("Validate accepted a %s submission and returned %v; matching selects %v", m.name, rel.list(), want.list()), witness())
			}
		}
	}
}
