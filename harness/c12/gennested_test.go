package c12

// Third batch of cases (stream "gen-nested"): definitions built AROUND a requirement tree. Groups of 1-3 input
// descriptors, requirements over `from_nested` whose children each stand for one group (or for a further nested
// requirement, depth 3) with rule all / pick with count, min, max, min+max, count+min, count+max at the nested level
// and all / pick count / min / min+max / max / nothing at the group level, and wallets steered per GROUP (fully
// satisfied, one descriptor short, nothing) so that the number of nested requirements the wallet can satisfy is above,
// at and below what the parent asks for. Descriptors carry a discriminating claim most of the time so that a credential
// fits its own descriptor only (the two open findings about credentials that fit several descriptors would otherwise
// drown the class); every now and then a group is referenced twice or a descriptor sits in two groups (overlap: decided
// on the at-least side only).
//
// As in gen_test.go the spec only steers the synthesis of credentials; verdicts come from the reference (ref_test.go).

import (
	"fmt"
)

var slotAttr = &attrDef{name: "slot", keys: []any{"slot"}, kind: "string"}

// nestedDescriptor: a descriptor of the ordinary generator (fewer fields, see gen.descriptor) plus, when disjoint, a
// constant on a claim no other descriptor / template uses.
func (g *gen) nestedDescriptor(i int, disjoint bool) (*descSpec, map[string]any) {
	d, m := g.descriptor(i)
	if !disjoint {
		return d, m
	}
	v := fmt.Sprintf("slot-%d", i)
	fs := fieldSpec{
		attr:  slotAttr,
		opt:   filterOpt{kind: "const", filter: map[string]any{"type": "string", "const": v}, good: anys(v), bad: anys(v+"x", "slot")},
		paths: []string{"$.credentialSubject.slot", "$.credentialSubject[0].slot"},
	}
	if g.p(0.3) {
		fs.paths = []string{fs.paths[1], fs.paths[0]}
	}
	fm := map[string]any{"path": strs(fs.paths), "filter": fs.opt.filter}
	if g.p(0.4) {
		fm["id"] = fmt.Sprintf("%s_slot", d.id)
	}
	d.fields = append(d.fields, fs)
	c := m["constraints"].(map[string]any)
	fl, _ := c["fields"].([]any)
	fl = append(fl, fm)
	if g.p(0.5) && len(fl) > 1 {
		k := g.rnd.Intn(len(fl))
		fl[k], fl[len(fl)-1] = fl[len(fl)-1], fl[k]
	}
	c["fields"] = fl
	return d, m
}

func (g *gen) reqDecor(m map[string]any, depth int) map[string]any {
	if g.p(0.5) {
		m["name"] = fmt.Sprintf("req-%d-%d", depth, g.rnd.Intn(100))
	}
	if g.p(0.1) {
		m["purpose"] = "need it"
	}
	return m
}

// between draws from lo..hi (both inclusive; hi < lo gives lo).
func (g *gen) between(lo, hi int) int {
	if hi <= lo {
		return lo
	}
	return lo + g.rnd.Intn(hi-lo+1)
}

// leafReq: a requirement over one group with s descriptors.
func (g *gen) leafReq(group string, s int, depth int) map[string]any {
	m := map[string]any{"from": group}
	switch g.weighted(50, 16, 10, 12, 5, 4, 3) {
	case 0:
		m["rule"] = "all"
	case 1:
		m["rule"] = "pick"
		m["count"] = g.between(1, s)
		if g.p(0.5) {
			m["count"] = s
		}
	case 2:
		m["rule"] = "pick"
		m["min"] = g.between(1, s)
	case 3:
		m["rule"] = "pick"
		lo := g.between(1, s)
		m["min"] = lo
		m["max"] = g.between(lo, s)
	case 4:
		m["rule"] = "pick"
		m["max"] = g.between(1, s)
	case 5:
		m["rule"] = "pick"
	case 6: // asks for more than the group holds
		m["rule"] = "pick"
		m["count"] = s + 1
	}
	return g.reqDecor(m, depth)
}

// nestedRule sets the rule of a requirement over n nested requirements; bounds lean towards >= 2.
func (g *gen) nestedRule(m map[string]any, n int) {
	want := func() int { // a number of nested requirements to ask for
		switch {
		case n >= 2 && g.p(0.5):
			return 2
		case n >= 2 && g.p(0.5):
			return g.between(2, n)
		case g.p(0.5):
			return 1
		default:
			return n + 1 // more than there are
		}
	}
	m["rule"] = "pick"
	switch g.weighted(38, 14, 8, 16, 5, 5, 14) {
	case 0:
		m["count"] = want()
	case 1:
		m["min"] = want()
	case 2:
		m["max"] = g.between(1, n)
	case 3:
		lo := g.between(1, n)
		if n >= 2 && g.p(0.6) {
			lo = g.between(2, n)
		}
		m["min"] = lo
		m["max"] = g.between(lo, n)
	case 4:
		c := want()
		m["count"] = c
		m["min"] = g.between(0, c)
	case 5:
		c := want()
		m["count"] = c
		m["max"] = g.between(c, n+1)
	case 6:
		m["rule"] = "all"
	}
}

type groupSpec struct {
	name string
	size int
}

// nestedReq: a requirement over from_nested with one child per group; with deeper, the first two groups go below a
// further nested requirement.
func (g *gen) nestedReq(groups []groupSpec, depth int, deeper bool) map[string]any {
	var children []any
	rest := groups
	if deeper && len(groups) >= 3 {
		children = append(children, g.nestedReq(groups[:2], depth+1, false))
		rest = groups[2:]
	}
	for _, gr := range rest {
		children = append(children, g.leafReq(gr.name, gr.size, depth+1))
	}
	if g.p(0.25) {
		g.rnd.Shuffle(len(children), func(a, b int) { children[a], children[b] = children[b], children[a] })
	}
	m := map[string]any{"from_nested": children}
	g.nestedRule(m, len(children))
	return g.reqDecor(m, depth)
}

func (g *gen) nestedDefinition() *defSpec {
	g.n++
	ds := &defSpec{}
	tree := map[string]any{"id": fmt.Sprintf("pd-%d", g.n)}
	if g.p(0.2) {
		tree["name"] = "generated definition (requirement tree)"
	}
	if g.p(0.1) {
		ds.format = g.format()
		tree["format"] = ds.format
	}
	nGroups := 2 + g.weighted(2, 5, 4)
	var groups []groupSpec
	var assign []string
	for i := 0; i < nGroups; i++ {
		gs := groupSpec{name: []string{"A", "B", "C", "D"}[i], size: 1 + g.weighted(3, 6, 3)}
		groups = append(groups, gs)
		for k := 0; k < gs.size; k++ {
			assign = append(assign, gs.name)
		}
	}
	if g.p(0.35) { // descriptors of one group need not be neighbours
		g.rnd.Shuffle(len(assign), func(a, b int) { assign[a], assign[b] = assign[b], assign[a] })
	}
	disjoint := g.p(0.9)
	descs := []any{}
	var descMaps []map[string]any
	for i, grp := range assign {
		d, m := g.nestedDescriptor(i, disjoint)
		d.groups = []string{grp}
		ds.descs = append(ds.descs, d)
		descs = append(descs, m)
		descMaps = append(descMaps, m)
	}
	tree["input_descriptors"] = descs

	var reqs []any
	switch form := g.weighted(50, 22, 28); {
	case form == 1 && nGroups >= 3: // a nested requirement next to a plain one
		reqs = append(reqs, g.nestedReq(groups[:nGroups-1], 1, false), g.leafReq(groups[nGroups-1].name, groups[nGroups-1].size, 1))
		if g.p(0.4) {
			reqs[0], reqs[1] = reqs[1], reqs[0]
		}
	case form == 2 && nGroups >= 3: // depth 3
		reqs = append(reqs, g.nestedReq(groups, 1, true))
	default:
		reqs = append(reqs, g.nestedReq(groups, 1, false))
	}
	// overlap (rare): a group referenced by a second requirement / a descriptor in a second group
	switch g.weighted(88, 6, 6) {
	case 1:
		gr := groups[g.rnd.Intn(len(groups))]
		extra := g.leafReq(gr.name, gr.size, 2)
		if first, ok := reqs[0].(map[string]any)["from_nested"].([]any); ok && g.p(0.6) {
			reqs[0].(map[string]any)["from_nested"] = append(first, extra)
		} else {
			reqs = append(reqs, extra)
		}
	case 2:
		i := g.rnd.Intn(len(ds.descs))
		other := groups[g.rnd.Intn(len(groups))].name
		if other != ds.descs[i].groups[0] {
			ds.descs[i].groups = append(ds.descs[i].groups, other)
		}
	}
	for i, m := range descMaps {
		m["group"] = strs(ds.descs[i].groups)
	}
	tree["submission_requirements"] = reqs
	ds.tree = tree
	return ds
}

// nestedWallet decides per group whether the wallet can satisfy all of its descriptors, all but one (near miss or
// nothing for that one) or none of them.
func (g *gen) nestedWallet(ds *defSpec) *wallet {
	w := &wallet{}
	if g.p(0.02) {
		w.class = "empty"
		return w
	}
	pFull := []float64{1, 0.85, 0.6, 0.35}[g.weighted(6, 4, 2, 1)]
	byGroup := map[string][]*descSpec{}
	var order []string
	for _, d := range ds.descs {
		k := d.groups[0]
		if byGroup[k] == nil {
			order = append(order, k)
		}
		byGroup[k] = append(byGroup[k], d)
	}
	var fullN, partN, noneN int
	match := func(d *descSpec) {
		// steering only: up to 4 attempts until the reference agrees that the credential satisfies the descriptor
		var c *cred
		for try := 0; try < 4; try++ {
			t := g.synth(d)
			c = g.render(t, g.securingFor(ds, d, g.p(0.97)))
			if g.ref == nil {
				break
			}
			if x := g.ref.desc(d.id); x != nil {
				if ok, _, _ := g.ref.satisfies(x, c); ok {
					break
				}
			}
		}
		c.role = "match:" + d.id
		w.creds = append(w.creds, c)
	}
	near := func(d *descSpec) {
		t := g.synth(d)
		what, sec := g.nearMiss(ds, d, t)
		s := g.securingFor(ds, d, true)
		if sec != nil {
			s = *sec
		}
		c := g.render(t, s)
		c.role = "near:" + d.id + ":" + what
		w.creds = append(w.creds, c)
	}
	for _, k := range order {
		l := byGroup[k]
		state := 0
		if !g.p(pFull) {
			state = 1 + g.weighted(6, 4)
		}
		switch state {
		case 0:
			fullN++
			for _, d := range l {
				match(d)
			}
		case 1:
			partN++
			short := g.rnd.Intn(len(l))
			for i, d := range l {
				switch {
				case i != short:
					match(d)
				case g.p(0.6):
					near(d)
				}
			}
		default:
			noneN++
			for _, d := range l {
				if g.p(0.4) {
					near(d)
				}
			}
		}
	}
	decoyN := g.weighted(5, 3, 2)
	for i := decoyN; i > 0; i-- {
		c := g.render(g.baseTemplate(""), securings[g.rnd.Intn(len(securings))])
		c.role = "decoy"
		w.creds = append(w.creds, c)
	}
	if len(w.creds) > 0 && g.p(0.04) {
		dup := *w.creds[g.rnd.Intn(len(w.creds))]
		dup.role = "duplicate"
		w.creds = append(w.creds, &dup)
	}
	if g.p(0.8) { // otherwise: wallet in descriptor order
		g.rnd.Shuffle(len(w.creds), func(a, b int) { w.creds[a], w.creds[b] = w.creds[b], w.creds[a] })
	}
	w.class = fmt.Sprintf("groups:f%d/p%d/n%d/d%d", fullN, partN, noneN, decoyN)
	return w
}
