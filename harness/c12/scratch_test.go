package c12

import (
	"fmt"
	"testing"

	"github.com/PaesslerAG/jsonpath"
	"github.com/nuts-foundation/go-did/vc"
	"github.com/nuts-foundation/nuts-node/vcr/pe"
)

func TestScratch(t *testing.T) {
	doc := map[string]any{"credentialSubject": map[string]any{"a": "x", "tags": []any{"r", "g"}}, "@context": []any{"c1"}}
	for _, p := range []string{"$.credentialSubject.a", "$.credentialSubject['a']", `$["credentialSubject"].a`, "$['credentialSubject']['tags'][1]", "$['@context'][0]", "$.credentialSubject[0].a", "$.credentialSubject.tags[5]", "$.credentialSubject.tags[-1]", "$.credentialSubject.a.b", "$.credentialSubject.tags.x"} {
		v, err := jsonpath.Get(p, doc)
		fmt.Printf("%-40s %v %v\n", p, v, err)
	}
	c, err := vc.ParseVerifiableCredential(`{"@context":["https://www.w3.org/2018/credentials/v1"],"id":"urn:uuid:1","type":["VerifiableCredential","A"],"issuer":"did:web:i","issuanceDate":"2024-01-01T00:00:00Z","credentialSubject":{"id":"did:web:h","tags":["x"],"role":"Nurse"}}`)
	fmt.Println(err)
	for _, d := range []string{
		`{"id":"x","input_descriptors":[{"id":"d","constraints":{"fields":[{"path":["$.credentialSubject.tags"],"filter":{"type":"string","pattern":"^y"}}]}}]}`,
		`{"id":"x","input_descriptors":[{"id":"d","group":["A"],"constraints":{}}],"submission_requirements":[{"rule":"pick","min":1,"from":"A"}]}`,
		`{"id":"x","input_descriptors":[{"id":"d","constraints":{"fields":[{"path":["$.credentialSubject.tags"],"filter":{"type":"number"}}]}}]}`,
		`{"id":"x","input_descriptors":[{"id":"d","constraints":{"fields":[{"id":"r","path":["$.credentialSubject.role"],"filter":{"type":"string","pattern":"urs"}}]}}]}`,
	} {
		func() {
			defer func() {
				if r := recover(); r != nil {
					fmt.Println("PANIC", r)
				}
			}()
			def, err := pe.ParsePresentationDefinition([]byte(d))
			if err != nil {
				fmt.Println("parse", err)
				return
			}
			vcs, m, err := def.Match([]vc.VerifiableCredential{*c})
			fmt.Println(len(vcs), m, err)
			if err == nil {
				fmt.Println(def.ResolveConstraintsFields(map[string]vc.VerifiableCredential{"d": *c}))
			}
		}()
	}
}
