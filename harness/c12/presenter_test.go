package c12

// The real wallet-side path: holder.Wallet.BuildSubmission (vcr/holder/presenter.go) matches, negotiates the presentation
// format, builds and SIGNS a JWT presentation; the verifier side then parses and validates exactly those bytes.
// Only the environment is faked: an in-memory signing key and a key resolver that knows the holder's key id.

import (
	"context"
	"crypto"
	"crypto/ecdsa"
	"crypto/elliptic"
	"crypto/rand"
	"encoding/json"
	"errors"
	"fmt"
	"os"
	"strings"
	"sync"
	"testing"
	"time"

	"github.com/lestrrat-go/jwx/v2/jwk"
	"github.com/nuts-foundation/go-did/did"
	"github.com/nuts-foundation/go-did/vc"
	"github.com/nuts-foundation/nuts-node/audit"
	nutsCrypto "github.com/nuts-foundation/nuts-node/crypto"
	"github.com/nuts-foundation/nuts-node/vcr/holder"
	"github.com/nuts-foundation/nuts-node/vcr/pe"
	"github.com/nuts-foundation/nuts-node/vdr/resolver"
)

type fixedKeyResolver struct {
	kid string
	pub crypto.PublicKey
}

func (f fixedKeyResolver) ResolveKeyByID(keyID string, _ *resolver.ResolveMetadata, _ resolver.RelationType) (crypto.PublicKey, error) {
	if keyID != f.kid {
		return nil, resolver.ErrKeyNotFound
	}
	return f.pub, nil
}

func (f fixedKeyResolver) ResolveKey(id did.DID, _ *time.Time, _ resolver.RelationType) (string, crypto.PublicKey, error) {
	if !strings.HasPrefix(f.kid, id.String()+"#") {
		return "", nil, resolver.ErrKeyNotFound
	}
	return f.kid, f.pub, nil
}

var holderKeyOnce sync.Once
var holderSigner nutsCrypto.MemoryJWTSigner
var holderResolver fixedKeyResolver

// silenceAuditLog makes the node's audit logger (one "Signing a JWT" line per presentation) write to /dev/null: the
// logger binds os.Stderr when it is first used.
func silenceAuditLog(t *testing.T) {
	devNull, err := os.OpenFile(os.DevNull, os.O_WRONLY, 0)
	if err != nil {
		return
	}
	stderr := os.Stderr
	os.Stderr = devNull
	audit.CaptureAuditLogs(t)
	os.Stderr = stderr
}

func holderKey() (nutsCrypto.MemoryJWTSigner, fixedKeyResolver) {
	holderKeyOnce.Do(func() {
		priv, err := ecdsa.GenerateKey(elliptic.P256(), rand.Reader) // key material has no influence on any verdict
		if err != nil {
			panic(err)
		}
		key, err := jwk.FromRaw(priv)
		if err != nil {
			panic(err)
		}
		kid := holderDID + "#k1"
		_ = key.Set(jwk.KeyIDKey, kid)
		holderSigner = nutsCrypto.MemoryJWTSigner{Key: key}
		holderResolver = fixedKeyResolver{kid: kid, pub: priv.Public()}
	})
	return holderSigner, holderResolver
}

func realPresenter(out *caseOut, in *caseIn, walletVCs []vc.VerifiableCredential, found, decidedNone bool, selection relation, byRaw map[string]string, contradictory bool) {
	signer, keys := holderKey()
	h := did.MustParseDID(holderDID)
	wallet := holder.NewMemoryWallet(nil, keys, signer, map[did.DID][]vc.VerifiableCredential{h: walletVCs})
	params := holder.BuildParams{
		Audience: "did:web:verifier.example",
		Expires:  time.Now().Add(5 * time.Second),
		Nonce:    fmt.Sprintf("nonce-%d", in.idx),
		Format:   map[string]map[string][]string{"jwt_vp_json": {"alg_values_supported": {"ES256"}}},
	}
	var vp *vc.VerifiablePresentation
	var sub *pe.PresentationSubmission
	var err error
	witness := func() any { return map[string]any{"definition": json.RawMessage(in.raw), "wallet": in.w.class} }
	if guard(out, "Wallet.BuildSubmission", witness, func() {
		vp, sub, err = wallet.BuildSubmission(audit.Context(context.Background(), "verif", "c12", "BuildSubmission"), []did.DID{h}, nil, *in.pd, params)
	}) {
		return
	}
	out.count("presenter_calls", 1)
	if err != nil {
		switch {
		case strings.Contains(err.Error(), "don't share a supported VP format"):
			out.unspecified("presenter-no-shared-vp-format")
		case !found:
			if decidedNone && !errors.Is(err, pe.ErrNoCredentials) {
				out.find("C12/completeness/presenter-not-reported-as-no-credentials", "BuildSubmission fails with another error than missing credentials: "+firstLine(err), witness())
			}
		default:
			out.find("C12/agreement/presenter-fails-after-match", "Match finds a selection but Wallet.BuildSubmission fails: "+firstLine(err), witness())
		}
		return
	}
	if !found && len(in.rd.Descs) > 0 {
		out.find("C12/completeness/presenter-builds-without-selection", "Wallet.BuildSubmission produced a presentation although Match finds no selection", witness())
		return
	}
	if vp == nil || sub == nil || contradictory {
		return
	}
	e := &envModel{shape: "jwt_vp(presenter)", raw: []byte(vp.Raw())}
	env, got, verr, panicked := validate(out, in, e, *sub)
	if panicked {
		return
	}
	if env == nil {
		out.find("C12/agreement/envelope-unparseable/presenter", "ParseEnvelope rejects the presentation built by the wallet: "+firstLine(verr), witness())
		return
	}
	if verr != nil {
		cls := "presenter"
		if strings.Contains(verr.Error(), "incorrect mapping for input descriptor") || strings.Contains(verr.Error(), "credentials, got") {
			// classified by the caller's matrix in the harness-built shapes; here: same root cause when it shows there as well
			cls = "presenter-mapping"
		}
		out.presenterRejected = cls + ": " + firstLine(verr)
		return
	}
	rel := relation{}
	for id, v := range got {
		rel[pair(id, identify(v, byRaw))] = true
	}
	if !rel.equal(selection) {
		out.find("C12/agreement/validate-returns-other-mapping", fmt.Sprintf("presenter: Validate returned %v, the wallet selected %v", rel.list(), selection.list()), witness())
		return
	}
	out.count("presenter_submissions_validated", 1)
}
