package c12

// Verifier-side counterpart of probeDescriptors: pair by pair, may a descriptor be mapped to a credential?
//
// The definition is reduced to ONE descriptor x (no groups, no submission requirements). The envelope holds credential c
// - alone, or next to another wallet credential - and the descriptor map points x at c. The decision is the reference
// matcher's and it is one-sided on purpose, so that it also holds where the reference leaves other pairs undecided
// (filters without `type`, see rFilter.sat):
//
//   - c certainly does NOT satisfy x  ->  whatever else the envelope holds, c is not "the credential that matching itself
//     would select" for x (matching only selects credentials that satisfy the descriptor): Validate and PEXConsumer.fulfill
//     must reject the map, and no claim value of c may be reported for x.
//   - c satisfies x and is the only credential presented  ->  the map is exactly the wallet's output for this definition:
//     Validate must accept it and return c.
//
// Pairs the reference does not decide are not probed.

import (
	"encoding/json"
	"fmt"
	"math/rand"
	"sort"
	"strings"

	"github.com/nuts-foundation/go-did/vc"
	"github.com/nuts-foundation/nuts-node/auth/api/iam"
	"github.com/nuts-foundation/nuts-node/vcr/pe"
)

type vpair struct {
	di int
	c  *cred
}

var vprobeShapes = []struct {
	array  bool
	format string
}{{false, "ldp_vp"}, {false, "jwt_vp"}, {true, "ldp_vp"}}

func verifierProbes(out *caseOut, in *caseIn, rnd *rand.Rand, sat map[string]map[string]bool, undecided map[string]bool) {
	rd, w := in.rd, in.w
	// near: the credential holds a value at the field's path and that value violates the filter (the interesting kind of
	// "no"); far: the field is absent / the format is off.
	var near, far, yes []vpair
	for di, x := range rd.Descs {
		for _, c := range w.creds {
			if undecided[pair(x.ID, c.key)] {
				continue
			}
			switch cls := failClass(rd, x, c); {
			case sat[x.ID][c.key]:
				yes = append(yes, vpair{di, c})
			case cls == "format" || strings.HasSuffix(cls, "-on-absent"):
				far = append(far, vpair{di, c})
			default:
				near = append(near, vpair{di, c})
			}
		}
	}
	take := func(l []vpair, n int) []vpair {
		rnd.Shuffle(len(l), func(a, b int) { l[a], l[b] = l[b], l[a] })
		if len(l) > n {
			l = l[:n]
		}
		return l
	}
	// filters without `type` first: that is where the reference decides the fewest pairs
	sort.SliceStable(near, func(a, b int) bool {
		return typelessFails(rd.Descs[near[a].di], near[a].c) && !typelessFails(rd.Descs[near[b].di], near[b].c)
	})
	var no []vpair
	if len(near) > 0 && typelessFails(rd.Descs[near[0].di], near[0].c) {
		no = append(no, near[0])
		near = near[1:]
	}
	no = append(no, take(near, 2-len(no))...)
	no = append(no, take(far, 3-len(no))...)
	reduced := map[int]*pe.PresentationDefinition{}
	reducedRaw := map[int][]byte{}
	definition := func(di int) *pe.PresentationDefinition {
		if pd, ok := reduced[di]; ok {
			return pd
		}
		raw := reduceDefinition(in, di, -1)
		pd, err := pe.ParsePresentationDefinition(raw)
		if err != nil {
			out.fatal = "reduced definition does not parse: " + err.Error()
			return nil
		}
		reduced[di], reducedRaw[di] = pd, raw
		return pd
	}

	probe := func(n int, p vpair, satisfied bool) {
		x := rd.Descs[p.di]
		pd := definition(p.di)
		if pd == nil {
			return
		}
		shape := vprobeShapes[(in.idx+n)%len(vprobeShapes)]
		creds := []*cred{p.c}
		at := 0
		if !satisfied && len(w.creds) > 1 && rnd.Intn(2) == 0 {
			// a companion: some other wallet credential, before or behind c
			var others []*cred
			for _, o := range w.creds {
				if o.key != p.c.key {
					others = append(others, o)
				}
			}
			if len(others) > 0 {
				o := others[rnd.Intn(len(others))]
				if rnd.Intn(2) == 0 {
					creds, at = []*cred{o, p.c}, 1
				} else {
					creds = []*cred{p.c, o}
				}
			}
		}
		vp, err := buildVP(shape.format, holderDID, creds, rnd, in.idx*10+40+n)
		if err != nil {
			out.fatal = "cannot build presentation: " + err.Error()
			return
		}
		e := buildEnvelope(shape.array, vp)
		s := pe.PresentationSubmission{Id: "descriptor-probe", DefinitionId: rd.ID, DescriptorMap: []pe.InputDescriptorMappingObject{e.entry(x.ID, 0, at)}}
		var companions []any
		for _, o := range creds {
			if o != p.c {
				companions = append(companions, o.view)
			}
		}
		witness := func() any {
			return map[string]any{"definition": json.RawMessage(reducedRaw[p.di]), "descriptor": x.ID, "credential": p.c.view, "credential_role": p.c.role, "format": p.c.format, "signed": p.c.signed,
				"presented_next_to": companions, "envelope_shape": e.shape, "submission": s, "envelope": string(e.raw), "reference_says_satisfied": satisfied}
		}
		var env *pe.Envelope
		if guard(out, "ParseEnvelope", witness, func() { env, err = pe.ParseEnvelope(e.raw) }) {
			return
		}
		if err != nil {
			out.count("verifier_probe_envelopes_unparseable", 1)
			return
		}
		var got map[string]vc.VerifiableCredential
		var verr error
		if guard(out, "Validate", witness, func() { got, verr = s.Validate(*env, *pd) }) {
			return
		}
		out.count("verifier_probes", 1)
		if satisfied {
			switch {
			case verr != nil:
				out.find("C12/agreement/validate-rejects-wallet-output/single-descriptor-probe", fmt.Sprintf("Validate rejects the map of descriptor %s to the only presented credential (%s), which satisfies it: %s",
					x.ID, p.c.role, firstLine(verr)), witness())
			case len(got) != 1 || canon(got[x.ID]) != canon(p.c.vc):
				out.find("C12/agreement/validate-returns-other-mapping", fmt.Sprintf("Validate accepts the map of descriptor %s to the only presented credential but returns another mapping", x.ID), witness())
			default:
				out.count("verifier_probes_satisfying_accepted", 1)
			}
			return
		}
		cls := failClass(rd, x, p.c)
		out.count("mutants_evaluated", 1)
		out.dist("mutators", "map-to-unsatisfying-credential")
		out.dist("verifier_probe_fail_classes", cls)
		if typelessFails(x, p.c) {
			out.count("verifier_probes_on_filter_without_type", 1)
		}
		if verr != nil {
			out.count("mutants_rejected", 1)
			out.count("verifier_probes_unsatisfying_rejected", 1)
		} else {
			out.count("mutants_accepted_wrongly", 1)
			key := "C12/unforgeable/map-to-unsatisfying-credential/" + cls
			out.find(key, fmt.Sprintf("Validate accepts a descriptor map that points descriptor %s at a credential (%s) which does not satisfy it [%s]", x.ID, p.c.role, cls), witness())
			// what would end up in the access token
			var vals map[string]any
			var eerr error
			if !guard(out, "ResolveConstraintsFields", witness, func() { vals, eerr = pd.ResolveConstraintsFields(got) }) && eerr == nil {
				var reported []string
				for i := range x.Fields {
					f := &x.Fields[i]
					if f.ID == nil {
						continue
					}
					if v, has := vals[*f.ID]; has && v != nil {
						if fr := f.eval(p.c.view); fr.unspec == "" && !fr.ok {
							reported = append(reported, fmt.Sprintf("%s=%s", *f.ID, mustJSON(v)))
						}
					}
				}
				if len(reported) > 0 {
					out.find(key+"/reported-values", fmt.Sprintf("after accepting the map of descriptor %s to a credential that does not satisfy it, claim values are extracted from the violating fields: %s",
						x.ID, strings.Join(reported, ", ")), map[string]any{"case": witness(), "reported": vals})
				}
			}
		}
		consumer := iam.VerifNewPEXConsumer(pe.WalletOwnerMapping{pe.WalletOwnerOrganization: *pd})
		var ferr error
		if guard(out, "PEXConsumer.fulfill", witness, func() { ferr = consumer.VerifFulfill(s, *env) }) {
			return
		}
		out.count("mutants_evaluated", 1)
		if ferr != nil {
			out.count("mutants_rejected", 1)
		} else {
			out.find("C12/unforgeable/pexconsumer/map-to-unsatisfying-credential/"+cls, fmt.Sprintf("PEXConsumer.fulfill accepts a descriptor map that points descriptor %s at a credential (%s) which does not satisfy it [%s]",
				x.ID, p.c.role, cls), witness())
		}
	}
	for n, p := range no {
		probe(n, p, false)
		if out.fatal != "" {
			return
		}
	}
	for n, p := range take(yes, 1) {
		probe(3+n, p, true)
	}
}

// typelessFails: the credential holds a value that certainly fails a filter without `type` of the descriptor.
func typelessFails(x *rDesc, c *cred) bool {
	for i := range x.Fields {
		f := &x.Fields[i]
		if f.Filter == nil || f.Filter.HasType {
			continue
		}
		if fr := f.eval(c.view); fr.unspec == "" && !fr.ok && !strings.HasSuffix(fieldClass(f, c.view), "-on-absent") {
			return true
		}
	}
	return false
}
