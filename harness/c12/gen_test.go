package c12

// Seeded, schema-driven generator of presentation definitions (as JSON trees) and of wallets built around them.
// The generator keeps, next to the JSON, a "spec" of every field (which attribute it looks at, values that should /
// should not satisfy it) that is used ONLY to synthesise matching and near-matching credentials. The verdicts never
// read the spec: the reference matcher (ref_test.go) reads the definition's JSON and the credentials' views.

import (
	"fmt"
	"math/rand"
	"sort"
	"strings"
	"time"
)

type filterOpt struct {
	kind   string         // for the structural fingerprint
	filter map[string]any // nil = no filter
	good   []any          // attribute values meant to satisfy
	bad    []any          // attribute values meant not to satisfy
}

type attrDef struct {
	name  string
	top   bool  // top-level credential property instead of a subject claim
	keys  []any // location below the subject (strings and ints)
	kind  string
	deflt func(g *gen) any
	opts  func(g *gen) []filterOpt
}

type fieldSpec struct {
	attr     *attrDef
	opt      filterOpt
	optional bool
	paths    []string
	subject  int // which subject index the paths address
}

type descSpec struct {
	id     string
	typ    string
	fields []fieldSpec
	format map[string]any
	groups []string
}

type defSpec struct {
	tree   map[string]any
	descs  []*descSpec
	format map[string]any
	broken string // non-empty: deliberately pushed to / over the edge of the schema
}

type gen struct {
	rnd *rand.Rand
	n   int
	// filter-vocabulary edge mode (second batch of cases, own random stream): edge > 0 makes the generator drop the
	// `type` keyword from filters of every kind (const, enum, pattern with 0|1 group, const+pattern, type-only -> {},
	// mismatching type) on every kind of value, include the rarer filter options always and steer wallets towards
	// near-matching credentials. With edge == 0 no extra random numbers are drawn (the main batch stays as it was).
	edge    float64
	edgeNow float64 // per definition: how often a filter loses its `type`
	// requirement-tree mode (third batch, own random stream, gennested_test.go): definitions are built around nested
	// submission requirements over groups of several descriptors, wallets are steered per group.
	nest bool
	ref  *rDef // requirement-tree mode: the reference's reading of the current definition, used to steer wallets only
}

// typeless returns the filter option with the `type` keyword removed. The values meant (not) to satisfy stay those of
// the typed filter: they only steer the synthesis of credentials.
func typeless(o filterOpt) filterOpt {
	f := map[string]any{}
	for k, v := range o.filter {
		if k != "type" {
			f[k] = v
		}
	}
	return filterOpt{kind: "typeless/" + o.kind, filter: f, good: o.good, bad: o.bad}
}

// rare: the rarer filter options are drawn with probability x in the main batch and always in edge mode.
func (g *gen) rare(x float64) bool {
	r := g.p(x)
	return r || g.edge > 0
}

func (g *gen) p(x float64) bool        { return g.rnd.Float64() < x }
func (g *gen) pick(l []any) any        { return l[g.rnd.Intn(len(l))] }
func (g *gen) pickS(l []string) string { return l[g.rnd.Intn(len(l))] }

func (g *gen) weighted(w ...int) int {
	sum := 0
	for _, x := range w {
		sum += x
	}
	r := g.rnd.Intn(sum)
	for i, x := range w {
		if r < x {
			return i
		}
		r -= x
	}
	return len(w) - 1
}

func anys(l ...any) []any { return l }

type pat struct {
	re   string
	good []string
	bad  []string
}

// patterns: only constructs on which RE2 and ECMAScript agree (literals, classes, anchors, greedy quantifiers,
// alternation, capturing and non-capturing groups).
var rolePats = []pat{
	{"^Admin level ([0-9])$", []string{"Admin level 4", "Admin level 2"}, []string{"Nurse", "Doctor level 1", "Admin level 12"}},
	{"Admin", []string{"Admin level 4", "Head Admin"}, []string{"Nurse", "admin"}},
	{"level ([0-9]+)", []string{"Admin level 4", "Doctor level 12"}, []string{"Nurse", "level x"}},
	{"^(?:Admin|Doctor) level [0-9]$", []string{"Admin level 4", "Doctor level 1"}, []string{"Nurse level 1", "Admin level 44"}},
	{"^Nurse$", []string{"Nurse"}, []string{"Nurses", "Head Nurse"}},
	{"([A-Z][a-z]+) level", []string{"Admin level 4", "Doctor level 1"}, []string{"Nurse", "admin level 1"}},
	{"^.*$", []string{"Nurse", "Admin level 4"}, nil},
	{"e+", []string{"Nurse", "Admin level 4"}, []string{"Admin", "Doctor"}},
}
var namePats = []pat{
	{"^A", []string{"Alice", "Anna"}, []string{"Bob", "Carol"}},
	{"^(A|B)", []string{"Alice", "Bob"}, []string{"Carol", "Dave"}},
	{"o", []string{"Bob", "Carol"}, []string{"Alice", "Dave"}},
	{"^[A-C][a-z]+$", []string{"Alice", "Bob", "Carol"}, []string{"Dave", "alice"}},
	{"^([A-Z])[a-z]*$", []string{"Alice", "Dave"}, []string{"alice", "Al ice"}},
}
var cityPats = []pat{
	{"^IJ", []string{"IJbergen", "IJmuiden"}, []string{"Amsterdam", "Utrecht"}},
	{"berg", []string{"IJbergen", "Bergen op Zoom berg"}, []string{"Amsterdam", "Utrecht"}},
	{"(dam|recht)$", []string{"Amsterdam", "Utrecht"}, []string{"IJbergen", "Damwoude"}},
	{"^[A-Z]", []string{"Amsterdam", "IJbergen"}, []string{"amsterdam", "utrecht"}},
}
var tagPats = []pat{
	{"^(re|gre)", []string{"red", "green"}, []string{"blue", "care"}},
	{"e+n", []string{"green"}, []string{"red", "blue"}},
	{"care", []string{"care", "healthcare"}, []string{"red", "blue"}},
	{"^b(l)ue$", []string{"blue"}, []string{"red", "blues"}},
}
var issuerPats = []pat{
	{"^did:web:", []string{"did:web:issuer.example", "did:web:other.example"}, []string{"did:example:issuer"}},
	{"^did:web:([a-z.]+)$", []string{"did:web:issuer.example"}, []string{"did:example:issuer", "did:web:Issuer.example"}},
	{"issuer", []string{"did:web:issuer.example", "did:example:issuer"}, []string{"did:web:other.example"}},
}

func stringOpts(pool []string, pats []pat, wrap func(string, *gen) any) func(g *gen) []filterOpt {
	if wrap == nil {
		wrap = func(s string, _ *gen) any { return s }
	}
	wrapAll := func(l []string, g *gen) []any {
		var out []any
		for _, s := range l {
			out = append(out, wrap(s, g))
		}
		return out
	}
	return func(g *gen) []filterOpt {
		c := g.pickS(pool)
		var others []string
		for _, s := range pool {
			if s != c {
				others = append(others, s)
			}
		}
		n := 1 + g.rnd.Intn(len(pool)-1)
		perm := g.rnd.Perm(len(pool))
		var in, out []string
		for i, k := range perm {
			if i < n {
				in = append(in, pool[k])
			} else {
				out = append(out, pool[k])
			}
		}
		enum := append(strs(in), "zzz")
		// values one edit away from the constant: longer, shorter, other case
		others = append(others, c+"x", c[:len(c)-1], "x"+c)
		out = append(out, in[0]+"x", in[0][:len(in[0])-1])
		if !strings.HasPrefix(c, "did:") { // URIs: the library normalises the case of the scheme
			others = append(others, strings.ToUpper(c))
			out = append(out, strings.ToUpper(in[0]))
		}
		pt := pats[g.rnd.Intn(len(pats))]
		kindP := "pattern0"
		if strings.Contains(strings.ReplaceAll(pt.re, "(?:", ""), "(") {
			kindP = "pattern1"
		}
		opts := []filterOpt{
			{"type:string", map[string]any{"type": "string"}, wrapAll(pool, g), anys(7.0, true)},
			{"const", map[string]any{"type": "string", "const": c}, wrapAll([]string{c}, g), wrapAll(others, g)},
			{"const", map[string]any{"type": "string", "const": c}, wrapAll([]string{c}, g), wrapAll(others, g)},
			{"enum", map[string]any{"type": "string", "enum": enum}, wrapAll(in, g), wrapAll(out, g)},
			{kindP, map[string]any{"type": "string", "pattern": pt.re}, wrapAll(pt.good, g), wrapAll(pt.bad, g)},
			{kindP, map[string]any{"type": "string", "pattern": pt.re}, wrapAll(pt.good, g), wrapAll(pt.bad, g)},
			{"nofilter", nil, wrapAll(pool, g), nil},
		}
		if g.rare(0.15) {
			opts = append(opts,
				filterOpt{"type-mismatch", map[string]any{"type": "number"}, anys(5.0), wrapAll(pool, g)},
				filterOpt{"type-mismatch", map[string]any{"type": "boolean"}, anys(true), wrapAll(pool, g)},
				filterOpt{"typeless-const", map[string]any{"const": c}, wrapAll([]string{c}, g), wrapAll(others, g)},
				filterOpt{"typeless-enum", map[string]any{"enum": enum}, wrapAll(in, g), wrapAll(out, g)},
				filterOpt{"const+pattern", map[string]any{"type": "string", "const": pt.good[0], "pattern": pt.re}, wrapAll(pt.good[:1], g), wrapAll(pt.bad, g)},
				filterOpt{"enum-type-mismatch", map[string]any{"type": "number", "enum": enum}, nil, wrapAll(in, g)},
			)
			if g.edge > 0 {
				// enum combined with the other keywords (all of them have to hold): an enum that lists a value the pattern
				// refuses next to one it takes; an enum next to a const that is one of its values. Their typeless forms come
				// from the `type` dropping of edge mode.
				enumP := []string{pt.good[0], "zzz"}
				goodP, badP := []string{pt.good[0]}, append([]string{"zzz"}, pt.good[1:]...)
				if len(pt.bad) > 0 {
					enumP = append(enumP, pt.bad[0])
					badP = append(badP, pt.bad...)
				}
				g.rnd.Shuffle(len(enumP), func(a, b int) { enumP[a], enumP[b] = enumP[b], enumP[a] })
				opts = append(opts,
					filterOpt{"enum+" + kindP, map[string]any{"type": "string", "enum": strs(enumP), "pattern": pt.re}, wrapAll(goodP, g), wrapAll(badP, g)},
					filterOpt{"enum+const", map[string]any{"type": "string", "enum": enum, "const": in[0]}, wrapAll(in[:1], g), wrapAll(append(append([]string{"zzz"}, in[1:]...), out...), g)},
				)
			}
		}
		return opts
	}
}

var (
	roles   = []string{"Admin level 4", "Admin level 2", "Nurse", "Doctor level 1"}
	names   = []string{"Alice", "Bob", "Carol", "Dave"}
	cities  = []string{"IJbergen", "Amsterdam", "Utrecht"}
	tags    = []string{"red", "green", "blue", "care"}
	types   = []string{"AlphaCredential", "BetaCredential", "GammaCredential"}
	issuers = []string{"did:web:issuer.example", "did:web:other.example", "did:example:issuer"}
)

// arrayWith wraps a string into an array value containing it among other elements (never elements from avoid).
func arrayWith(pool []string) func(string, *gen) any {
	return func(s string, g *gen) any {
		out := []any{}
		if g.p(0.5) {
			out = append(out, "x-other")
		}
		out = append(out, s)
		if g.p(0.3) {
			out = append(out, 3.0)
		}
		return out
	}
}

func numberOpts(g *gen) []filterOpt {
	nums := anys(1.0, 2.0, 3.0, 4.5)
	opts := []filterOpt{
		{"type:number", map[string]any{"type": "number"}, nums, anys("3", true)},
		{"type:number", map[string]any{"type": "number"}, nums, anys("3", true)},
		{"nofilter", nil, nums, nil},
		{"number+pattern", map[string]any{"type": "number", "pattern": "^2"}, nums, anys("2")},
	}
	if g.rare(0.2) {
		opts = append(opts,
			filterOpt{"number-const-string", map[string]any{"type": "number", "const": "2"}, nil, anys(2.0, "2")},
			filterOpt{"number-enum-string", map[string]any{"type": "number", "enum": anys("1", "2")}, nil, anys(1.0, "1")},
			filterOpt{"type-mismatch", map[string]any{"type": "string"}, anys("2"), nums},
		)
	}
	return opts
}

func boolOpts(g *gen) []filterOpt {
	opts := []filterOpt{
		{"type:boolean", map[string]any{"type": "boolean"}, anys(true, false), anys("true", 1.0)},
		{"type:boolean", map[string]any{"type": "boolean"}, anys(true, false), anys("true", 1.0)},
		{"nofilter", nil, anys(true, false), nil},
	}
	if g.rare(0.2) {
		opts = append(opts,
			filterOpt{"bool-const-string", map[string]any{"type": "boolean", "const": "true"}, nil, anys(true, "true")},
			filterOpt{"type-mismatch", map[string]any{"type": "string"}, anys("true"), anys(true)},
		)
	}
	return opts
}

func tagsOpts(g *gen) []filterOpt {
	opts := stringOpts(tags, tagPats, arrayWith(tags))(g)
	// the string options above become "an element satisfies it"; add the array-specific ones
	strArr := anys(anys("red", "green"), anys("care"))
	opts = append(opts,
		filterOpt{"type:array", map[string]any{"type": "array"}, strArr, anys("red", 4.0)},
		filterOpt{"array/type:string", map[string]any{"type": "string"}, strArr, anys(anys(), anys(1.0, 2.0), anys(true))},
		filterOpt{"array/type:number", map[string]any{"type": "number"}, anys(anys("red", 2.0), anys(1.0)), anys(anys("red"), anys())},
		filterOpt{"array/type:boolean", map[string]any{"type": "boolean"}, anys(anys(true, "x")), anys(anys("true"), anys(1.0))},
	)
	if g.rare(0.3) {
		opts = append(opts,
			filterOpt{"array-const", map[string]any{"type": "array", "const": "red"}, nil, anys(anys("red"))},
			filterOpt{"array-enum", map[string]any{"type": "array", "enum": anys("red", "blue")}, nil, anys(anys("red"), anys("blue", "x"))},
			filterOpt{"array-pattern", map[string]any{"type": "array", "pattern": "^zzz"}, strArr, anys("red")},
		)
	}
	return opts
}

func codesOpts(g *gen) []filterOpt {
	numArr := anys(anys(1.0, 2.0), anys(7.0))
	return []filterOpt{
		{"array/type:number", map[string]any{"type": "number"}, numArr, anys(anys("1"), anys(), "1")},
		{"type:array", map[string]any{"type": "array"}, numArr, anys(1.0)},
		{"array/type:string", map[string]any{"type": "string"}, anys(anys(1.0, "a")), numArr},
		{"nofilter", nil, numArr, nil},
		{"array-number+pattern", map[string]any{"type": "number", "pattern": "^9"}, numArr, anys(anys("9"))},
	}
}

func sub(kind string, deflt func(g *gen) any, opts func(g *gen) []filterOpt, name string, keys ...any) *attrDef {
	return &attrDef{name: name, keys: keys, kind: kind, deflt: deflt, opts: opts}
}

var attrs []*attrDef
var typeAttr, issuerAttr *attrDef

func init() {
	ps := func(pool []string) func(g *gen) any { return func(g *gen) any { return g.pickS(pool) } }
	attrs = []*attrDef{
		sub("string", ps(roles), stringOpts(roles, rolePats, nil), "role", "role"),
		sub("string", ps(roles), stringOpts(roles, rolePats, nil), "role", "role"),
		sub("string", ps(names), stringOpts(names, namePats, nil), "name", "name"),
		sub("string", ps(cities), stringOpts(cities, cityPats, nil), "org.city", "org", "city"),
		sub("string", ps(names), stringOpts(names, namePats, nil), "org.name", "org", "name"),
		sub("number", func(g *gen) any { return g.pick(anys(1.0, 2.0, 3.0, 4.5)) }, numberOpts, "level", "level"),
		sub("number", func(g *gen) any { return g.pick(anys(1.0, 2.0, 10.0)) }, numberOpts, "org.size", "org", "size"),
		sub("boolean", func(g *gen) any { return g.p(0.5) }, boolOpts, "active", "active"),
		sub("array", func(g *gen) any { return anys(g.pickS(tags), g.pickS(tags)) }, tagsOpts, "tags", "tags"),
		sub("array", func(g *gen) any { return anys(g.pickS(tags), g.pickS(tags)) }, tagsOpts, "tags", "tags"),
		sub("array", func(g *gen) any { return anys(1.0, 2.0) }, codesOpts, "codes", "codes"),
		sub("element", func(g *gen) any { return anys(g.pickS(tags), g.pickS(tags)) },
			func(g *gen) []filterOpt {
				// path addresses tags[0]; values are whole arrays
				var out []filterOpt
				for _, o := range stringOpts(tags, tagPats, func(s string, g *gen) any { return anys(s, "x-other") })(g) {
					out = append(out, o)
				}
				return out
			}, "tags[0]", "tags", 0),
		sub("object", func(g *gen) any { return map[string]any{"name": g.pickS(names), "city": g.pickS(cities)} },
			func(g *gen) []filterOpt {
				o := map[string]any{"name": "Alice", "city": "Utrecht"}
				opts := []filterOpt{{"nofilter", nil, anys(o), nil}, {"nofilter", nil, anys(o), nil}}
				if g.p(0.15) {
					opts = append(opts, filterOpt{"object-target", map[string]any{"type": "string"}, anys("Alice"), anys(o)})
				}
				return opts
			}, "org", "org"),
	}
	typeAttr = &attrDef{name: "type", top: true, kind: "array"}
	issuerAttr = &attrDef{name: "issuer", top: true, kind: "string", opts: stringOpts(issuers, issuerPats, nil)}
}

// ---- paths ---------------------------------------------------------------------------------------

func suffix(keys []any, bracket bool) string {
	var sb strings.Builder
	for _, k := range keys {
		switch x := k.(type) {
		case string:
			if bracket {
				fmt.Fprintf(&sb, "[%q]", x)
			} else {
				sb.WriteString("." + x)
			}
		case int:
			fmt.Fprintf(&sb, "[%d]", x)
		}
	}
	return sb.String()
}

// subjectPaths returns path expressions for a subject claim: the compact form ($.credentialSubject.x, what a JSON-LD
// credential with one subject looks like) and the indexed form ($.credentialSubject[i].x, JWT / several subjects).
func (g *gen) subjectPaths(keys []any, subject int) []string {
	compact := []string{"$.credentialSubject" + suffix(keys, false), `$["credentialSubject"]` + suffix(keys, true), "$.credentialSubject" + suffix(keys, true)}
	indexed := []string{fmt.Sprintf("$.credentialSubject[%d]%s", subject, suffix(keys, false)), fmt.Sprintf(`$["credentialSubject"][%d]%s`, subject, suffix(keys, true))}
	c := compact[g.weighted(6, 1, 1)]
	i := indexed[g.weighted(6, 1)]
	var out []string
	switch g.weighted(14, 2, 2) {
	case 0:
		out = []string{c, i}
		if g.p(0.4) {
			out = []string{i, c}
		}
	case 1:
		out = []string{c}
	default:
		out = []string{i}
	}
	if subject > 0 {
		out = []string{i}
	}
	if g.p(0.15) {
		missing := "$.credentialSubject.absent" + suffix(keys, false)
		if g.p(0.5) {
			out = append([]string{missing}, out...)
		} else {
			out = append(out, missing)
		}
	}
	return out
}

// ---- definitions ---------------------------------------------------------------------------------

var formatPool = []func() map[string]any{
	func() map[string]any {
		return map[string]any{"ldp_vc": map[string]any{"proof_type": anys("JsonWebSignature2020")}}
	},
	func() map[string]any { return map[string]any{"jwt_vc": map[string]any{"alg": anys("ES256")}} },
	func() map[string]any {
		return map[string]any{"ldp_vc": map[string]any{"proof_type": anys("JsonWebSignature2020", "Ed25519Signature2018")},
			"jwt_vc": map[string]any{"alg": anys("ES256", "ES384")}}
	},
	func() map[string]any {
		return map[string]any{"ldp_vc": map[string]any{"proof_type": anys("JsonWebSignature2020")},
			"jwt_vc": map[string]any{"alg": anys("ES256")}, "ldp_vp": map[string]any{"proof_type": anys("JsonWebSignature2020")},
			"jwt_vp": map[string]any{"alg": anys("ES256")}}
	},
	func() map[string]any {
		return map[string]any{"jwt_vc": map[string]any{"alg": anys("ES384", "EdDSA")}, "jwt_vp": map[string]any{"alg": anys("ES256")}}
	},
	func() map[string]any {
		return map[string]any{"ldp_vc": map[string]any{"proof_type": anys("Ed25519Signature2018")}, "ldp_vp": map[string]any{"proof_type": anys("JsonWebSignature2020")}}
	},
	func() map[string]any {
		return map[string]any{"ldp_vp": map[string]any{"proof_type": anys("JsonWebSignature2020")}}
	},
	func() map[string]any { return map[string]any{} },
	func() map[string]any {
		return map[string]any{"jwt": map[string]any{"alg": anys("ES256")}, "ldp": map[string]any{"proof_type": anys("JsonWebSignature2020")}}
	},
}

func (g *gen) format() map[string]any {
	return formatPool[g.weighted(4, 4, 5, 4, 2, 2, 1, 1, 1)]()
}

func (g *gen) field(idPrefix string, n int) (fieldSpec, map[string]any) {
	a := attrs[g.rnd.Intn(len(attrs))]
	if g.p(0.08) {
		a = issuerAttr
	}
	opts := a.opts(g)
	fs := fieldSpec{attr: a, opt: opts[g.rnd.Intn(len(opts))]}
	for try := 0; g.nest && try < 3 && len(fs.opt.good) == 0; try++ { // requirement-tree mode: descriptors should be satisfiable
		fs.opt = opts[g.rnd.Intn(len(opts))]
	}
	if g.edge > 0 && fs.opt.filter != nil && g.p(g.edgeNow) {
		fs.opt = typeless(fs.opt)
	}
	if a.top {
		fs.paths = []string{"$." + a.name}
		if g.p(0.2) {
			fs.paths = []string{fmt.Sprintf(`$[%q]`, a.name)}
		}
	} else {
		if g.p(0.03) {
			fs.subject = 1
		}
		fs.paths = g.subjectPaths(a.keys, fs.subject)
	}
	m := map[string]any{"path": strs(fs.paths)}
	if fs.opt.filter != nil {
		m["filter"] = fs.opt.filter
	}
	if g.p(0.6) {
		m["id"] = fmt.Sprintf("%s_f%d", idPrefix, n)
		if g.p(0.04) {
			m["id"] = "shared_field"
		}
	}
	switch g.weighted(70, 22, 8) {
	case 1:
		fs.optional = true
		m["optional"] = true
	case 2:
		m["optional"] = false
	}
	if g.p(0.1) {
		m["purpose"] = "because"
	}
	if g.p(0.1) {
		m["name"] = "a field"
	}
	if g.p(0.05) {
		m["intent_to_retain"] = g.p(0.5)
	}
	return fs, m
}

func (g *gen) descriptor(i int) (*descSpec, map[string]any) {
	d := &descSpec{id: fmt.Sprintf("d%d", i)}
	var fields []any
	if g.p(0.6) {
		d.typ = g.pickS(types)
		path := "$.type"
		f := map[string]any{"path": anys(path), "filter": map[string]any{"type": "string", "const": d.typ}}
		if g.p(0.2) {
			f["filter"] = map[string]any{"type": "string", "pattern": "^" + d.typ[:3]}
		}
		if g.edge > 0 && g.p(g.edgeNow/2) {
			delete(f["filter"].(map[string]any), "type")
		}
		if g.p(0.2) {
			f["id"] = fmt.Sprintf("d%d_type", i)
		}
		fields = append(fields, f)
	}
	n := g.weighted(1, 4, 4, 3, 1)
	if g.nest { // many descriptors have to be satisfied at once: fewer fields each
		n = g.weighted(5, 4, 1)
	}
	for k := 0; k < n; k++ {
		fs, m := g.field(d.id, k)
		d.fields = append(d.fields, fs)
		fields = append(fields, m)
	}
	g.rnd.Shuffle(len(fields), func(a, b int) { fields[a], fields[b] = fields[b], fields[a] })
	constraints := map[string]any{}
	if len(fields) > 0 || g.p(0.5) {
		if fields == nil {
			fields = []any{}
		}
		constraints["fields"] = fields
	}
	if g.p(0.05) {
		constraints["limit_disclosure"] = "preferred"
	}
	m := map[string]any{"id": d.id, "constraints": constraints}
	if g.p(0.3) {
		m["name"] = "descriptor " + d.id
	}
	if g.p(0.1) {
		m["purpose"] = "to see"
	}
	pFormat := 0.25
	if g.nest {
		pFormat = 0.08
	}
	if g.p(pFormat) {
		d.format = g.format()
		m["format"] = d.format
	}
	return d, m
}

func (g *gen) requirement(depth int, groups []string, nest float64) map[string]any {
	m := map[string]any{}
	if g.p(0.3) {
		m["rule"] = "all"
	} else {
		m["rule"] = "pick"
		bits := g.rnd.Intn(8) // every subset of {count,min,max}
		if bits&1 != 0 {
			m["count"] = 1 + g.weighted(6, 3, 1)
		}
		minV := g.weighted(2, 5, 3)
		if bits&2 != 0 {
			m["min"] = minV
		}
		if bits&4 != 0 {
			maxV := minV + g.weighted(3, 4, 2)
			if g.p(0.12) {
				maxV = g.rnd.Intn(3)
			}
			m["max"] = maxV
		}
	}
	if depth < 3 && g.p(nest) {
		n := 1 + g.weighted(2, 5, 2)
		var children []any
		for i := 0; i < n; i++ {
			children = append(children, g.requirement(depth+1, groups, 0.3))
		}
		m["from_nested"] = children
	} else {
		m["from"] = g.pickS(groups)
	}
	if g.p(0.4) {
		m["name"] = fmt.Sprintf("req-%d-%d", depth, g.rnd.Intn(100))
	}
	if g.p(0.1) {
		m["purpose"] = "need it"
	}
	return m
}

func collectGroups(m map[string]any, into map[string]bool) {
	if s, ok := m["from"].(string); ok {
		into[s] = true
	}
	if l, ok := m["from_nested"].([]any); ok {
		for _, c := range l {
			collectGroups(c.(map[string]any), into)
		}
	}
}

func (g *gen) definition() *defSpec {
	if g.nest {
		return g.nestedDefinition()
	}
	g.n++
	ds := &defSpec{}
	if g.edge > 0 {
		g.edgeNow = g.edge * []float64{0.4, 1, 1.8}[g.rnd.Intn(3)]
	}
	tree := map[string]any{"id": fmt.Sprintf("pd-%d", g.n)}
	if g.p(0.3) {
		tree["name"] = "generated definition"
	}
	if g.p(0.2) {
		tree["purpose"] = "verification"
	}
	if g.p(0.3) {
		ds.format = g.format()
		tree["format"] = ds.format
	}
	nDesc := 1 + g.weighted(4, 5, 4, 2, 1)
	if g.p(0.03) {
		nDesc = 0
	}
	descs := []any{}
	var descMaps []map[string]any
	for i := 0; i < nDesc; i++ {
		d, m := g.descriptor(i)
		ds.descs = append(ds.descs, d)
		descs = append(descs, m)
		descMaps = append(descMaps, m)
	}
	tree["input_descriptors"] = descs
	if g.p(0.6) && nDesc > 0 {
		pool := []string{"A", "B", "C"}[:1+g.weighted(5, 4, 2)]
		nReq := 1 + g.weighted(6, 3, 1)
		var reqs []any
		used := map[string]bool{}
		for i := 0; i < nReq; i++ {
			q := g.requirement(1, pool, 0.22)
			collectGroups(q, used)
			reqs = append(reqs, q)
		}
		tree["submission_requirements"] = reqs
		var usedList []string
		for k := range used {
			usedList = append(usedList, k)
		}
		sort.Strings(usedList)
		for i, m := range descMaps {
			var gr []string
			switch g.weighted(84, 8, 4, 4) {
			case 0:
				gr = []string{g.pickS(usedList)}
			case 1:
				gr = []string{g.pickS(usedList), g.pickS(pool)}
				if gr[0] == gr[1] {
					gr = gr[:1]
				}
			case 2:
				gr = nil
			case 3:
				gr = []string{"Z"}
			}
			ds.descs[i].groups = gr
			if gr != nil {
				m["group"] = strs(gr)
			}
		}
	}
	ds.tree = tree
	if g.p(0.06) {
		g.breakDefinition(ds)
	}
	return ds
}

// breakDefinition pushes a definition to (or over) the edge of what the schema / the parser accept, so that the
// discard path of the generator is exercised and counted.
func (g *gen) breakDefinition(ds *defSpec) {
	tree := ds.tree
	firstReq := func() map[string]any {
		if l, ok := tree["submission_requirements"].([]any); ok && len(l) > 0 {
			return l[0].(map[string]any)
		}
		return nil
	}
	firstFilter := func() map[string]any {
		for _, d := range tree["input_descriptors"].([]any) {
			c := d.(map[string]any)["constraints"].(map[string]any)
			if fl, ok := c["fields"].([]any); ok {
				for _, f := range fl {
					if flt, ok := f.(map[string]any)["filter"].(map[string]any); ok {
						return flt
					}
				}
			}
		}
		return nil
	}
	switch g.rnd.Intn(8) {
	case 0:
		if q := firstReq(); q != nil {
			q["count"] = 0
			ds.broken = "count-0"
		}
	case 1:
		if q := firstReq(); q != nil {
			q["from"] = "A"
			q["from_nested"] = anys(map[string]any{"rule": "all", "from": "A"})
			ds.broken = "from-and-from_nested"
		}
	case 2:
		if f := firstFilter(); f != nil {
			f["type"] = "number"
			f["const"] = 5
			delete(f, "enum")
			ds.broken = "numeric-const"
		}
	case 3:
		if f := firstFilter(); f != nil {
			f["enum"] = anys(1, 2)
			ds.broken = "numeric-enum"
		}
	case 4:
		tree["unknown_property"] = true
		ds.broken = "unknown-property"
	case 5:
		if q := firstReq(); q != nil {
			q["rule"] = "any"
			ds.broken = "unknown-rule"
		}
	case 6:
		if f := firstFilter(); f != nil {
			f["const"] = true
			f["type"] = "boolean"
			ds.broken = "boolean-const"
		}
	case 7:
		tree["format"] = map[string]any{"mso_mdoc": map[string]any{"alg": anys("ES256")}}
		ds.broken = "unknown-format-designation"
	}
}

// ---- wallets -------------------------------------------------------------------------------------

const holderDID = "did:web:holder.example"

func (g *gen) baseTemplate(typ string) *tmpl {
	g.n++
	if typ == "" {
		typ = g.pickS(types)
	}
	subject := map[string]any{"id": holderDID}
	for _, a := range attrs {
		if g.p(0.45) {
			setAt(subject, a.keys, a.deflt(g))
		}
	}
	t := &tmpl{
		id:       fmt.Sprintf("urn:uuid:00000000-0000-4000-8000-%012d", g.n),
		types:    []string{"VerifiableCredential", typ},
		issuer:   g.pickS(issuers),
		issued:   time.Date(2024, time.Month(1+g.rnd.Intn(12)), 1+g.rnd.Intn(28), g.rnd.Intn(24), 0, 0, 0, time.UTC),
		subjects: []map[string]any{subject},
	}
	if g.p(0.2) {
		e := t.issued.Add(24 * time.Hour * 365)
		t.expires = &e
	}
	if g.p(0.06) {
		t.types = append(t.types, g.pickS(types))
	}
	if g.p(0.08) {
		second := map[string]any{"id": holderDID}
		for _, a := range attrs {
			if g.p(0.4) {
				setAt(second, a.keys, a.deflt(g))
			}
		}
		t.subjects = append(t.subjects, second)
	}
	return t
}

// setAt writes value below m at keys; an int key (only ever the last one here: tags[0]) means "value is the whole
// array at the parent key".
func setAt(m map[string]any, keys []any, value any) {
	cur := m
	for i, k := range keys {
		ks, isString := k.(string)
		if !isString {
			return
		}
		last := i == len(keys)-1 || func() bool { _, isInt := keys[i+1].(int); return isInt }()
		if last {
			cur[ks] = value
			return
		}
		next, ok := cur[ks].(map[string]any)
		if !ok {
			next = map[string]any{}
			cur[ks] = next
		}
		cur = next
	}
}

func deleteAt(m map[string]any, keys []any) {
	cur := m
	for i, k := range keys {
		ks, isString := k.(string)
		if !isString {
			return
		}
		last := i == len(keys)-1 || func() bool { _, isInt := keys[i+1].(int); return isInt }()
		if last {
			delete(cur, ks)
			return
		}
		next, ok := cur[ks].(map[string]any)
		if !ok {
			return
		}
		cur = next
	}
}

type securing struct{ format, signed string }

var securings = []securing{
	{"ldp_vc", ""}, {"ldp_vc", "JsonWebSignature2020"}, {"ldp_vc", "JsonWebSignature2020"}, {"ldp_vc", "Ed25519Signature2018"},
	{"jwt_vc", ""}, {"jwt_vc", "ES256"}, {"jwt_vc", "ES256"}, {"jwt_vc", "ES384"}, {"jwt_vc", "EdDSA"},
}

// allowedBy: generator-side guess whether a securing is allowed by a format designation (only steers synthesis).
func allowedBy(f map[string]any, s securing) bool {
	if len(f) == 0 {
		return true
	}
	e, ok := f[s.format].(map[string]any)
	if !ok {
		return false
	}
	if s.signed == "" {
		return true
	}
	for _, l := range e {
		for _, x := range l.([]any) {
			if x == s.signed {
				return true
			}
		}
	}
	return false
}

func (g *gen) securingFor(ds *defSpec, d *descSpec, want bool) securing {
	var ok, notOK []securing
	for _, s := range securings {
		a := allowedBy(ds.format, s)
		if d != nil {
			a = a && allowedBy(d.format, s)
		}
		if a {
			ok = append(ok, s)
		} else {
			notOK = append(notOK, s)
		}
	}
	l := ok
	if !want {
		l = notOK
	}
	if len(l) == 0 {
		return securings[g.rnd.Intn(len(securings))]
	}
	return l[g.rnd.Intn(len(l))]
}

func (g *gen) render(t *tmpl, s securing) *cred {
	var c *cred
	var err error
	subjArr := false
	if s.format == "ldp_vc" {
		c, err = renderLDP(t, s.signed, g.rnd)
	} else {
		subjArr = g.p(0.5)
		c, err = renderJWT(t, s.signed, subjArr, g.rnd)
	}
	if err != nil {
		panic(fmt.Sprintf("harness: generated credential does not parse: %v", err))
	}
	c.tmpl, c.subjArr = t.clone(), subjArr
	return c
}

// synth builds a template meant to satisfy descriptor d.
func (g *gen) synth(d *descSpec) *tmpl {
	t := g.baseTemplate(d.typ)
	needSecond := false
	for _, f := range d.fields {
		if f.subject == 1 {
			needSecond = true
		}
	}
	if needSecond && len(t.subjects) < 2 {
		t.subjects = append(t.subjects, map[string]any{"id": holderDID})
	}
	for _, f := range d.fields {
		if f.optional && g.p(0.4) {
			if !f.attr.top {
				deleteAt(t.subjects[f.subject], f.attr.keys)
			}
			continue
		}
		if len(f.opt.good) == 0 {
			continue
		}
		v := deepCopy(g.pick(f.opt.good))
		if f.attr.top {
			if f.attr == issuerAttr {
				if s, ok := v.(string); ok {
					t.issuer = s
				}
			}
			continue
		}
		setAt(t.subjects[f.subject], f.attr.keys, v)
	}
	return t
}

// nearMiss takes a satisfying template and puts exactly one thing off. Returns what was changed ("" = nothing possible).
func (g *gen) nearMiss(ds *defSpec, d *descSpec, t *tmpl) (string, *securing) {
	var choices []func() string
	for i := range d.fields {
		f := d.fields[i]
		if f.attr.top {
			if f.attr == issuerAttr && len(f.opt.bad) > 0 {
				choices = append(choices, func() string {
					if s, ok := g.pick(f.opt.bad).(string); ok {
						t.issuer = s
						return "issuer"
					}
					return ""
				})
			}
			continue
		}
		if len(f.opt.bad) > 0 {
			choices = append(choices, func() string {
				setAt(t.subjects[f.subject], f.attr.keys, deepCopy(g.pick(f.opt.bad)))
				return "value:" + f.attr.name
			})
		}
		if !f.optional {
			choices = append(choices, func() string {
				deleteAt(t.subjects[f.subject], f.attr.keys)
				return "removed:" + f.attr.name
			})
		}
	}
	if d.typ != "" {
		choices = append(choices, func() string {
			for _, o := range types {
				if o != d.typ {
					t.types = []string{"VerifiableCredential", o}
					return "type"
				}
			}
			return ""
		})
	}
	if len(ds.format) > 0 || len(d.format) > 0 {
		choices = append(choices, func() string { return "format" }, func() string { return "format" })
	}
	if len(choices) == 0 {
		return "", nil
	}
	what := choices[g.rnd.Intn(len(choices))]()
	if what == "format" {
		s := g.securingFor(ds, d, false)
		return what, &s
	}
	return what, nil
}

type wallet struct {
	creds []*cred
	class string
}

func (g *gen) wallet(ds *defSpec) *wallet {
	if g.nest {
		return g.nestedWallet(ds)
	}
	w := &wallet{}
	var matchN, nearN, decoyN int
	if g.p(0.03) {
		w.class = "empty"
		return w
	}
	pComplete := 0.7
	if g.edge > 0 {
		pComplete = 0.35
	}
	complete := g.p(pComplete) // steer towards wallets that can satisfy everything
	for _, d := range ds.descs {
		roll := g.weighted(55, 27, 18)
		if complete && roll != 0 && g.p(0.85) {
			roll = 0
		}
		switch roll {
		case 0:
			t := g.synth(d)
			c := g.render(t, g.securingFor(ds, d, g.p(0.92)))
			c.role = "match:" + d.id
			w.creds = append(w.creds, c)
			matchN++
			if g.p(0.08) { // the same content in the other securing format as well
				o := g.render(t, g.securingFor(ds, d, g.p(0.7)))
				if o.key != c.key {
					o.role = "match-other-format:" + d.id
					w.creds = append(w.creds, o)
				}
			}
		case 1:
			t := g.synth(d)
			what, sec := g.nearMiss(ds, d, t)
			s := g.securingFor(ds, d, true)
			if sec != nil {
				s = *sec
			}
			c := g.render(t, s)
			c.role = "near:" + d.id + ":" + what
			w.creds = append(w.creds, c)
			nearN++
		}
	}
	for i := g.weighted(4, 4, 2); i > 0; i-- {
		c := g.render(g.baseTemplate(""), securings[g.rnd.Intn(len(securings))])
		c.role = "decoy"
		w.creds = append(w.creds, c)
		decoyN++
	}
	if len(w.creds) > 0 && g.p(0.05) {
		dup := *w.creds[g.rnd.Intn(len(w.creds))]
		dup.role = "duplicate"
		w.creds = append(w.creds, &dup)
	}
	g.rnd.Shuffle(len(w.creds), func(a, b int) { w.creds[a], w.creds[b] = w.creds[b], w.creds[a] })
	w.class = fmt.Sprintf("m%d/n%d/d%d", matchN, nearN, decoyN)
	return w
}

// ---- structural fingerprint ----------------------------------------------------------------------

func reqShape(m map[string]any) string {
	s := fmt.Sprint(m["rule"])
	if m["rule"] == "pick" {
		s += "{"
		for _, k := range []string{"count", "min", "max"} {
			if _, ok := m[k]; ok {
				s += k[:2]
			}
		}
		s += "}"
	}
	if l, ok := m["from_nested"].([]any); ok {
		s += "("
		for i, c := range l {
			if i > 0 {
				s += ","
			}
			s += reqShape(c.(map[string]any))
		}
		return s + ")"
	}
	return s + "<g"
}

func (ds *defSpec) shape() string {
	var sb strings.Builder
	if ds.format != nil {
		sb.WriteString("F")
	}
	for _, d := range ds.descs {
		sb.WriteString("[")
		if d.typ != "" {
			sb.WriteString("T")
		}
		if d.format != nil {
			sb.WriteString("F")
		}
		fmt.Fprintf(&sb, "g%d", len(d.groups))
		var ks []string
		for _, f := range d.fields {
			k := f.opt.kind
			if f.optional {
				k += "?"
			}
			ks = append(ks, k)
		}
		sort.Strings(ks)
		sb.WriteString(strings.Join(ks, ","))
		sb.WriteString("]")
	}
	if l, ok := ds.tree["submission_requirements"].([]any); ok {
		for _, q := range l {
			sb.WriteString("|" + reqShape(q.(map[string]any)))
		}
	}
	return sb.String()
}
