package c12

// Reference matcher, requirement TREES: what ref_test.go's evaluator (rReq.eval, recursive) needs on top to decide
// completeness and upper bounds for definitions with from_nested.
//
// A requirement over from_nested asks for a NUMBER OF NESTED REQUIREMENTS (all of them / count / min..max) that are
// satisfied by the selection - not for a number of credentials. Where the property text is silent the reference does
// not decide:
//   - a requirement below a from_nested that the EMPTY selection satisfies (pick without count/min, min 0, a group
//     without descriptors): whether "satisfied by selecting nothing" counts towards the parent is not said anywhere;
//   - overlapping groups (a group referenced twice, a descriptor in two groups): bounds of one requirement can
//     contradict another's.

import "sort"

// vacuous: the at-least side of the requirement holds on the empty selection.
func (q *rReq) vacuous(d *rDef) bool {
	l, _ := q.eval(d, map[string]bool{})
	return l
}

func (q *rReq) vacuousBelow(d *rDef) bool {
	for _, c := range q.Nested {
		if c.vacuous(d) || c.vacuousBelow(d) {
			return true
		}
	}
	return false
}

// vacuousBelowNesting: some requirement below a from_nested is satisfied by selecting nothing.
func (d *rDef) vacuousBelowNesting() bool {
	for _, q := range d.Reqs {
		if q.vacuousBelow(d) {
			return true
		}
	}
	return false
}

// upperDeep: the at-most side (count / max) holds at this requirement and at every requirement below it; at a
// from_nested requirement the number compared is the number of satisfied nested requirements.
func (q *rReq) upperDeep(d *rDef, sel map[string]bool) bool {
	if _, u := q.eval(d, sel); !u {
		return false
	}
	for _, c := range q.Nested {
		if !c.upperDeep(d, sel) {
			return false
		}
	}
	return true
}

func (d *rDef) upperDeep(sel map[string]bool) bool {
	for _, q := range d.Reqs {
		if !q.upperDeep(d, sel) {
			return false
		}
	}
	return true
}

// existsTree decides whether a complete selection exists for a definition with nesting, given the matchable
// descriptors. lax: at-least side only (monotone: the selection of everything matchable decides it); strict: at-least
// and at-most side at every level, by enumeration (up to 12 matchable descriptors, else lax).
func (d *rDef) existsTree(matchable map[string]bool) (strict, lax bool) {
	var ids []string
	all := map[string]bool{}
	for _, x := range d.Descs {
		if matchable[x.ID] {
			ids = append(ids, x.ID)
			all[x.ID] = true
		}
	}
	sort.Strings(ids)
	lax, _ = d.treeOK(all)
	if !lax || len(ids) > 12 {
		return lax, lax
	}
	for mask := 0; mask < 1<<len(ids); mask++ {
		sel := map[string]bool{}
		for i, id := range ids {
			if mask&(1<<i) != 0 {
				sel[id] = true
			}
		}
		if l, _ := d.treeOK(sel); l && d.upperDeep(sel) {
			return true, lax
		}
	}
	return false, lax
}

func maxInt(l ...*int) int {
	m := 0
	for _, p := range l {
		if p != nil && *p > m {
			m = *p
		}
	}
	return m
}

// minSize: the least number of descriptors a selection needs to satisfy the requirement.
func (q *rReq) minSize(d *rDef) int {
	if q.From != "" {
		if q.Rule == "all" {
			return len(d.group(q.From))
		}
		return maxInt(q.Count, q.Min)
	}
	var sizes []int
	for _, c := range q.Nested {
		sizes = append(sizes, c.minSize(d))
	}
	sort.Ints(sizes)
	k := len(sizes)
	if q.Rule != "all" {
		k = maxInt(q.Count, q.Min)
	}
	n := 0
	for i := 0; i < k && i < len(sizes); i++ {
		n += sizes[i]
	}
	return n
}

// treeClass describes (from the definition and the reference's matchable set only, not from anything pe returned) what
// a case exercises at its from_nested requirements; used for the coverage counters.
type treeClass struct {
	nestedPick, boundGE2, satisfiable, surplus, short, multi, target int
}

func (d *rDef) treeClass(matchable map[string]bool) treeClass {
	all := map[string]bool{}
	for id, ok := range matchable {
		if ok {
			all[id] = true
		}
	}
	var tc treeClass
	var visit func(q *rReq)
	visit = func(q *rReq) {
		for _, c := range q.Nested {
			visit(c)
		}
		if len(q.Nested) == 0 || q.Rule != "pick" {
			return
		}
		tc.nestedPick++
		need := maxInt(q.Count, q.Min)
		bound := maxInt(q.Count, q.Min, q.Max)
		if bound < 2 {
			return
		}
		tc.boundGE2++
		avail, multi := 0, false
		for _, c := range q.Nested {
			if l, _ := c.eval(d, all); l && !c.vacuous(d) {
				avail++
				if c.minSize(d) >= 2 {
					multi = true
				}
			}
		}
		if avail >= need && need > 0 {
			tc.satisfiable++
		}
		if avail < need {
			tc.short++
		}
		limit := need
		if q.Count == nil && q.Max != nil {
			limit = *q.Max
		}
		if (q.Count != nil || q.Max != nil) && avail > limit {
			tc.surplus++
		}
		if multi {
			tc.multi++
		}
		// the class the check exists for: count/min/max >= 2 over nested requirements of which enough are satisfiable,
		// at least one of them with two or more credentials
		if multi && avail >= need && avail >= 2 {
			tc.target++
		}
	}
	for _, q := range d.Reqs {
		visit(q)
	}
	return tc
}

// refShape: rule / bounds skeleton of a requirement as the reference read it (coverage only).
func refShape(q *rReq) string {
	s := q.Rule
	if q.Rule == "pick" {
		s += "{"
		if q.Count != nil {
			s += "co"
		}
		if q.Min != nil {
			s += "mi"
		}
		if q.Max != nil {
			s += "ma"
		}
		s += "}"
	}
	if len(q.Nested) == 0 {
		return s
	}
	s += "("
	for i, c := range q.Nested {
		if i > 0 {
			s += ","
		}
		s += refShape(c)
	}
	return s + ")"
}
