// Check C12: Presentation Exchange - wallet and verifier agree, mappings cannot be forged.
// A seeded, schema-driven generator produces presentation definitions (validated with the repo's own schema/parser) and
// wallets (matching / near-matching / decoy credentials, JSON-LD and JWT). For every (definition, wallet) the REAL
// Match / PresentationSubmissionBuilder.Build / ParseEnvelope / Validate / ResolveConstraintsFields and the real
// PEXConsumer (auth/api/iam) are called; an independent reference matcher (ref_test.go) decides soundness,
// completeness, agreement, unforgeability (mutated submissions) and claim extraction. Verifier soundness is also
// driven with envelopes that hold id-colliding credentials (twin_test.go). The discovery client's own pairing of Match
// output with credentials (Module.Search -> SearchResult.Fields) is driven through a real discovery.Module (discovery_test.go).
package c12

import (
	"encoding/json"
	"errors"
	"fmt"
	"math/rand"
	"runtime/debug"
	"sort"
	"strings"
	"sync"
	"testing"

	"github.com/nuts-foundation/go-did/did"
	"github.com/nuts-foundation/go-did/vc"
	"github.com/nuts-foundation/nuts-node/auth/api/iam"
	"github.com/nuts-foundation/nuts-node/vcr/pe"
	v2 "github.com/nuts-foundation/nuts-node/vcr/pe/schema/v2"
	"verif/lib/ev"
)

type finding struct {
	key, what string
	witness   any
}

type caseIn struct {
	idx    int
	ds     *defSpec
	raw    []byte
	pd     *pe.PresentationDefinition
	rd     *rDef
	w      *wallet
	stream string
	tree   bool // case of the requirement-tree batch
}

type caseOut struct {
	presenterRejected string // Validate's complaint about the real presenter's output (classified together with the harness-built shapes)
	findings          []finding
	counts            map[string]int
	unspec            []string
	distinct          map[string][]string
	fingerprint       string
	nontrivial        bool
	sample            any
	fatal             string
	disc              *discCase // the selection, when the reference decides how a discovery registration over it maps (discovery_test.go)
}

func (o *caseOut) find(key, what string, witness any) {
	o.findings = append(o.findings, finding{key, what, witness})
}
func (o *caseOut) count(k string, n int) { o.counts[k] += n }
func (o *caseOut) unspecified(c string)  { o.unspec = append(o.unspec, c) }
func (o *caseOut) dist(set, v string)    { o.distinct[set] = append(o.distinct[set], v) }

// guard runs one call into the code under test and turns a panic into a finding.
func guard(o *caseOut, function string, witness func() any, f func()) (panicked bool) {
	defer func() {
		if p := recover(); p != nil {
			panicked = true
			o.find("C12/panic/"+function, fmt.Sprintf("panic in %s: %v", function, p), map[string]any{"input": witness(), "stack": firstRepoFrames(string(debug.Stack()))})
		}
	}()
	f()
	return false
}

func firstRepoFrames(stack string) []string {
	var out []string
	for _, ln := range strings.Split(stack, "\n") {
		if strings.Contains(ln, "nuts-node/") && !strings.HasPrefix(ln, "\t") {
			out = append(out, strings.TrimSpace(ln))
			if len(out) == 4 {
				break
			}
		}
	}
	return out
}

func TestCheck(t *testing.T) {
	r := ev.Start(t, "C12", "exploration")
	defer r.Finish()
	defer func() {
		if p := recover(); p != nil {
			r.Fatalf("harness panic: %v | %s", p, firstRepoFrames(strings.ReplaceAll(string(debug.Stack()), "verif/c12", "nuts-node/verif/c12")))
		}
	}()
	r.SetRule("cases = (generated presentation definition accepted by the bundled schema and parser, generated wallet); the definition generator is schema-driven " +
		"(fields with const/enum/pattern(0|1 group)/type filters on string/number/boolean/array values, optional fields, per-descriptor and top-level format, " +
		"submission_requirements all/pick with every subset of count/min/max, from_nested depth<=3); wallets hold matching, near-matching (one constraint off) and decoy " +
		"credentials as JSON-LD and JWT; each case runs the real Match/Build/ParseEnvelope/Validate/ResolveConstraintsFields/PEXConsumer over 5 envelope shapes and ~14 mutated " +
		"submissions and is judged by an independent reference matcher; in addition every accepted selection is re-presented in envelopes that also hold a twin of a selected credential " +
		"(same id - or both id-less - but other content: fails the descriptor / other claim values / re-issued; JSON-LD and JWT; single, array and second-presentation placement) with the descriptor map forged to the twin, " +
		"where the reference's first-match vector decides that the twin is not what matching selects and the oracle checks reject plus the credential and field values the verifier reports. " +
		"A second batch of cases comes from the same generator in filter-vocabulary edge mode: filters of every kind lose their `type` keyword (pattern/const/enum/const+pattern/{} on string, number, boolean, array and element values) " +
		"and wallets lean towards near-matching credentials; the reference decides such filters on the refuting side only (a value that violates a keyword satisfies the filter under no reading), " +
		"and per case up to 4 (descriptor, credential) pairs the reference decides are also put to the verifier (definition reduced to the descriptor, the credential alone or next to another one, map pointing at it: " +
		"certainly-unsatisfying must be rejected by Validate and PEXConsumer, satisfying-and-alone must be accepted). " +
		"After all cases a real discovery.Module (SQL store, Register, Search; only the signature verifier is faked) serves one Discovery Service per case whose selection forces the mapping of a registration " +
		"(reference matrix: every registered credential satisfies exactly its own descriptor and no other descriptor is satisfied): the selected credentials are registered by several holders, each listing them in another order " +
		"(descriptor order, reversed, rotated, shuffled), and the named fields Search reports (no query, query on the subject, query on one credential id) must equal what the reference reads in the credential mapped to the field's descriptor. " +
		"A third batch is built around requirement TREES: 2-4 groups of 1-3 descriptors (a discriminating claim per descriptor most of the time), requirements over from_nested (depth 2 and 3, next to plain requirements, rarely with overlapping groups) " +
		"with all / pick count, min, max, min+max, count+min, count+max at the nested level (bounds mostly >= 2, also above the number of nested requirements) and all / pick count, min, min+max, max, nothing at the group level, " +
		"and several wallets per tree steered per group (complete, one descriptor short, nothing) so that more, exactly as many and fewer nested requirements are satisfiable than asked for; " +
		"for trees without overlap and without a nested requirement that the empty selection satisfies the reference decides completeness (a selection exists iff everything matchable satisfies the at-least side; cross-checked by enumeration with the at-most side at every level) " +
		"and the at-most side of the wallet's selection at every level (number of satisfied nested requirements vs count/max), next to the at-least side and the wallet/verifier agreement that are judged for every tree. Non-trivial: >=1 input descriptor and >=1 wallet credential; distinct by (definition structure fingerprint, wallet class, outcome).")
	r.Require(r.Pick(600, 6000), r.Pick(300, 3000))
	r.Assume("credential JSON view per securing format as used by the repo's own fixtures (vcr/pe/test as_jsonld / as_jwt): JSON-LD credentials in compact form (single type / credentialSubject unwrapped), JWT credentials in expanded form (type and credentialSubject are arrays, registered claims mapped back); claims live in credentialSubject or the standard top-level properties")
	r.Assume("JSONPath forms limited to $ .name [\"name\"] [n]; single-quoted bracket notation is not generated (the third-party jsonpath library only parses single-character single-quoted names)")
	r.Assume("patterns limited to the subset on which RE2 (reference) and ECMAScript (regexp2) agree; 0 or 1 capture group")
	r.Assume("input descriptor ids are unique within a definition; signatures are not part of this property (pe does not verify them)")

	silenceAuditLog(t)
	pairs := r.Pick(900, 10000)
	cases, genStats := generate(r, pairs, r.Pick(160, 1600), r.Pick(200, 2400))
	for k, v := range genStats {
		r.Count(k, v)
	}
	outs := make([]*caseOut, len(cases))
	var wg sync.WaitGroup
	sem := make(chan struct{}, 12)
	for i := range cases {
		wg.Add(1)
		sem <- struct{}{}
		go func(i int) {
			defer wg.Done()
			defer func() { <-sem }()
			outs[i] = evaluate(r, cases[i])
		}(i)
	}
	wg.Wait()
	for i, o := range outs {
		flush(r, o, fmt.Sprintf("case %d", i), i%53 == 0)
	}
	// --- the discovery client's use of Match + ResolveConstraintsFields (discovery_test.go), sequential, in case order
	discoveryLeg(t, r, cases, outs)
	if r.Get("matches_found") == 0 || r.Get("matches_not_found") == 0 || r.Get("mutants_rejected") == 0 || r.Get("extraction_comparisons") == 0 || r.Get("submissions_validated") == 0 {
		r.Fatalf("monitor observed too little: found=%d notfound=%d mutants_rejected=%d extraction=%d validated=%d", r.Get("matches_found"), r.Get("matches_not_found"),
			r.Get("mutants_rejected"), r.Get("extraction_comparisons"), r.Get("submissions_validated"))
	}
	if r.Get("filters_without_type") == 0 || r.Get("pairs_refuted_by_filter_without_type") == 0 || r.Get("pairs_undecided_on_filter_without_type") == 0 || r.DistinctN("filters_without_type_kinds") < 4 ||
		r.Get("verifier_probes_unsatisfying_rejected") == 0 || r.Get("verifier_probes_satisfying_accepted") == 0 || r.Get("verifier_probes_on_filter_without_type") == 0 {
		r.Fatalf("monitor observed too little on filters without type / verifier probes: filters=%d kinds=%d refuted=%d undecided=%d probes rejected=%d accepted=%d on-typeless=%d", r.Get("filters_without_type"),
			r.DistinctN("filters_without_type_kinds"), r.Get("pairs_refuted_by_filter_without_type"), r.Get("pairs_undecided_on_filter_without_type"),
			r.Get("verifier_probes_unsatisfying_rejected"), r.Get("verifier_probes_satisfying_accepted"), r.Get("verifier_probes_on_filter_without_type"))
	}
	if r.Get("nested_pick_bound_ge2_satisfiable_with_multi_credential_child") < 20 || r.Get("nested_pick_bound_ge2_more_satisfiable_than_asked") < 3 || r.Get("nested_pick_bound_ge2_fewer_satisfiable_than_asked") < 10 ||
		r.Get("completeness_decided_nesting") < 40 || r.Get("requirement_tree_selections_checked") < 30 || r.DistinctN("requirement_tree_shapes") < 25 {
		r.Fatalf("monitor observed too little on requirement trees: pick>=2 over nested requirements satisfiable with a multi-credential child=%d, more satisfiable than asked=%d, fewer=%d, completeness decided=%d, selections checked=%d, tree shapes=%d",
			r.Get("nested_pick_bound_ge2_satisfiable_with_multi_credential_child"), r.Get("nested_pick_bound_ge2_more_satisfiable_than_asked"), r.Get("nested_pick_bound_ge2_fewer_satisfiable_than_asked"),
			r.Get("completeness_decided_nesting"), r.Get("requirement_tree_selections_checked"), r.DistinctN("requirement_tree_shapes"))
	}
	if r.Get("twin_forged_evaluated") == 0 || r.Get("twin_baseline_accepted") == 0 || r.Get("twin_forged_resolves_to_twin") == 0 {
		r.Fatalf("monitor observed too little on id-colliding envelopes: forged=%d baseline_accepted=%d forged_resolves_to_twin=%d", r.Get("twin_forged_evaluated"),
			r.Get("twin_baseline_accepted"), r.Get("twin_forged_resolves_to_twin"))
	}
}

// flush hands what one evaluation collected to the run (always from the test's own goroutine, in case order).
func flush(r *ev.Run, o *caseOut, name string, sample bool) {
	if o.fatal != "" {
		r.Fatalf("%s: %s", name, o.fatal)
	}
	r.Case(o.fingerprint, o.nontrivial)
	for k, v := range o.counts {
		r.Count(k, v)
	}
	for _, u := range o.unspec {
		r.Unspecified(u)
	}
	for set, vals := range o.distinct {
		for _, v := range vals {
			r.Distinct(set, v)
		}
	}
	if o.sample != nil && sample {
		r.Sample(o.sample)
	}
	for _, f := range o.findings {
		r.Violation(f.key, f.what, f.witness)
	}
}

// generate produces the case list: a pure function of (seed, tier).
// The main batch comes from the stream "gen"; a second batch (edgePairs cases, stream "gen-edge") comes from the same
// generator in filter-vocabulary edge mode (gen.edge), appended behind the main batch so that the main cases are the
// same with and without it.
// A third batch (nestedPairs cases, stream "gen-nested") comes from the generator in requirement-tree mode
// (gennested_test.go), again appended behind the others.
func generate(r *ev.Run, pairs, edgePairs, nestedPairs int) ([]*caseIn, map[string]int) {
	stats := map[string]int{}
	var cases []*caseIn
	generateBatch(r, &gen{rnd: r.Rand("gen")}, pairs, &cases, stats)
	generateBatch(r, &gen{rnd: r.Rand("gen-edge"), n: 1000000, edge: 0.4}, pairs+edgePairs, &cases, stats)
	stats["pairs_filter_vocabulary_edge_batch"] = edgePairs
	generateBatch(r, &gen{rnd: r.Rand("gen-nested"), n: 2000000, nest: true}, pairs+edgePairs+nestedPairs, &cases, stats)
	stats["pairs_requirement_tree_batch"] = nestedPairs
	return cases, stats
}

func generateBatch(r *ev.Run, g *gen, pairs int, into *[]*caseIn, stats map[string]int) {
	cases := *into
	defer func() { *into = cases }()
	for len(cases) < pairs {
		ds := g.definition()
		raw := mustJSON(ds.tree)
		stats["definitions_generated"]++
		schemaErr := v2.Validate(raw, v2.PresentationDefinition)
		var pd *pe.PresentationDefinition
		var err error
		func() {
			defer func() {
				if p := recover(); p != nil {
					err = fmt.Errorf("panic: %v", p)
					r.Violation("C12/panic/ParsePresentationDefinition", fmt.Sprintf("panic in ParsePresentationDefinition: %v", p), map[string]any{"definition": json.RawMessage(raw)})
				}
			}()
			pd, err = pe.ParsePresentationDefinition(raw)
		}()
		if err != nil {
			stats["definitions_discarded"]++
			if schemaErr == nil {
				stats["definitions_schema_valid_but_unparseable"]++
				r.Unspecified("schema-valid-definition-rejected-by-parser:" + ds.broken)
			} else {
				stats["definitions_rejected_by_schema"]++
			}
			if ds.broken == "" {
				r.Fatalf("generator produced a definition the schema/parser rejects without meaning to: %v: %s", err, raw)
			}
			continue
		}
		stats["definitions_accepted"]++
		var walkReqs func(l []*rReq, depth int)
		noMax := false
		walkReqs = func(l []*rReq, depth int) {
			for _, q := range l {
				if q.Rule == "pick" {
					k := fmt.Sprintf("pick{count:%v,min:%v,max:%v}", q.Count != nil, q.Min != nil, q.Max != nil)
					r.Distinct("pick_bound_subsets", k)
					if q.Max == nil && q.Count == nil {
						noMax = true
					}
				}
				if depth > stats["max_requirement_depth"] {
					stats["max_requirement_depth"] = depth
				}
				walkReqs(q.Nested, depth+1)
			}
		}
		if ds.broken != "" {
			stats["definitions_edge_accepted"]++
		}
		rd, err := readDef(raw)
		if err != nil {
			r.Fatalf("reference cannot read definition: %v", err)
		}
		walkReqs(rd.Reqs, 1)
		for _, x := range rd.Descs {
			for i := range x.Fields {
				if f := x.Fields[i].Filter; f != nil && !f.HasType {
					stats["filters_without_type"]++
					r.Distinct("filters_without_type_kinds", filterKind(f))
				}
			}
		}
		if noMax {
			stats["definitions_with_pick_without_count_and_max"]++
		}
		nW := 1 + g.weighted(5, 4, 1)
		if g.nest {
			g.ref = rd
			nW = 2 + g.weighted(3, 4, 2) // several wallets per tree: more / exactly / fewer satisfiable nested requirements than asked for
			for _, q := range rd.Reqs {
				if len(q.Nested) > 0 {
					r.Distinct("requirement_tree_shapes", refShape(q))
				}
			}
		}
		for k := 0; k < nW && len(cases) < pairs; k++ {
			cases = append(cases, &caseIn{idx: len(cases), ds: ds, raw: raw, pd: pd, rd: rd, w: g.wallet(ds), stream: fmt.Sprintf("case-%d", len(cases)), tree: g.nest})
		}
	}
}

// ---- identification of credentials returned by pe ------------------------------------------------

func identify(v vc.VerifiableCredential, byRaw map[string]string) string {
	if v.Format() == vc.JWTCredentialProofFormat {
		if k, ok := byRaw[v.Raw()]; ok {
			return k
		}
		return "unknown-jwt"
	}
	id := ""
	if v.ID != nil {
		id = v.ID.String()
	}
	pt := ""
	if proofs, _ := v.Proofs(); len(proofs) > 0 {
		pt = string(proofs[0].Type)
	}
	return id + "|ldp_vc|" + pt
}

type relation map[string]bool // set of "descriptor -> credential key"

func (a relation) equal(b relation) bool {
	if len(a) != len(b) {
		return false
	}
	for k := range a {
		if !b[k] {
			return false
		}
	}
	return true
}

func (a relation) list() []string {
	var out []string
	for k := range a {
		out = append(out, k)
	}
	sort.Strings(out)
	return out
}

func pair(id, key string) string { return id + " -> " + key }

// ---- one case ------------------------------------------------------------------------------------

func evaluate(r *ev.Run, in *caseIn) (out *caseOut) {
	out = &caseOut{counts: map[string]int{}, distinct: map[string][]string{}}
	defer func() {
		if p := recover(); p != nil {
			out.fatal = fmt.Sprintf("harness panic: %v\n%s", p, debug.Stack())
		}
	}()
	rnd := r.Rand(in.stream)
	pd, rd, w := in.pd, in.rd, in.w
	shape := in.ds.shape()
	out.dist("definition_shapes", shape)
	out.count("pairs", 1)
	out.nontrivial = len(rd.Descs) > 0 && len(w.creds) > 0
	defWitness := func() any {
		var cs []any
		for _, c := range w.creds {
			cs = append(cs, map[string]any{"role": c.role, "format": c.format, "signed": c.signed, "content": c.view})
		}
		return map[string]any{"definition": json.RawMessage(in.raw), "wallet": cs}
	}

	byRaw := map[string]string{}
	byKey := map[string]*cred{}
	var walletVCs []vc.VerifiableCredential
	for _, c := range w.creds {
		byRaw[c.raw] = c.key
		byKey[c.key] = c
		walletVCs = append(walletVCs, c.vc)
		// self-check of the harness' view assumption against go-did's own rendering (public API)
		if !jsonEqual(c.view, libraryView(c)) {
			out.fatal = fmt.Sprintf("harness view of a %s credential differs from the library's rendering:\n%s\n%s", c.format, mustJSON(c.view), mustJSON(libraryView(c)))
			return
		}
	}

	// --- reference: which credential satisfies which descriptor
	sat := map[string]map[string]bool{}
	undecided := map[string]bool{} // (descriptor, credential) pairs the reference does not decide
	matchable := map[string]bool{}
	caseUnspec := ""
	errorProne := false // a filter is aimed at an object value somewhere: pe answers with an error, depending on the order in which credentials are tried
	for _, x := range rd.Descs {
		sat[x.ID] = map[string]bool{}
		for _, c := range w.creds {
			ok, u, err := rd.satisfies(x, c)
			if err != nil {
				out.fatal = "reference path walker: " + err.Error()
				return
			}
			if u != "" {
				caseUnspec = string(u)
				undecided[pair(x.ID, c.key)] = true
				if u != "filter-without-type" {
					errorProne = true
				}
			}
			sat[x.ID][c.key] = ok
			if ok {
				matchable[x.ID] = true
			}
			if u == typelessUndecided {
				out.count("pairs_undecided_on_filter_without_type", 1)
			} else if u == "" && !ok && typelessFails(x, c) {
				out.count("pairs_refuted_by_filter_without_type", 1)
			}
		}
	}
	if caseUnspec != "" {
		out.unspecified(caseUnspec)
	}
	for _, c := range w.creds { // how well the generator's steering works (coverage only)
		if id, ok := strings.CutPrefix(c.role, "match:"); ok {
			out.count("credentials_meant_to_match", 1)
			if sat[id][c.key] {
				out.count("credentials_meant_to_match_satisfying", 1)
			}
		}
	}

	// --- descriptor-level probes: the definition reduced to one descriptor, the wallet reduced to one credential
	peSat := probeDescriptors(out, in, sat, undecided)
	if out.fatal != "" {
		return
	}
	// --- the same pairs on the verifier side: may the descriptor be mapped to the credential? (vprobe_test.go)
	verifierProbes(out, in, r.Rand(in.stream+"/verifier-probe"), sat, undecided)
	if out.fatal != "" {
		return
	}

	// --- wallet side: Match
	var vcs []vc.VerifiableCredential
	var maps []pe.InputDescriptorMappingObject
	var matchErr error
	if guard(out, "Match", defWitness, func() { vcs, maps, matchErr = pd.Match(walletVCs) }) {
		out.fingerprint = shape + "|" + w.class + "|panic"
		return
	}
	found := matchErr == nil
	outcome := "nomatch"
	if found {
		outcome = fmt.Sprintf("match%d", len(maps))
		out.count("matches_found", 1)
	} else {
		out.count("matches_not_found", 1)
	}
	out.fingerprint = shape + "|" + w.class + "|" + outcome
	ungrouped, unreferenced, overlap := rd.structure()
	nesting := rd.hasNesting()
	contradictory := rd.contradictory()

	selection := relation{}
	selIDs := map[string]bool{}
	var selPairs [][2]string // descriptor id, credential key (in mapping order)
	if found {
		sound := true
		if len(vcs) != len(maps) {
			out.find("C12/soundness/mapping-shape", fmt.Sprintf("Match returned %d credentials and %d mappings", len(vcs), len(maps)), defWitness())
			sound = false
		}
		for i := 0; sound && i < len(maps); i++ {
			m := maps[i]
			key := identify(vcs[i], byRaw)
			c := byKey[key]
			x := rd.desc(m.Id)
			switch {
			case c == nil:
				out.find("C12/soundness/mapping-shape", "Match selected a credential that is not in the wallet: "+key, defWitness())
				sound = false
			case x == nil:
				out.find("C12/soundness/mapping-shape", "Match mapped an unknown input descriptor: "+m.Id, defWitness())
				sound = false
			case selIDs[m.Id]:
				out.find("C12/soundness/mapping-shape", "Match mapped input descriptor twice: "+m.Id, defWitness())
				sound = false
			case m.Path != fmt.Sprintf("$.verifiableCredential[%d]", i) || m.PathNested != nil:
				out.find("C12/soundness/mapping-shape", fmt.Sprintf("mapping %d has path %s", i, m.Path), defWitness())
				sound = false
			case m.Format != c.format:
				out.find("C12/soundness/mapping-shape", fmt.Sprintf("mapping %d says format %s for a %s credential", i, m.Format, c.format), defWitness())
				sound = false
			}
			if !sound {
				break
			}
			selIDs[m.Id] = true
			selection[pair(m.Id, key)] = true
			selPairs = append(selPairs, [2]string{m.Id, key})
			if !undecided[pair(m.Id, key)] && !sat[m.Id][key] {
				out.find("C12/soundness/unsatisfied/"+failClass(rd, x, c), fmt.Sprintf("Match mapped descriptor %s to credential %s (%s) which does not satisfy it", m.Id, key, c.role),
					map[string]any{"case": defWitness(), "descriptor": m.Id, "credential": c.view})
			}
		}
		if !sound {
			return
		}
		out.count("selected_credentials_checked", len(maps))
		if caseUnspec == "" && contradictory {
			out.unspecified("contradictory-bounds")
		} else if caseUnspec == "" {
			lower, upper := rd.treeOK(selIDs)
			deep := !nesting || rd.upperDeep(selIDs)
			if nesting {
				out.count("requirement_tree_selections_checked", 1)
			}
			if !lower {
				cls := "descriptors"
				if len(rd.Reqs) > 0 {
					cls = "submission-requirements"
					if oneCredentialForSeveralDescriptors(rd, w, selIDs, selPairs, peSat) {
						cls = "one-credential-for-several-descriptors"
					}
				}
				out.find("C12/soundness/requirement-tree/"+cls, "the submission does not satisfy the definition's requirements (at-least side): selected "+strings.Join(keys(selIDs), ","), defWitness())
			} else if !upper || !deep {
				switch {
				case overlap:
					out.unspecified("upper-bound-exceeded-with-overlapping-groups-or-nesting")
				case nesting && rd.vacuousBelowNesting():
					out.unspecified("upper-bound-exceeded-with-nested-requirement-satisfied-by-empty-selection")
				case nesting && fitsSeveral(rd, selPairs, peSat):
					out.unspecified("upper-bound-exceeded-with-nesting-and-credential-that-fits-several-descriptors")
				case nesting:
					out.find("C12/soundness/requirement-tree/upper-bound-nested", "the submission satisfies more nested requirements (or holds more descriptors of a group) than count/max of the requirement tree allow: selected "+strings.Join(keys(selIDs), ","), defWitness())
				default:
					out.find("C12/soundness/requirement-tree/upper-bound", "the submission holds more descriptors of a group than count/max allow: selected "+strings.Join(keys(selIDs), ","), defWitness())
				}
			}
		}
	} else {
		if vcs != nil || maps != nil {
			out.find("C12/completeness/partial-output-with-error", "Match returned an error together with credentials/mappings", defWitness())
		}
	}

	// --- completeness (definitions without nesting)
	decidedExists, exists, nestedDecided := false, false, false
	if nesting && caseUnspec == "" && !contradictory {
		tc := rd.treeClass(matchable)
		out.count("nested_pick_requirements", tc.nestedPick)
		out.count("nested_pick_bound_ge2", tc.boundGE2)
		out.count("nested_pick_bound_ge2_enough_satisfiable", tc.satisfiable)
		out.count("nested_pick_bound_ge2_more_satisfiable_than_asked", tc.surplus)
		out.count("nested_pick_bound_ge2_fewer_satisfiable_than_asked", tc.short)
		out.count("nested_pick_bound_ge2_child_with_several_credentials", tc.multi)
		out.count("nested_pick_bound_ge2_satisfiable_with_multi_credential_child", tc.target)
	}
	switch {
	case caseUnspec != "":
	case contradictory:
	case nesting && (ungrouped || unreferenced || overlap):
		out.count("completeness_skipped_nesting", 1)
	case nesting && rd.vacuousBelowNesting():
		out.count("completeness_skipped_nesting", 1)
		out.unspecified("nested-requirement-satisfied-by-empty-selection")
	case nesting:
		// every group referenced once, every descriptor in one group, no nested requirement that selecting nothing
		// satisfies: a complete selection exists iff selecting everything matchable satisfies the at-least side of the tree
		nestedDecided = true
		strict, lax := rd.existsTree(matchable)
		if strict != lax {
			out.unspecified("upper-bounds-conflict-in-requirement-tree")
		} else {
			decidedExists, exists = true, lax
			out.count("completeness_decided_nesting", 1)
		}
	case ungrouped:
		out.unspecified("ungrouped-descriptor-with-submission-requirements")
	case unreferenced:
		out.unspecified("descriptor-group-not-referenced")
	default:
		strict, lax := rd.exists(matchable)
		if strict != lax {
			out.unspecified("upper-bounds-conflict-through-overlapping-groups")
		} else {
			decidedExists, exists = true, lax
		}
	}
	if decidedExists {
		out.count("completeness_decided", 1)
		switch {
		case exists && !found:
			cls := "other-error"
			if errors.Is(matchErr, pe.ErrNoCredentials) {
				cls = "no-credentials"
			}
			out.find("C12/completeness/selection-missed/"+cls, "a complete selection exists according to the reference but Match reports: "+firstLine(matchErr), defWitness())
		case !exists && found:
			out.find("C12/completeness/selection-without-basis", "no complete selection exists according to the reference but Match returned one: "+strings.Join(selection.list(), "; "), defWitness())
		case !exists && !found && !errors.Is(matchErr, pe.ErrNoCredentials):
			out.find("C12/completeness/not-reported-as-no-credentials", "no selection exists; Match failed with another error: "+firstLine(matchErr), defWitness())
		}
	}

	// --- wallet side, the real thing: holder.Wallet.BuildSubmission (presenter.go) with a signed JWT presentation
	if !errorProne {
		realPresenter(out, in, walletVCs, found, decidedExists && !exists, selection, byRaw, contradictory)
	}

	// --- wallet side: Build (optionally with a leading wallet that holds nothing useful)
	holder := did.MustParseDID(holderDID)
	other := did.MustParseDID("did:web:other-holder.example")
	builder := pd.PresentationSubmissionBuilder()
	emptyOK, _ := rd.treeOK(map[string]bool{})
	leading := in.idx%4 == 1 && !emptyOK && !contradictory && !nesting // a wallet without credentials that cannot satisfy the definition
	if leading {
		builder.AddWallet(other, nil)
	}
	builder.AddWallet(holder, walletVCs)
	vpFormats := []string{"ldp_vp", "jwt_vp"}
	var sub pe.PresentationSubmission
	var sign pe.SignInstruction
	var buildErr error
	if guard(out, "Build", defWitness, func() { sub, sign, buildErr = builder.Build(vpFormats[in.idx%2]) }) {
		return
	}
	if !found {
		emptyOK := len(rd.Descs) == 0
		if buildErr == nil && !emptyOK {
			out.find("C12/completeness/build-after-failed-match", "Build produced a submission although Match found no selection", defWitness())
		}
		if buildErr != nil && (len(sub.DescriptorMap) != 0 || !sign.Empty()) {
			out.find("C12/completeness/partial-output-with-error", "Build returned an error together with a (partial) submission", defWitness())
		}
		forgedFromNothing(out, in, rnd, sat, caseUnspec != "" || (nesting && !nestedDecided))
		return
	}
	if buildErr != nil {
		out.find("C12/agreement/build-fails-after-match", "Match found a selection but Build failed: "+firstLine(buildErr), defWitness())
		return
	}
	built := relation{}
	okBuild := len(sub.DescriptorMap) == len(sign.VerifiableCredentials) && sub.DefinitionId == rd.ID
	for i := 0; okBuild && i < len(sub.DescriptorMap); i++ {
		m := sub.DescriptorMap[i]
		built[pair(m.Id, identify(sign.VerifiableCredentials[i], byRaw))] = true
		want := fmt.Sprintf("$.verifiableCredential[%d]", i)
		if len(sub.DescriptorMap) == 1 {
			want = "$.verifiableCredential"
		}
		if m.Path != want {
			okBuild = false
		}
	}
	if !okBuild || !built.equal(selection) || (len(maps) > 0 && sign.Holder.String() != holderDID) {
		out.find("C12/agreement/build-differs-from-match", fmt.Sprintf("Build output %v (holder %s) differs from Match output %v", built.list(), sign.Holder.String(), selection.list()), defWitness())
		return
	}
	out.count("submissions_built", 1)
	if errorProne {
		return
	}
	if contradictory {
		return // bounds no number satisfies: what wallet and verifier should make of them is not decided by the property
	}

	// --- candidate for the discovery leg (run after all cases, discovery_test.go)
	if caseUnspec == "" {
		out.disc = discoveryCandidate(out, in, selPairs, byKey, sat)
	}

	// --- the presentation(s) and envelopes
	var selCreds []*cred
	for _, v := range sign.VerifiableCredentials {
		selCreds = append(selCreds, byKey[identify(v, byRaw)])
	}
	envs := buildEnvelopes(out, in, rnd, selCreds)
	if envs == nil {
		return
	}
	expectedByEnv := func(e *envModel) (relation, []pe.InputDescriptorMappingObject) {
		main := len(e.vps) - 1
		var entries []pe.InputDescriptorMappingObject
		for i, p := range selPairs {
			entries = append(entries, e.entry(p[0], main, i))
		}
		return selection, entries
	}

	// --- agreement: the verifier accepts exactly the wallet's output, on every envelope shape
	var accepted []*envModel
	var acceptedEnv []*pe.Envelope
	for _, e := range envs {
		_, entries := expectedByEnv(e)
		s := pe.PresentationSubmission{Id: sub.Id, DefinitionId: sub.DefinitionId, DescriptorMap: entries}
		if !e.array {
			s = sub // the wallet's own submission, untouched
		}
		env, got, err, panicked := validate(out, in, e, s)
		if panicked {
			continue
		}
		if env != nil && err != nil && e.array && e.vps[len(e.vps)-1].format == "jwt_vp" && strings.Contains(err.Error(), "can't be decoded using format 'jwt_vp'") {
			// Nothing in the node produces array envelopes; how a JWT presentation inside an array is to be designated is not
			// fixed by the property. pe only resolves it when the entry says ldp_vp: use that as the baseline for this shape.
			out.unspecified("jwt_vp-entry-of-array-envelope-only-resolvable-as-ldp_vp")
			for k := range s.DescriptorMap {
				s.DescriptorMap[k].Format = "ldp_vp"
			}
			e.jwtAsLdp = true
			env, got, err, panicked = validate(out, in, e, s)
			if panicked {
				continue
			}
		}
		if env == nil {
			out.find("C12/agreement/envelope-unparseable/"+e.shape, "ParseEnvelope rejects the presentation built from the wallet's selection: "+firstLine(err), map[string]any{"case": defWitness(), "envelope": string(e.raw)})
			continue
		}
		if err != nil {
			cls := shapeClass(e)
			if fitsSeveral(rd, selPairs, peSat) {
				cls = "credential-fits-several-descriptors"
			}
			out.find("C12/agreement/validate-rejects-wallet-output/"+cls, "Validate rejects the wallet's own submission: "+firstLine(err),
				map[string]any{"case": defWitness(), "submission": s, "envelope": string(e.raw)})
			continue
		}
		rel := relation{}
		for id, v := range got {
			rel[pair(id, identify(v, byRaw))] = true
		}
		if !rel.equal(selection) {
			out.find("C12/agreement/validate-returns-other-mapping", fmt.Sprintf("Validate returned %v, the wallet selected %v", rel.list(), selection.list()), defWitness())
			continue
		}
		out.count("submissions_validated", 1)
		out.dist("envelope_shapes", e.shape)
		accepted = append(accepted, e)
		acceptedEnv = append(acceptedEnv, env)
		if caseUnspec == "" {
			checkExtraction(out, in, got, selPairs, byKey, "verifier")
		}
	}
	if caseUnspec == "" {
		walletMap := map[string]vc.VerifiableCredential{}
		for _, p := range selPairs {
			walletMap[p[0]] = byKey[p[1]].vc
		}
		checkExtraction(out, in, walletMap, selPairs, byKey, "wallet")
	}
	if out.presenterRejected != "" {
		cls := "presenter"
		if fitsSeveral(rd, selPairs, peSat) {
			cls = "credential-fits-several-descriptors"
		}
		out.find("C12/agreement/validate-rejects-wallet-output/"+cls, "Validate rejects the submission and presentation built by Wallet.BuildSubmission: "+out.presenterRejected, defWitness())
	}
	// the wallet's submission must also survive the wire format the token endpoint parses
	if len(sub.DescriptorMap) > 0 {
		var parsed *pe.PresentationSubmission
		var err error
		guard(out, "ParsePresentationSubmission", defWitness, func() { parsed, err = pe.ParsePresentationSubmission(mustJSON(sub)) })
		if err != nil || parsed == nil || len(parsed.DescriptorMap) != len(sub.DescriptorMap) {
			out.find("C12/agreement/submission-unparseable", "ParsePresentationSubmission rejects the wallet's submission: "+firstLine(err), defWitness())
		}
	} else {
		out.unspecified("empty-selection")
	}
	if len(accepted) == 0 {
		return
	}

	// --- verifier state used by the token endpoints
	pexConsumer(out, in, accepted, acceptedEnv, sub, expectedByEnv, selection, byRaw, selPairs, byKey, caseUnspec == "")

	// --- unforgeability: mutated submissions against one envelope shape (rotating)
	// (requirement-tree batch: every third case; its selections are large and the mutators are not what that batch is about)
	if len(selPairs) > 0 && (!in.tree || in.idx%3 == 0) {
		k := in.idx % len(accepted)
		mutate(out, in, rnd, accepted[k], selPairs, selection, byRaw, byKey)
		// --- verifier soundness on envelopes with id-colliding credentials (twin_test.go)
		twins(out, in, rnd, selPairs, byKey)
		if out.fatal != "" {
			return
		}
	}
	out.sample = map[string]any{"definition": json.RawMessage(in.raw), "wallet": w.class, "selected": selection.list(), "envelope_shapes": len(accepted)}
	return
}

func keys(m map[string]bool) []string {
	var out []string
	for k, v := range m {
		if v {
			out = append(out, k)
		}
	}
	sort.Strings(out)
	return out
}

func firstLine(err error) string {
	if err == nil {
		return "<nil>"
	}
	s := strings.ReplaceAll(err.Error(), "\n", " | ")
	if len(s) > 300 {
		s = s[:300]
	}
	return s
}

func shapeClass(e *envModel) string {
	if e.array {
		return "array"
	}
	return "single"
}

// oneCredentialForSeveralDescriptors: the at-least side fails only because matchable descriptors are absent from the map whose
// first satisfying wallet credential is already mapped to another descriptor (pe de-duplicates selected credentials and then
// writes one mapping per credential).
func oneCredentialForSeveralDescriptors(rd *rDef, w *wallet, sel map[string]bool, selPairs [][2]string, sat map[string]map[string]bool) bool {
	mapped := map[string]bool{}
	for _, p := range selPairs {
		mapped[p[1]] = true
	}
	with := map[string]bool{}
	for id := range sel {
		with[id] = true
	}
	added := false
	for _, x := range rd.Descs {
		if sel[x.ID] {
			continue
		}
		for _, c := range w.creds {
			if sat[x.ID][c.key] {
				if mapped[c.key] {
					with[x.ID] = true
					added = true
				}
				break
			}
		}
	}
	lower, _ := rd.treeOK(with)
	return added && lower
}

// fitsSeveral: does one of the selected credentials satisfy another descriptor than the one it is mapped to?
func fitsSeveral(rd *rDef, selPairs [][2]string, sat map[string]map[string]bool) bool {
	for _, p := range selPairs {
		for _, x := range rd.Descs {
			if x.ID != p[0] && sat[x.ID][p[1]] {
				return true
			}
		}
	}
	return false
}

// failClass names the first thing of descriptor x that credential c fails: "<filter kind>-on-<value kind>" or "format".
func failClass(rd *rDef, x *rDesc, c *cred) string {
	for i := range x.Fields {
		f := &x.Fields[i]
		if fr := f.eval(c.view); !fr.ok && fr.unspec == "" {
			return fieldClass(f, c.view)
		}
	}
	return "format"
}

func fieldClass(f *rField, view any) string {
	fk := "nofilter"
	if f.Filter != nil {
		fk = filterKind(f.Filter)
	}
	vk := "absent"
	for _, p := range f.Paths {
		if v, found, _ := walk(view, p); found {
			switch x := v.(type) {
			case string:
				vk = "string"
			case float64:
				vk = "number"
			case bool:
				vk = "boolean"
			case []any:
				vk = "array"
				if len(x) == 0 {
					vk = "empty-array"
				}
			case map[string]any:
				vk = "object"
			}
			break
		}
	}
	if f.Optional {
		fk = "optional-" + fk
	}
	return fk + "-on-" + vk
}

func filterKind(f *rFilter) string {
	fk := "type"
	switch {
	case f.HasEnum && f.Pattern != nil:
		fk = "enum+pattern"
	case f.HasEnum && f.Const != nil:
		fk = "enum+const"
	case f.HasEnum:
		fk = "enum"
	case f.Const != nil && f.Pattern != nil:
		fk = "const+pattern"
	case f.Const != nil:
		fk = "const"
	case f.Pattern != nil:
		fk = "pattern"
	}
	if f.HasType {
		return fk + ":" + f.Type
	}
	return fk + ":typeless"
}

// ---- descriptor-level probes -----------------------------------------------------------------------

func reduceDefinition(in *caseIn, descIdx int, fieldIdx int) []byte {
	var tree map[string]any
	_ = json.Unmarshal(in.raw, &tree)
	d := tree["input_descriptors"].([]any)[descIdx].(map[string]any)
	delete(d, "group")
	if fieldIdx >= 0 {
		c := d["constraints"].(map[string]any)
		c["fields"] = []any{c["fields"].([]any)[fieldIdx]}
		delete(d, "format")
		delete(tree, "format")
	}
	tree["input_descriptors"] = []any{d}
	delete(tree, "submission_requirements")
	return mustJSON(tree)
}

// probeDescriptors asks pe itself, pair by pair, whether a credential satisfies a descriptor (definition reduced to that
// descriptor, wallet reduced to that credential) and compares with the reference where the reference decides. Returns pe's matrix.
func probeDescriptors(out *caseOut, in *caseIn, sat map[string]map[string]bool, undecided map[string]bool) map[string]map[string]bool {
	peSat := map[string]map[string]bool{}
	for di, x := range in.rd.Descs {
		peSat[x.ID] = map[string]bool{}
		raw := reduceDefinition(in, di, -1)
		pd, err := pe.ParsePresentationDefinition(raw)
		if err != nil {
			out.fatal = "reduced definition does not parse: " + err.Error()
			return peSat
		}
		for _, c := range in.w.creds {
			var err error
			witness := func() any {
				return map[string]any{"definition": json.RawMessage(raw), "credential": c.view, "format": c.format, "signed": c.signed}
			}
			if guard(out, "Match", witness, func() { _, _, err = pd.Match([]vc.VerifiableCredential{c.vc}) }) {
				continue
			}
			out.count("descriptor_probes", 1)
			peSays := err == nil
			peSat[x.ID][c.key] = peSays
			if undecided[pair(x.ID, c.key)] || peSays == sat[x.ID][c.key] {
				continue
			}
			// locate the field on which the two disagree
			cls := "format"
			for fi := range x.Fields {
				fraw := reduceDefinition(in, di, fi)
				fpd, ferr := pe.ParsePresentationDefinition(fraw)
				if ferr != nil {
					continue
				}
				var merr error
				if guard(out, "Match", witness, func() { _, _, merr = fpd.Match([]vc.VerifiableCredential{c.vc}) }) {
					continue
				}
				if fr := x.Fields[fi].eval(c.view); fr.unspec == "" && (merr == nil) != fr.ok {
					cls = fieldClass(&x.Fields[fi], c.view)
					break
				}
			}
			if peSays {
				out.find("C12/soundness/unsatisfied/"+cls, fmt.Sprintf("Match selects credential (%s) for descriptor %s although it does not satisfy it [%s]", c.role, x.ID, cls), witness())
			} else {
				k := "C12/completeness/selection-missed/" + cls
				if !errors.Is(err, pe.ErrNoCredentials) {
					k = "C12/completeness/error-instead-of-match/" + cls
				}
				out.find(k, fmt.Sprintf("credential (%s) satisfies descriptor %s but Match reports: %s [%s]", c.role, x.ID, firstLine(err), cls), witness())
			}
		}
	}
	return peSat
}

// ---- envelopes -------------------------------------------------------------------------------------

func (e *envModel) entry(id string, vp, ci int) pe.InputDescriptorMappingObject {
	c := e.vps[vp].creds[ci]
	inner := pe.InputDescriptorMappingObject{Id: id, Format: c.format, Path: credPath(e.vps[vp], ci)}
	if !e.array {
		return inner
	}
	outer := e.vps[vp].format
	if e.jwtAsLdp && outer == "jwt_vp" {
		outer = "ldp_vp"
	}
	return pe.InputDescriptorMappingObject{Id: id, Format: outer, Path: fmt.Sprintf("$[%d]", vp), PathNested: &inner}
}

// buildEnvelopes: single/array x JSON-LD/JWT, plus an array that holds another presentation first (unselected wallet
// credentials; only used when that presentation does not satisfy the definition on its own).
func buildEnvelopes(out *caseOut, in *caseIn, rnd *rand.Rand, sel []*cred) []*envModel {
	rr := in.w // unused creds for the decoy presentation
	g := &gen{rnd: rnd}
	var envs []*envModel
	mk := func(format string, creds []*cred, n int) *vpModel {
		v, err := buildVP(format, holderDID, creds, g.rnd, in.idx*10+n)
		if err != nil {
			out.fatal = "cannot build presentation: " + err.Error()
			return nil
		}
		return v
	}
	ld, jw := mk("ldp_vp", sel, 0), mk("jwt_vp", sel, 1)
	if ld == nil || jw == nil {
		return nil
	}
	envs = append(envs, buildEnvelope(false, ld), buildEnvelope(false, jw), buildEnvelope(true, ld), buildEnvelope(true, jw))
	selected := map[string]bool{}
	for _, c := range sel {
		selected[c.key] = true
	}
	var rest []*cred
	for _, c := range rr.creds {
		if !selected[c.key] && len(rest) < 3 {
			rest = append(rest, c)
			selected[c.key] = true
		}
	}
	if len(rest) > 0 && len(sel) > 0 {
		var restVCs []vc.VerifiableCredential
		for _, c := range rest {
			restVCs = append(restVCs, c.vc)
		}
		var err error
		guard(out, "Match", func() any { return "decoy presentation" }, func() { _, _, err = in.pd.Match(restVCs) })
		if err != nil {
			first := mk([]string{"ldp_vp", "jwt_vp"}[in.idx%2], rest, 2)
			main := []*vpModel{jw, ld}[in.idx%2]
			if first != nil {
				envs = append(envs, buildEnvelope(true, first, main))
			}
		}
	}
	return envs
}

func validate(out *caseOut, in *caseIn, e *envModel, s pe.PresentationSubmission) (env *pe.Envelope, got map[string]vc.VerifiableCredential, err error, panicked bool) {
	witness := func() any {
		return map[string]any{"definition": json.RawMessage(in.raw), "submission": s, "envelope": string(e.raw)}
	}
	if guard(out, "ParseEnvelope", witness, func() { env, err = pe.ParseEnvelope(e.raw) }) {
		return nil, nil, nil, true
	}
	if err != nil {
		return nil, nil, err, false
	}
	if guard(out, "Validate", witness, func() { got, err = s.Validate(*env, *in.pd) }) {
		return env, nil, nil, true
	}
	return env, got, err, false
}

// ---- extraction ------------------------------------------------------------------------------------

func checkExtraction(out *caseOut, in *caseIn, credMap map[string]vc.VerifiableCredential, selPairs [][2]string, byKey map[string]*cred, side string) {
	var got map[string]any
	var err error
	witness := func() any { return map[string]any{"definition": json.RawMessage(in.raw), "mapping": selPairs} }
	if guard(out, "ResolveConstraintsFields", witness, func() { got, err = in.pd.ResolveConstraintsFields(credMap) }) {
		return
	}
	if err != nil {
		out.find("C12/extraction/error", "ResolveConstraintsFields fails on an accepted mapping: "+firstLine(err), witness())
		return
	}
	compareExtraction(out, in, got, selPairs, byKey, side+"/ResolveConstraintsFields")
}

type extractionDiff struct {
	class, field string
	reported     any
	want         []any
}

// extractionDiffs compares reported field values with what the reference finds in the mapped credentials (selPairs:
// descriptor id -> credential key). sound=false: a mapped credential does not satisfy its descriptor (reported elsewhere).
func extractionDiffs(in *caseIn, got map[string]any, selPairs [][2]string, byKey map[string]*cred) (diffs []extractionDiff, unexpected []string, compared int, sound bool) {
	type expect struct {
		allowed [][]any
		absent  bool
		classes []string
	}
	exp := map[string]*expect{}
	var ids []string
	for _, p := range selPairs {
		x := in.rd.desc(p[0])
		c := byKey[p[1]]
		for i := range x.Fields {
			f := &x.Fields[i]
			if f.ID == nil {
				continue
			}
			fr := f.eval(c.view)
			if !fr.ok {
				return nil, nil, 0, false
			}
			e := exp[*f.ID]
			if e == nil {
				e = &expect{}
				exp[*f.ID] = e
				ids = append(ids, *f.ID)
			}
			if fr.present {
				e.allowed = append(e.allowed, fr.allowed)
			} else {
				e.absent = true
			}
			e.classes = append(e.classes, extractionClass(f, fr))
		}
	}
	sort.Strings(ids)
	for _, id := range ids {
		e := exp[id]
		compared++
		v, has := got[id]
		ok := false
		if (!has || v == nil) && e.absent {
			ok = true
		}
		if has && v != nil {
			for _, set := range e.allowed {
				for _, a := range set {
					if jsonEqual(a, v) {
						ok = true
					}
				}
			}
		}
		if !ok {
			var want []any
			for _, set := range e.allowed {
				want = append(want, set...)
			}
			diffs = append(diffs, extractionDiff{class: e.classes[0], field: id, reported: v, want: want})
		}
	}
	for id := range got {
		if exp[id] == nil {
			unexpected = append(unexpected, id)
		}
	}
	sort.Strings(unexpected)
	return diffs, unexpected, compared, true
}

func compareExtraction(out *caseOut, in *caseIn, got map[string]any, selPairs [][2]string, byKey map[string]*cred, via string) {
	compareExtractionAt(out, in, got, selPairs, byKey, via, "C12/extraction/", "extraction_comparisons")
}

// compareExtractionAt: keys below prefix, comparisons counted under counter. Returns the number of named fields compared.
func compareExtractionAt(out *caseOut, in *caseIn, got map[string]any, selPairs [][2]string, byKey map[string]*cred, via, prefix, counter string) int {
	diffs, unexpected, compared, sound := extractionDiffs(in, got, selPairs, byKey)
	if !sound {
		return 0 // unsound mapping: reported elsewhere
	}
	out.count(counter, compared)
	for _, d := range diffs {
		out.find(prefix+d.class, fmt.Sprintf("%s: field %q is reported as %s, the credential holds %s", via, d.field, mustJSON(d.reported), mustJSON(d.want)),
			map[string]any{"definition": json.RawMessage(in.raw), "mapping": selPairs, "field": d.field, "reported": d.reported, "allowed": d.want})
	}
	for _, id := range unexpected {
		out.find(prefix+"unexpected-claim", fmt.Sprintf("%s reports a value for %q which is not a named field of a mapped descriptor", via, id), map[string]any{"definition": json.RawMessage(in.raw), "mapping": selPairs})
	}
	return compared
}

func extractionClass(f *rField, fr fieldResult) string {
	if !fr.present {
		return "optional-absent"
	}
	cls := "value"
	if f.Filter != nil && f.Filter.Pattern != nil {
		if compile(*f.Filter.Pattern).NumSubexp() == 1 {
			cls = "pattern-with-capture-group"
		} else {
			cls = "pattern-without-capture-group"
		}
		if f.Filter.HasEnum {
			cls = "enum+" + cls
		}
	}
	if _, isArr := fr.value.([]any); isArr {
		cls += "-on-array"
	}
	return cls
}

// ---- PEXConsumer (auth/api/iam) ----------------------------------------------------------------------

func pexConsumer(out *caseOut, in *caseIn, envs []*envModel, parsed []*pe.Envelope, sub pe.PresentationSubmission,
	expected func(*envModel) (relation, []pe.InputDescriptorMappingObject), selection relation, byRaw map[string]string, selPairs [][2]string, byKey map[string]*cred, extraction bool) {
	k := (in.idx / 2) % len(envs)
	e, env := envs[k], parsed[k]
	_, entries := expected(e)
	s := pe.PresentationSubmission{Id: sub.Id, DefinitionId: sub.DefinitionId, DescriptorMap: entries}
	if !e.array {
		s = sub
	}
	owner := pe.WalletOwnerOrganization
	if in.idx%3 == 0 {
		owner = pe.WalletOwnerUser
	}
	mapping := pe.WalletOwnerMapping{owner: *in.pd}
	witness := func() any {
		return map[string]any{"definition": json.RawMessage(in.raw), "submission": s, "envelope": string(e.raw)}
	}
	// a submission for another definition must not fulfil this one
	foreign := s
	foreign.DefinitionId = "some-other-definition"
	consumer := iam.VerifNewPEXConsumer(mapping)
	var err error
	if guard(out, "PEXConsumer.fulfill", witness, func() { err = consumer.VerifFulfill(foreign, *env) }) {
		return
	}
	out.count("mutants_evaluated", 1)
	if err == nil {
		out.find("C12/unforgeable/pexconsumer/foreign-definition-id", "PEXConsumer accepts a submission that names another definition", witness())
	} else {
		out.count("mutants_rejected", 1)
	}
	if guard(out, "PEXConsumer.fulfill", witness, func() { err = consumer.VerifFulfill(s, *env) }) {
		return
	}
	if err != nil {
		out.find("C12/agreement/pexconsumer-rejects-wallet-output", "PEXConsumer.fulfill rejects the wallet's own submission: "+firstLine(err), witness())
		return
	}
	out.count("pexconsumer_fulfilled", 1)
	// replay of the same submission
	if guard(out, "PEXConsumer.fulfill", witness, func() { err = consumer.VerifFulfill(s, *env) }); err == nil {
		out.find("C12/agreement/pexconsumer-fulfilled-twice", "PEXConsumer.fulfill accepts a second submission for a fulfilled definition", witness())
	}
	// the consumer is kept in the (JSON) session store between the authorization response and the token request
	data, err := json.Marshal(consumer)
	if err != nil {
		out.find("C12/agreement/pexconsumer-session", "PEXConsumer does not marshal: "+firstLine(err), witness())
		return
	}
	var restored iam.PEXConsumer
	if guard(out, "PEXConsumer.UnmarshalJSON", witness, func() { err = json.Unmarshal(data, &restored) }) {
		return
	}
	if err != nil {
		out.find("C12/agreement/pexconsumer-session", "PEXConsumer does not survive the session store: "+firstLine(err), witness())
		return
	}
	for name, cns := range map[string]*iam.PEXConsumer{"live": consumer, "restored": &restored} {
		var cm map[string]vc.VerifiableCredential
		if guard(out, "PEXConsumer.credentialMap", witness, func() { cm, err = cns.VerifCredentialMap() }) {
			continue
		}
		if err != nil {
			out.find("C12/agreement/pexconsumer-credential-map", name+": credentialMap fails after fulfill: "+firstLine(err), witness())
			continue
		}
		rel := relation{}
		for id, v := range cm {
			rel[pair(id, identify(v, byRaw))] = true
		}
		if !rel.equal(selection) {
			out.find("C12/agreement/pexconsumer-credential-map", fmt.Sprintf("%s: credentialMap gives %v, the wallet selected %v", name, rel.list(), selection.list()), witness())
			continue
		}
		if !extraction {
			continue
		}
		var vals map[string]any
		if guard(out, "resolveInputDescriptorValues", witness, func() { vals, err = iam.VerifResolveInputDescriptorValues(cns.RequiredPresentationDefinitions, cm) }) {
			continue
		}
		if err != nil {
			out.find("C12/extraction/error", "resolveInputDescriptorValues fails: "+firstLine(err), witness())
			continue
		}
		compareExtraction(out, in, vals, selPairs, byKey, "PEXConsumer("+name+")/resolveInputDescriptorValues")
	}
}

// ---- a wallet without a selection must not be able to convince the verifier either -------------------------

func forgedFromNothing(out *caseOut, in *caseIn, rnd *rand.Rand, sat map[string]map[string]bool, skip bool) {
	w, rd := in.w, in.rd
	if skip || len(w.creds) == 0 || len(rd.Descs) == 0 { // skip: includes requirement trees the reference does not decide
		return
	}
	g := &gen{rnd: rnd}
	creds := w.creds
	if len(creds) > 4 {
		creds = creds[:4]
	}
	vp, err := buildVP([]string{"ldp_vp", "jwt_vp"}[in.idx%2], holderDID, creds, g.rnd, in.idx*10+7)
	if err != nil {
		out.fatal = err.Error()
		return
	}
	e := buildEnvelope(in.idx%3 == 0, vp)
	// map every descriptor to its best candidate (a satisfying credential when there is one, else any)
	var entries []pe.InputDescriptorMappingObject
	for di, x := range rd.Descs {
		ci := (di + in.idx) % len(creds)
		for k, c := range creds {
			if sat[x.ID][c.key] {
				ci = k
			}
		}
		entries = append(entries, e.entry(x.ID, 0, ci))
	}
	s := pe.PresentationSubmission{Id: "forged", DefinitionId: rd.ID, DescriptorMap: entries}
	// only decided when the verifier's own matching finds nothing in these credentials either
	var vcs []vc.VerifiableCredential
	for _, c := range creds {
		vcs = append(vcs, c.vc)
	}
	var merr error
	if guard(out, "Match", func() any { return "forged-from-nothing" }, func() { _, _, merr = in.pd.Match(vcs) }) || merr == nil {
		return
	}
	env, _, verr, panicked := validate(out, in, e, s)
	if panicked || env == nil {
		return
	}
	out.count("mutants_evaluated", 1)
	out.dist("mutators", "map-everything-without-selection")
	if verr == nil {
		out.find("C12/unforgeable/map-everything-without-selection", "Validate accepts a submission over credentials in which matching finds no complete selection",
			map[string]any{"definition": json.RawMessage(in.raw), "submission": s, "envelope": string(e.raw)})
	} else {
		out.count("mutants_rejected", 1)
	}
}
