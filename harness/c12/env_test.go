package c12

// Credentials (JSON-LD and JWT), presentations and envelopes the harness builds. Nothing here is signed for real:
// package pe never verifies signatures; "signed" credentials carry a syntactically valid proof / JWS signature part so
// that format designations (proof_type / alg) have something to select on.

import (
	"encoding/base64"
	"encoding/json"
	"fmt"
	"math/rand"
	"time"

	ssi "github.com/nuts-foundation/go-did"
	"github.com/nuts-foundation/go-did/vc"
)

const ctxV1 = "https://www.w3.org/2018/credentials/v1"
const ctxEx = "https://example.com/verif/ctx/v1"

// tmpl is a credential in data-model form, independent of its securing format.
type tmpl struct {
	id       string
	types    []string
	issuer   string
	issued   time.Time
	expires  *time.Time
	subjects []map[string]any
}

func (t *tmpl) clone() *tmpl {
	c := *t
	c.types = append([]string{}, t.types...)
	c.subjects = nil
	for _, s := range t.subjects {
		c.subjects = append(c.subjects, deepCopy(s).(map[string]any))
	}
	return &c
}

func deepCopy(v any) any {
	data, _ := json.Marshal(v)
	var out any
	_ = json.Unmarshal(data, &out)
	return out
}

// cred is one wallet credential: the real value handed to pe plus the reference's own view of its content.
type cred struct {
	key    string // unique per distinct credential (id|format|signing)
	format string // ldp_vc | jwt_vc
	signed string // "" = unsigned; else proof type (ldp) or alg (jwt)
	view   any    // reference view: compact form for JSON-LD, expanded (plural type/credentialSubject) form for JWT
	raw    string
	vc     vc.VerifiableCredential
	role   string // how the generator meant it: match:<desc> / near:<desc>:<what> / decoy / duplicate
	// what the credential was rendered from (only used to synthesise id-colliding twins, never by a verdict)
	tmpl    *tmpl
	subjArr bool // JWT: credentialSubject rendered as array
}

func b64(v []byte) string { return base64.RawURLEncoding.EncodeToString(v) }

func mustJSON(v any) []byte {
	data, err := json.Marshal(v)
	if err != nil {
		panic(err)
	}
	return data
}

func one(l []any) any {
	if len(l) == 1 {
		return l[0]
	}
	return l
}

func strs(l []string) []any {
	out := make([]any, len(l))
	for i, s := range l {
		out[i] = s
	}
	return out
}

func subjectsAny(l []map[string]any) []any {
	out := make([]any, len(l))
	for i, s := range l {
		out[i] = deepCopy(s)
	}
	return out
}

// renderLDP renders the template as a JSON-LD credential in compact form (single-element type/credentialSubject
// unwrapped), which is also the reference's view of it.
func renderLDP(t *tmpl, proofType string, rnd *rand.Rand) (*cred, error) {
	m := map[string]any{
		"@context":          []any{ctxV1, ctxEx},
		"type":              one(strs(t.types)),
		"issuer":            t.issuer,
		"issuanceDate":      t.issued.UTC().Format(time.RFC3339),
		"credentialSubject": one(subjectsAny(t.subjects)),
	}
	if t.id != "" { // id is optional in the data model
		m["id"] = t.id
	}
	if t.expires != nil {
		m["expirationDate"] = t.expires.UTC().Format(time.RFC3339)
	}
	if proofType != "" {
		sig := make([]byte, 16)
		rnd.Read(sig)
		m["proof"] = map[string]any{
			"type":               proofType,
			"created":            t.issued.UTC().Format(time.RFC3339),
			"proofPurpose":       "assertionMethod",
			"verificationMethod": t.issuer + "#k1",
			"jws":                "eyJhbGciOiJFUzI1NiIsImI2NCI6ZmFsc2V9.." + b64(sig),
		}
	}
	raw := string(mustJSON(m))
	parsed, err := vc.ParseVerifiableCredential(raw)
	if err != nil {
		return nil, err
	}
	return &cred{key: t.id + "|ldp_vc|" + proofType, format: "ldp_vc", signed: proofType, view: deepCopy(m), raw: raw, vc: *parsed}, nil
}

// renderJWT renders the template as a JWT credential (https://www.w3.org/TR/vc-data-model/#json-web-token). The
// reference's view is the expanded data-model form: registered claims mapped back, type/credentialSubject as arrays.
func renderJWT(t *tmpl, alg string, subjectAsArray bool, rnd *rand.Rand) (*cred, error) {
	var cs any = subjectsAny(t.subjects)
	if !subjectAsArray {
		cs = one(subjectsAny(t.subjects))
	}
	inner := map[string]any{
		"@context":          []any{ctxV1, ctxEx},
		"type":              strs(t.types),
		"credentialSubject": cs,
	}
	sub, _ := t.subjects[0]["id"].(string)
	claims := map[string]any{
		"iss": t.issuer,
		"sub": sub,
		"nbf": t.issued.Unix(),
		"vc":  inner,
	}
	if t.id != "" {
		claims["jti"] = t.id
	}
	if t.expires != nil {
		claims["exp"] = t.expires.Unix()
	}
	headerAlg := alg
	sigPart := ""
	if alg == "" {
		headerAlg = "ES256" // unsigned: empty signature part (self-attested credential)
	} else {
		sig := make([]byte, 64)
		rnd.Read(sig)
		sigPart = b64(sig)
	}
	header := map[string]any{"alg": headerAlg, "typ": "JWT", "kid": t.issuer + "#k1"}
	raw := b64(mustJSON(header)) + "." + b64(mustJSON(claims)) + "." + sigPart
	parsed, err := vc.ParseVerifiableCredential(raw)
	if err != nil {
		return nil, err
	}
	subjects := subjectsAny(t.subjects)
	for _, s := range subjects {
		if sub != "" {
			s.(map[string]any)["id"] = sub
		}
	}
	view := map[string]any{
		"@context":          []any{ctxV1, ctxEx},
		"type":              strs(t.types),
		"issuer":            t.issuer,
		"issuanceDate":      t.issued.UTC().Format(time.RFC3339),
		"credentialSubject": subjects,
	}
	if t.id != "" {
		view["id"] = t.id
	}
	if t.expires != nil {
		view["expirationDate"] = t.expires.UTC().Format(time.RFC3339)
	}
	return &cred{key: t.id + "|jwt_vc|" + alg, format: "jwt_vc", signed: alg, view: deepCopy(view), raw: raw, vc: *parsed}, nil
}

// libraryView is how go-did itself renders the parsed credential as a JSON document (public API only). Used as a
// self-check of the harness' assumption about the credential's JSON view - not as an oracle.
func libraryView(c *cred) any {
	var data []byte
	if c.format == "jwt_vc" {
		type plain vc.VerifiableCredential
		data, _ = json.Marshal(plain(c.vc))
	} else {
		data, _ = json.Marshal(c.vc)
	}
	var out any
	_ = json.Unmarshal(data, &out)
	return out
}

// ---- presentations and envelopes ---------------------------------------------------------------

type vpModel struct {
	format string // ldp_vp | jwt_vp
	creds  []*cred
	raw    []byte // JSON object (ldp) or compact JWS (jwt)
}

func uri(s string) ssi.URI { return ssi.MustParseURI(s) }

// buildVP creates a presentation over the given credentials the way vcr/holder/presenter.go does (same go-did
// marshalling of the VP body), with a syntactically valid but meaningless proof.
func buildVP(format, holder string, creds []*cred, rnd *rand.Rand, n int) (*vpModel, error) {
	var vcs []vc.VerifiableCredential
	for _, c := range creds {
		vcs = append(vcs, c.vc)
	}
	holderURI := uri(holder)
	id := uri(fmt.Sprintf("%s#vp-%d", holder, n))
	body := vc.VerifiablePresentation{
		Context:              []ssi.URI{uri(ctxV1)},
		Type:                 []ssi.URI{uri("VerifiablePresentation")},
		Holder:               &holderURI,
		VerifiableCredential: vcs,
	}
	sig := make([]byte, 32)
	rnd.Read(sig)
	switch format {
	case "ldp_vp":
		body.ID = &id
		data, err := body.MarshalJSON()
		if err != nil {
			return nil, err
		}
		var m map[string]any
		if err := json.Unmarshal(data, &m); err != nil {
			return nil, err
		}
		m["proof"] = map[string]any{
			"type":               "JsonWebSignature2020",
			"created":            "2024-06-01T00:00:00Z",
			"expires":            "2024-06-01T00:00:05Z",
			"proofPurpose":       "authentication",
			"verificationMethod": holder + "#k1",
			"challenge":          fmt.Sprintf("nonce-%d", n),
			"domain":             "did:web:verifier.example",
			"jws":                "eyJhbGciOiJFUzI1NiIsImI2NCI6ZmFsc2V9.." + b64(sig),
		}
		return &vpModel{format: format, creds: creds, raw: mustJSON(m)}, nil
	case "jwt_vp":
		data, err := body.MarshalJSON()
		if err != nil {
			return nil, err
		}
		claims := map[string]any{
			"iss": holder, "sub": holder, "jti": id.String(), "nbf": 1717200000, "exp": 1717200005,
			"nonce": fmt.Sprintf("nonce-%d", n), "aud": "did:web:verifier.example", "vp": json.RawMessage(data),
		}
		header := map[string]any{"alg": "ES256", "typ": "JWT", "kid": holder + "#k1"}
		raw := b64(mustJSON(header)) + "." + b64(mustJSON(claims)) + "." + b64(sig)
		return &vpModel{format: format, creds: creds, raw: []byte(raw)}, nil
	}
	return nil, fmt.Errorf("unknown vp format %s", format)
}

// envModel is the harness' own knowledge of what an envelope contains and where.
type envModel struct {
	shape    string
	array    bool
	jwtAsLdp bool // entries for JWT presentations inside an array envelope are designated ldp_vp (see agreement check)
	vps      []*vpModel
	raw      []byte
}

func buildEnvelope(array bool, vps ...*vpModel) *envModel {
	e := &envModel{array: array, vps: vps}
	if !array {
		e.raw = vps[0].raw
		e.shape = vps[0].format
		return e
	}
	var parts []any
	e.shape = "["
	for i, v := range vps {
		if i > 0 {
			e.shape += ","
		}
		e.shape += v.format
		if v.format == "jwt_vp" {
			parts = append(parts, string(v.raw))
		} else {
			parts = append(parts, json.RawMessage(v.raw))
		}
	}
	e.shape += "]"
	e.raw = mustJSON(parts)
	return e
}

// credPath: where credential j of a presentation lives, relative to that presentation.
func credPath(v *vpModel, j int) string {
	if len(v.creds) == 1 {
		return "$.verifiableCredential"
	}
	return fmt.Sprintf("$.verifiableCredential[%d]", j)
}
