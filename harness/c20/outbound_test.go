package c20

// Part 2: the real http/client constructors against recording listeners. Every connection of client.SafeHttpTransport is routed to a
// plain-HTTP or a TLS listener in this process (see remoteWorld); a request was attempted iff a listener received it (or a plain
// connection was dialled). Strict mode is switched through the exported client.StrictMode, the cache through client.DefaultCachingTransport,
// the two seams the HTTP engine itself uses when it configures the clients.

import (
	"crypto/tls"
	"encoding/json"
	"fmt"
	"net/http"
	"os"
	"path/filepath"
	"strings"
	"testing"
	"time"

	"github.com/nuts-foundation/nuts-node/core"
	httpengine "github.com/nuts-foundation/nuts-node/http"
	"github.com/nuts-foundation/nuts-node/http/client"
	"verif/lib/ev"
)

func outboundClasses() []outURL {
	return []outURL{
		{"https-domain", "https://partner.zorgnetwerk.nl/TOKEN"},
		{"http-domain", "http://partner.zorgnetwerk.nl/TOKEN"},
		{"https-ip", "https://198.51.100.7/TOKEN"},
		{"http-ip", "http://198.51.100.7/TOKEN"},
		{"https-localhost", "https://localhost/TOKEN"},
		{"http-localhost", "http://localhost:8080/TOKEN"},
		{"https-reserved", "https://partner.local/TOKEN"},
		{"https-redirect-to-http", "https://partner.zorgnetwerk.nl/r2http/TOKEN"},
		{"https-redirect-to-https", "https://partner.zorgnetwerk.nl/r2https/TOKEN"},
	}
}

func chainClasses() []outURL {
	out := []outURL{}
	for _, code := range []string{"301", "302", "303", "307", "308"} {
		out = append(out, outURL{"https-" + code + "-to-http", "https://partner.zorgnetwerk.nl/hops/" + code + ".http.same/TOKEN"})
	}
	return append(out,
		outURL{"https-302-to-http-other-host", "https://partner.zorgnetwerk.nl/hops/302.http.other/TOKEN"},
		outURL{"https-307-to-http-ip-host", "https://partner.zorgnetwerk.nl/hops/307.http.ip/TOKEN"},
		outURL{"https-2hops-to-http", "https://partner.zorgnetwerk.nl/hops/302.https.other-307.http.same/TOKEN"},
		outURL{"https-3hops-to-http", "https://partner.zorgnetwerk.nl/hops/301.https.other-302.https.same-302.http.other/TOKEN"},
		outURL{"https-ip-to-http", "https://198.51.100.7/hops/302.http.same/TOKEN"},
		outURL{"https-2hops-to-https", "https://partner.zorgnetwerk.nl/hops/302.https.other-307.https.same/TOKEN"},
	)
}

var directN, sampledDirect int
var directSamples []any // handed to the evidence by TestCheck after the configurations' samples

// directBattery sends every class with every constructor and method through clients made AFTER the package was switched (as the
// engines of a node make theirs after the HTTP engine was configured) and judges what left them.
func directBattery(r *ev.Run, rec *recorder, strict bool, setting string, classes []outURL, w map[string]any) {
	ctors := []struct {
		name string
		mk   func() *client.StrictHTTPClient
	}{
		{"client.New", func() *client.StrictHTTPClient { return client.New(10 * time.Second) }},
		{"client.NewWithCache", func() *client.StrictHTTPClient { return client.NewWithCache(10 * time.Second) }},
		{"client.NewWithTLSConfig", func() *client.StrictHTTPClient {
			return client.NewWithTLSConfig(10*time.Second, &tls.Config{InsecureSkipVerify: true})
		}},
	}
	for _, ct := range ctors {
		for _, method := range []string{http.MethodGet, http.MethodPost} {
			for _, cl := range classes {
				directN++
				target := strings.Replace(cl.URL, "TOKEN", fmt.Sprintf("d%d", directN), 1)
				m := rec.mark()
				var err error
				func() {
					defer func() {
						if p := recover(); p != nil {
							err = fmt.Errorf("panic: %v", p)
						}
					}()
					var req *http.Request
					if method == http.MethodPost {
						req, err = http.NewRequest(method, target, strings.NewReader("grant_type=verif"))
					} else {
						req, err = http.NewRequest(method, target, nil)
					}
					if err != nil {
						return
					}
					var resp *http.Response
					resp, err = ct.mk().Do(req)
					if err == nil {
						resp.Body.Close()
					}
				}()
				via := fmt.Sprintf("%s/%s/%s", ct.name, method, setting)
				p := ledgerLine{Ev: "probe", Probe: "outbound", Class: cl.Class, Via: via, URL: target, Err: errStr(err), OK: err == nil, Attempts: rec.since(m)}
				r.Case(fmt.Sprintf("direct/%v/%s/%s", strict, via, cl.Class), true)
				r.Count("outbound_direct_cases", 1)
				wit := map[string]any{"probe": p, "strictmode": strict}
				for k, v := range w {
					wit[k] = v
				}
				evaluateOutbound(r, "direct", strict, p, wit)
				if sampledDirect < 2 && cl.Class == "https-2hops-to-http" && method == http.MethodGet && (sampledDirect == 0) == strict {
					sampledDirect++
					directSamples = append(directSamples, map[string]any{"outcome": "outbound", "strictmode": strict, "via": via, "class": cl.Class, "url": target, "error": p.Err, "requests_that_left_the_client": p.Attempts})
				}
			}
		}
	}
}

func outboundDirect(t *testing.T, r *ev.Run) {
	rec := &recorder{}
	remoteWorld(rec)
	defer func() {
		client.StrictMode = false
		client.DefaultCachingTransport = client.SafeHttpTransport
	}()
	classes := append(outboundClasses(), chainClasses()...)
	for _, strict := range []bool{true, false} {
		for _, cache := range []bool{false, true} {
			client.StrictMode = strict
			if cache {
				client.DefaultCachingTransport = client.NewCachingTransport(client.SafeHttpTransport, 1<<20)
			} else {
				client.DefaultCachingTransport = client.SafeHttpTransport
			}
			directBattery(r, rec, strict, fmt.Sprintf("cache=%v", cache), classes, map[string]any{"cache": cache})
		}
	}
	// same fake remote hosts and recorder: the transport keeps connections to them alive
	outboundEngineConfigured(r, rec, classes)
}

// outboundEngineConfigured: the same battery, but the clients are switched the way a node switches them - by Configure of the real HTTP
// engine, from the (strictmode, http.cache.maxbytes, http.log, ...) it was given. Before each Configure the package is put into the state
// it has in a process that has just started (strict mode off, no cache), so what is observed is what a node with that configuration would
// do, not what an earlier configuration left behind. The engine is only configured, never started: no listener is opened.
func outboundEngineConfigured(r *ev.Run, rec *recorder, classes []outURL) {
	sizes := []int{0, 1, 10 << 20}
	if r.Thorough() {
		sizes = append(sizes, -1, 2, 4096, 1<<31-1)
	}
	rnd := r.Rand("engine-configured")
	for _, strict := range []bool{true, false} {
		for _, size := range sizes {
			client.StrictMode = false
			client.DefaultCachingTransport = client.SafeHttpTransport
			engine := httpengine.New(func() {}, nil)
			cfg := engine.Config().(*httpengine.Config)
			cfg.ResponseCacheSize = size
			cfg.Internal.Address, cfg.Public.Address = "127.0.0.1:0", "127.0.0.1:1"
			// further settings of the same engine, none of which has to do with the outbound clients (seeded)
			cfg.Log = []httpengine.LogLevel{httpengine.LogNothingLevel, httpengine.LogMetadataLevel, httpengine.LogMetadataAndBodyLevel}[rnd.Intn(3)]
			cfg.ClientIPHeaderName = []string{"X-Forwarded-For", "", "X-Real-IP"}[rnd.Intn(3)]
			sc := core.ServerConfig{Strictmode: strict, InternalRateLimiter: rnd.Intn(2) == 0, DIDMethods: [][]string{{"web"}, {"web", "nuts"}, {"nuts"}}[rnd.Intn(3)]}
			setting := fmt.Sprintf("engine-configured/http.cache.maxbytes=%s", sizeClass(size))
			w := map[string]any{"http_engine_config": *cfg, "server_config_strictmode": strict, "didmethods": sc.DIDMethods}
			var cerr error
			func() {
				defer func() {
					if p := recover(); p != nil {
						cerr = fmt.Errorf("panic: %v", p)
					}
				}()
				cerr = engine.Configure(sc)
			}()
			if cerr != nil {
				r.Case(fmt.Sprintf("engine-configure/%v/%d", strict, size), false)
				if strings.HasPrefix(cerr.Error(), "panic:") {
					r.Violation("C20/panic/http.Engine.Configure", cerr.Error(), w)
				} else {
					r.Inconclusive("HTTP engine could not be configured: " + cerr.Error())
				}
				continue
			}
			r.Case(fmt.Sprintf("engine-configure/%v/%d", strict, size), true)
			r.Distinct("engine_configured_settings", fmt.Sprintf("strict=%v/%s", strict, sizeClass(size)))
			if client.StrictMode != strict {
				mode := map[bool]string{true: "strict", false: "nonstrict"}[strict]
				r.Violation("C20/http-client-strictmode-mismatch/engine-configured/"+mode+"/http.cache.maxbytes="+sizeClass(size),
					fmt.Sprintf("HTTP engine configured with strictmode=%v and http.cache.maxbytes=%d, but the HTTP client package has StrictMode=%v", strict, size, client.StrictMode), w)
			}
			directBattery(r, rec, strict, setting, classes, w)
		}
	}
}

// sizeClass names a cache size for violation keys.
func sizeClass(n int) string {
	switch {
	case n < 0:
		return "negative"
	case n == 0:
		return "0"
	case n < 1<<20:
		return "tiny"
	}
	return "large"
}

// TestOne runs a single hand-written configuration (debugging aid): VERIF_C20_ONE='{"Args":[...],"Env":{...},"Yaml":"..."}'
func TestOne(t *testing.T) {
	js := os.Getenv("VERIF_C20_ONE")
	if js == "" {
		t.Skip()
	}
	var l launch
	if err := json.Unmarshal([]byte(js), &l); err != nil {
		t.Fatal(err)
	}
	dir, _ := os.MkdirTemp("", "c20-one-")
	defer os.RemoveAll(dir)
	if l.Env == nil {
		l.Env = map[string]string{}
	}
	cfg := filepath.Join(dir, "nuts.yaml")
	_ = os.WriteFile(cfg, []byte(strings.ReplaceAll(l.Yaml, "$DIR", dir)), 0o644)
	for k, v := range l.Env {
		l.Env[k] = strings.ReplaceAll(v, "$DIR", dir)
	}
	l.Env["NUTS_CONFIGFILE"] = cfg
	prepareIrma(filepath.Join(dir, "data"))
	l.Spec.DummyProbe = true
	l.Spec.Outbound = outboundClasses()
	infrastructure(&l, dir)
	if v := os.Getenv("VERIF_C20_VERBOSITY"); v != "" {
		l.Env["NUTS_VERBOSITY"] = v
	}
	start := time.Now()
	o := runChild(dir, l)
	fmt.Printf("took %v exit=%d refused=%v msg=%q running=%v stopped=%v exited=%v %q\n", time.Since(start), o.ExitCode, o.Refused, o.RefusalMsg, o.Running, o.Stopped, o.Exited, o.ExitedMsg)
	for _, ln := range o.Raw {
		fmt.Println("  ", ln)
	}
	if os.Getenv("VERIF_C20_OUT") != "" {
		fmt.Println(tail(o.Output, 6000))
	}
}
