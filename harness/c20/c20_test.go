// Check C20: strict mode refuses every insecure configuration it documents.
//
// Part 1 (assembled system): every generated configuration is started as a user would start it - `nuts server` with a command
// line, NUTS_* environment variables and a configuration file - in its own child process (a refused start ends in os.Exit(1)).
// The child reports: start-up refused (with the error, whether /status had ever been reachable and whether a listener accepted
// connections at the moment of the refusal) or node running (GET /status = 200), and then, on the running node, what the
// action-level settings do (dummy authentication means, remote JSON-LD contexts, outbound URL classes through the node's HTTP
// clients with all connections routed to listeners inside the child that record what they receive).
// Part 2 (outbound_test.go): the real http/client constructors against recording listeners, strict mode on and off, cache on and off,
// redirect chains that end on plain HTTP.
//
// The oracle is a reference predicate written from the documented list (docs/pages/deployment/configuration.rst "Strict mode" and
// "Secrets", storage.rst, the option descriptions, security_model.rst and the property statement), not from the code.
package c20

import (
	"fmt"
	"math/rand"
	"net/http"
	"net/http/httptest"
	"os"
	"path/filepath"
	"sort"
	"strings"
	"sync"
	"testing"

	"github.com/nuts-foundation/nuts-node/cmd"
	"github.com/spf13/pflag"
	"gopkg.in/yaml.v3"
	"verif/lib/ev"
	"verif/lib/worker"
)

func TestMain(m *testing.M) {
	worker.Register("c20node", nodeWorker)
	worker.Main(m)
}

// ---- the configuration space -------------------------------------------------------------------------------

type factor struct {
	name   string
	quick  []string
	beyond []string // additional values in the thorough tier
}

var factors = []factor{
	{"strictmode", []string{"unset", "true", "false"}, nil},
	{"url", []string{"https-domain", "http-domain", "https-ip", "https-localhost", "https-reserved", "empty"}, []string{"http-localhost"}},
	{"tls", []string{"full", "none", "partial", "legacy"}, nil},
	{"crypto.storage", []string{"unset", "fs", "vaultkv"}, []string{"external"}},
	{"storage.sql.connection", []string{"unset", "sqlite-file"}, []string{"sqlite-memory"}},
	{"auth.contractvalidators", []string{"default", "dummy", "irma", "employeeid"}, []string{"irma+employeeid", "uzi"}},
	{"auth.irma.schememanager", []string{"unset", "pbdf", "irma-demo"}, nil},
	{"jsonld.contexts.remoteallowlist", []string{"default", "empty", "custom", "custom-shapes"}, nil},
	{"didmethods", []string{"unset", "web", "nuts", "web+nuts"}, []string{"nuts+web"}},
	{"channel", []string{"file", "env", "flags", "mixed"}, nil},
	{"secret", []string{"none", "env", "file", "cli"}, nil},
	// bystanders: operational settings that the documents do not connect with strict mode in any way (response cache size, logging,
	// time-outs, optional subsystems). The reference ignores them: whatever strict mode promises, it promises under each of them.
	{"http.cache.maxbytes", []string{"unset", "0", "1", "large"}, []string{"negative", "default-spelled-out"}},
	{"operational", []string{"default", "quiet", "slim", "tuned"}, []string{"quiet+slim+tuned"}},
}

const (
	fStrict = iota
	fURL
	fTLS
	fCrypto
	fSQL
	fValidators
	fIrma
	fJSONLD
	fDID
	fChannel
	fSecret
	fCache
	fOps
)

const nFactors = 13

func values(f int, thorough bool) []string {
	v := append([]string{}, factors[f].quick...)
	if thorough {
		v = append(v, factors[f].beyond...)
	}
	return v
}

// config is one point of the product plus the concrete variants chosen for it.
type config struct {
	V        [nFactors]string // value per factor
	URL      string     // concrete url for the class
	TLSVar   string     // variant of partial / legacy
	CLIFlag  string     // the secret flag put on the command line (secret=cli)
	Group    string     // generator that produced the case
	ChanSeed int64      // per-option channel choice for channel=mixed
	ValList  []string   // auth.contractvalidators as written (nil: the option is not given); a spelling/list variant of V[fValidators]
}

func (c config) strict() bool { return c.V[fStrict] != "false" }
func (c config) nuts() bool   { return c.V[fDID] != "web" }

func (c config) fingerprint() string {
	return strings.Join(c.V[:], "|") + "|" + c.URL + "|" + c.TLSVar + "|" + c.CLIFlag + "|" + strings.Join(c.ValList, ",")
}

var urlVariants = map[string][]string{
	"https-domain":    {"https://node.zorgverlener.nl", "https://nuts.zorgverlener.nl:8443", "https://zorgverlener.nl/nuts", "https://NODE.Zorgverlener.NL"},
	"http-domain":     {"http://node.zorgverlener.nl", "http://nuts.zorgverlener.nl:8080"},
	"https-ip":        {"https://192.0.2.15", "https://10.0.0.5:8443", "https://[2001:db8::15]", "https://127.0.0.1", "https://10.0.0.1.", "https://127.0.0.1.:8443", "https://169.254.169.254./x"},
	"https-localhost": {"https://localhost", "https://localhost:8443"},
	"https-reserved": {"https://node.local", "https://nuts.test", "https://node.example", "https://www.example.com", "https://nuts.example.org", "https://nuts.example.net",
		"https://node.invalid", "https://nuts.lan", "https://nuts.home", "https://node.corp", "https://nuts.localdomain", "https://node.localhost", "https://NUTS.LOCAL"},
	"http-localhost": {"http://localhost:8080", "http://127.0.0.1:8080"},
	"empty":          {""},
}

var tlsVariants = map[string][]string{
	"full":    {""},
	"none":    {"", "offload-incoming", "offload-incoming+clientcertheader"}, // TLS offloading configured, but still no certificate: network TLS is off
	"partial": {"cert-only", "key-only", "no-truststore", "truststore-only"},
	"legacy":  {"network.certfile", "network.certkeyfile", "network.truststorefile", "network.all", "network.all+tls"},
}

// validatorVariants: the ways a user can write a value of auth.contractvalidators. The node matches the entries of that list without
// regard to case, so every spelling of a means selects it; the list may name a means twice, amid others, in any position, or spell out the
// default. What strict mode promises about the dummy means it promises for each of them (the reference never looks at the spelling in
// strict mode). Index 0 is the documented spelling.
var validatorVariants = map[string][][]string{
	"dummy": {{"dummy"}, {"Dummy"}, {"DUMMY"}, {"dUmMy"}, {"dummy", "dummy"}, {"Dummy", "dummy"}, {"dummy", "DUMMY"}, {"irma", "Dummy"}, {"DUMMY", "employeeid"},
		{"employeeid", "dummy", "irma"}, {"irma", "dummy", "employeeid"}, {"Irma", "Dummy", "EmployeeID"}, {"dummy "}, {" Dummy"}},
	"irma":            {{"irma"}, {"IRMA"}, {"Irma"}, {"irma", "irma"}},
	"employeeid":      {{"employeeid"}, {"EmployeeID"}, {"EMPLOYEEID"}},
	"irma+employeeid": {{"irma", "employeeid"}, {"employeeid", "IRMA"}},
	"uzi":             {{"uzi"}, {"UZI"}},
}

// dummyListed: does the list name the dummy means in the documented spelling (exact), resp. in any spelling the node's case-insensitive
// lookup - or a channel that trims white space - can take for it (folded)?
func dummyListed(list []string) (exact, folded bool) {
	for _, v := range list {
		if v == "dummy" {
			exact = true
		}
		if strings.EqualFold(strings.TrimSpace(v), "dummy") {
			folded = true
		}
	}
	return
}

// dummySpellings are the spellings other than the documented one under which the list names the dummy means.
func dummySpellings(list []string) []string {
	var out []string
	seen := map[string]bool{"dummy": true}
	for _, v := range list {
		if strings.EqualFold(strings.TrimSpace(v), "dummy") && !seen[v] {
			seen[v] = true
			out = append(out, v)
		}
	}
	return out
}

// secretFlags are the options the documentation calls secrets ("All options ending with token or password"), taken from the
// flag set of the real server command.
func secretFlags() (secret []string, all int) {
	system := cmd.CreateSystem(func() {})
	root := cmd.CreateCommand(system)
	for _, sub := range root.Commands() {
		if sub.Name() == "server" {
			sub.Flags().VisitAll(func(f *pflag.Flag) {
				all++
				if strings.HasSuffix(f.Name, "token") || strings.HasSuffix(f.Name, "password") {
					secret = append(secret, f.Name)
				}
			})
		}
	}
	sort.Strings(secret)
	return
}

func pick(rnd *rand.Rand, xs []string) string { return xs[rnd.Intn(len(xs))] }

// concretise chooses the variants of a config (seeded).
func concretise(c *config, rnd *rand.Rand, secrets []string) {
	c.URL = pick(rnd, urlVariants[c.V[fURL]])
	c.TLSVar = pick(rnd, tlsVariants[c.V[fTLS]])
	if c.V[fSecret] == "cli" {
		c.CLIFlag = pick(rnd, secrets)
	}
	c.ChanSeed = rnd.Int63()
	// how the contract validators are written: derived from the channel seed (no further draw, the other choices stay what they were);
	// the documented spelling keeps a third of the weight
	if vs := validatorVariants[c.V[fValidators]]; len(vs) > 0 {
		k := int(uint64(c.ChanSeed) >> 7 % uint64(len(vs)+len(vs)/2))
		if k >= len(vs) {
			k = 0
		}
		c.ValList = vs[k]
	}
}

// ---- the reference: what the documents promise -----------------------------------------------------------

type expectation struct {
	mustRefuse  bool            // start-up has to be refused with an error
	mayRefuse   bool            // the documents do not decide (invalid rather than insecure setting, or an explicitly unspecified combination)
	allowed     map[string]bool // classes of refusal that the reference can explain for this configuration
	reasons     []string        // why mustRefuse
	unspecified []string
}

// reference is written from the documentation, per option:
//   - "Secrets": options ending with token/password can only be set through environment or config file      -> refused on the command line, any mode
//   - server_config: network.{truststorefile,certkeyfile,certfile} have moved to tls.*                            -> refused in any mode
//   - url: "Public facing URL of the server (required). Must be HTTPS when strictmode is set"; property: not an IP, not a reserved host
//   - "Strict mode": crypto.storage and storage.sql.connection must explicitly be set
//   - "Strict mode": requires TLS to be configured through tls.{certfile,certkeyfile,truststore} (consumer: the gRPC network = did:nuts)
//   - "Strict mode": requires auth.irma.schememanager=pbdf
//   - "Strict mode": dummy is ignored, JSON-LD contexts only from the allow list, plain HTTP refused            -> node runs, the action is refused
func reference(c config) expectation {
	e := expectation{allowed: map[string]bool{}}
	always := func(class, why string) {
		e.mustRefuse, e.allowed[class] = true, true
		e.reasons = append(e.reasons, why)
	}
	insecure := func(class, why string) {
		e.allowed[class] = true
		if c.strict() {
			e.mustRefuse = true
			e.reasons = append(e.reasons, why)
		}
	}
	if c.V[fSecret] == "cli" {
		always("cli-secret", "secret on the command line")
	}
	if c.V[fTLS] == "legacy" {
		always("moved-key", "moved key "+c.TLSVar)
	}
	switch c.V[fURL] {
	case "http-domain", "http-localhost":
		insecure("url", "url is not https")
	case "https-ip":
		insecure("url", "url names an IP address")
		if !c.strict() && strings.Contains(c.URL, "[") {
			// the node derives its root did:web from the url; an IPv6 literal has no did:web form. Not an insecurity the documents list: counted, not judged
			e.mayRefuse = true
			e.allowed["url-no-did-web-form"] = true
			e.unspecified = append(e.unspecified, "non-strict: IPv6 literal url has no did:web form")
		}
	case "https-localhost", "https-reserved":
		insecure("url", "url names a reserved host")
	case "empty":
		// required option: refusing is right in both modes; in strict mode an absent url is also "not HTTPS"
		insecure("url", "url is not configured")
		if !c.strict() {
			e.mayRefuse = true
			e.unspecified = append(e.unspecified, "non-strict: required option url absent")
		}
	}
	if c.V[fCrypto] == "unset" {
		insecure("crypto-storage", "crypto.storage implicit")
	}
	if c.V[fSQL] == "unset" {
		insecure("sql", "storage.sql.connection implicit")
	}
	if c.V[fIrma] == "irma-demo" {
		insecure("irma-scheme", "auth.irma.schememanager is not pbdf")
	}
	tlsOff := c.V[fTLS] == "none" || c.V[fTLS] == "legacy" && c.TLSVar != "network.all+tls" || c.V[fTLS] == "partial" && c.TLSVar == "truststore-only"
	tlsBroken := c.V[fTLS] == "partial" && c.TLSVar != "truststore-only"
	if tlsOff {
		if c.nuts() {
			insecure("tls-off", "network TLS not configured")
		} else if c.strict() {
			e.allowed["tls-off"] = true
			e.mayRefuse = true
			e.unspecified = append(e.unspecified, "strict: TLS not configured while didmethods excludes nuts")
		}
	}
	if tlsBroken {
		// an incomplete tls.* set is invalid in any mode; in strict mode with the network enabled it is also "TLS not (fully) configured"
		e.allowed["tls-partial"] = true
		if c.strict() && c.nuts() {
			e.mustRefuse = true
			e.reasons = append(e.reasons, "tls.* incomplete ("+c.TLSVar+")")
		} else {
			e.mayRefuse = true
			e.unspecified = append(e.unspecified, "incomplete tls.* set outside strict mode with did:nuts")
		}
	}
	return e
}

// classify maps the error a refused start reported to the setting it is about.
func classify(msg string) string {
	switch {
	case strings.Contains(msg, "is a secret"):
		return "cli-secret"
	case strings.Contains(msg, "have moved to tls"):
		return "moved-key"
	case strings.Contains(msg, "invalid 'url'"), strings.Contains(msg, "'url' must be configured"):
		return "url"
	case strings.Contains(msg, "backend must be explicitly set"):
		return "crypto-storage"
	case strings.Contains(msg, "storage.sql.connection must be set"):
		return "sql"
	case strings.Contains(msg, "disabling TLS in strict mode"):
		return "tls-off"
	case strings.Contains(msg, "irma-scheme-manager"):
		return "irma-scheme"
	case strings.Contains(msg, "unable to load node TLS certificate"), strings.Contains(msg, "unable to read trust store"):
		return "tls-partial"
	case strings.Contains(msg, "URL does not represent a Web DID"):
		return "url-no-did-web-form"
	case strings.Contains(msg, "address already in use"):
		return "port"
	case msg == "":
		return "none"
	}
	return "other"
}

// ---- from a config to what the user types --------------------------------------------------------------------

type option struct {
	key     string
	value   any // string, []string, int or bool
	force   string
	fileKey []string // how the key is spelled in the configuration file when it is not simply nested along the dots
}

type world struct {
	vaultAddr string
	pki       string
}

func materialise(c config, dir string, w world) launch {
	l := launch{Env: map[string]string{}}
	var opts []option
	add := func(k string, v any) { opts = append(opts, option{key: k, value: v}) }
	if c.V[fStrict] != "unset" {
		add("strictmode", c.V[fStrict])
	}
	if c.V[fURL] != "empty" {
		add("url", c.URL)
	}
	cert, trust := filepath.Join(w.pki, "certificate-and-key.pem"), filepath.Join(w.pki, "truststore.pem")
	legacy := func(k string, v string) { opts = append(opts, option{key: k, value: v, force: "file-or-env"}) }
	switch c.V[fTLS] + "/" + c.TLSVar {
	case "full/":
		add("tls.certfile", cert)
		add("tls.certkeyfile", cert)
		add("tls.truststorefile", trust)
	case "none/offload-incoming":
		add("tls.offload", "incoming")
	case "none/offload-incoming+clientcertheader":
		add("tls.offload", "incoming")
		add("tls.certheader", "X-SSL-CERT")
	case "partial/cert-only":
		add("tls.certfile", cert)
		add("tls.truststorefile", trust)
	case "partial/key-only":
		add("tls.certkeyfile", cert)
		add("tls.truststorefile", trust)
	case "partial/no-truststore":
		add("tls.certfile", cert)
		add("tls.certkeyfile", cert)
	case "partial/truststore-only":
		add("tls.truststorefile", trust)
	case "legacy/network.certfile":
		legacy("network.certfile", cert)
	case "legacy/network.certkeyfile":
		legacy("network.certkeyfile", cert)
	case "legacy/network.truststorefile":
		legacy("network.truststorefile", trust)
	case "legacy/network.all", "legacy/network.all+tls":
		legacy("network.certfile", cert)
		legacy("network.certkeyfile", cert)
		legacy("network.truststorefile", trust)
		if c.TLSVar == "network.all+tls" {
			add("tls.certfile", cert)
			add("tls.certkeyfile", cert)
			add("tls.truststorefile", trust)
		}
	}
	switch c.V[fCrypto] {
	case "fs":
		add("crypto.storage", "fs")
	case "vaultkv":
		add("crypto.storage", "vaultkv")
		add("crypto.vault.address", w.vaultAddr)
	case "external":
		add("crypto.storage", "external")
		add("crypto.external.address", "http://127.0.0.1:9/keystore")
	}
	switch c.V[fSQL] {
	case "sqlite-file":
		add("storage.sql.connection", "sqlite:file:"+filepath.Join(dir, "sqlite-explicit.db")+"?_pragma=foreign_keys(1)&journal_mode(WAL)")
	case "sqlite-memory":
		add("storage.sql.connection", "sqlite:file::memory:?cache=shared&_pragma=foreign_keys(1)")
	}
	switch {
	case c.V[fValidators] == "default":
	case c.ValList != nil:
		add("auth.contractvalidators", c.ValList)
	case c.V[fValidators] == "irma+employeeid":
		add("auth.contractvalidators", []string{"irma", "employeeid"})
	default:
		add("auth.contractvalidators", []string{c.V[fValidators]})
	}
	l.Spec.DummyMeans = dummySpellings(c.ValList)
	if c.V[fIrma] != "unset" {
		add("auth.irma.schememanager", c.V[fIrma])
	}
	switch c.V[fJSONLD] {
	case "empty":
		opts = append(opts, option{key: "jsonld.contexts.remoteallowlist", value: []string{}, force: "file"})
	case "custom", "custom-shapes":
		add("jsonld.contexts.remoteallowlist", remoteAllowList(c.V[fJSONLD]))
		l.Spec.ListedCtx = listedContext
	}
	switch c.V[fDID] {
	case "web", "nuts":
		add("didmethods", []string{c.V[fDID]})
	case "web+nuts":
		add("didmethods", []string{"web", "nuts"})
	case "nuts+web":
		add("didmethods", []string{"nuts", "web"})
	}
	for _, o := range bystanders(c) {
		opts = append(opts, o)
	}
	switch c.V[fSecret] {
	case "env":
		opts = append(opts, option{key: "crypto.vault.token", value: "verif-vault-token", force: "env"})
	case "file":
		opts = append(opts, option{key: "storage.redis.password", value: "verif-redis-password", force: "file"})
	case "cli":
		opts = append(opts, option{key: c.CLIFlag, value: "verif-secret", force: "flags"})
	}

	rnd := rand.New(rand.NewSource(c.ChanSeed))
	file := map[string]any{}
	l.Args = []string{"server"}
	for _, o := range opts {
		ch := c.V[fChannel]
		if ch == "mixed" {
			ch = []string{"file", "env", "flags"}[rnd.Intn(3)]
		}
		switch o.force {
		case "file", "env", "flags":
			ch = o.force
		case "file-or-env":
			if ch == "flags" {
				ch = "env"
			}
		}
		switch ch {
		case "file":
			if o.fileKey != nil {
				m := file
				for _, p := range o.fileKey[:len(o.fileKey)-1] {
					next, ok := m[p].(map[string]any)
					if !ok {
						next = map[string]any{}
						m[p] = next
					}
					m = next
				}
				m[o.fileKey[len(o.fileKey)-1]] = o.value
			} else {
				setPath(file, o.key, o.value)
			}
		case "env":
			l.Env["NUTS_"+strings.ToUpper(strings.ReplaceAll(o.key, ".", "_"))] = joined(o.value)
		case "flags":
			if _, isBool := o.value.(bool); rnd.Intn(2) == 0 || o.key == "strictmode" || isBool { // a boolean flag takes its value only in the --flag=value form
				l.Args = append(l.Args, "--"+o.key+"="+joined(o.value))
			} else {
				l.Args = append(l.Args, "--"+o.key, joined(o.value))
			}
		}
	}
	if len(file) > 0 {
		data, err := yaml.Marshal(file)
		if err != nil {
			panic(err)
		}
		l.Yaml = string(data)
		cfgFile := filepath.Join(dir, "nuts.yaml")
		if err := os.WriteFile(cfgFile, data, 0o644); err != nil {
			panic(err)
		}
		if c.V[fChannel] == "flags" || c.V[fChannel] == "mixed" && rnd.Intn(2) == 0 {
			l.Args = append(l.Args, "--configfile", cfgFile)
		} else {
			l.Env["NUTS_CONFIGFILE"] = cfgFile
		}
	}
	return l
}

const listedContext = "https://contexts.zorgverlener.nl/afspraken/v1.jsonld"

func joined(v any) string {
	switch t := v.(type) {
	case []string:
		return strings.Join(t, ",")
	case string:
		return t
	}
	return fmt.Sprint(v) // int, bool
}

// cacheBytes is the response cache size a configuration asks for.
func cacheBytes(c config) (int, bool) {
	switch c.V[fCache] {
	case "0":
		return 0, true // response caching off
	case "1":
		return 1, true // on, but nothing fits
	case "large":
		return 100 << 20, true
	case "negative":
		return -1, true
	case "default-spelled-out":
		return 10 << 20, true
	}
	return 10 << 20, false
}

// bystanders are the operational options of a configuration: none of them is mentioned by the documents as having any bearing on what
// strict mode refuses (values typed as a user would write them in YAML).
func bystanders(c config) []option {
	var opts []option
	add := func(k string, v any) { opts = append(opts, option{key: k, value: v}) }
	if n, set := cacheBytes(c); set {
		// the HTTP engine binds this option through the struct tag "cache.maxbytes": in a configuration file it reaches the engine when
		// spelled `http: {cache.maxbytes: N}` (see the assumption in TestCheck); flags and environment use the documented name
		opts = append(opts, option{key: "http.cache.maxbytes", value: n, fileKey: []string{"http", "cache.maxbytes"}})
	}
	ops := c.V[fOps]
	if strings.Contains(ops, "quiet") {
		add("http.log", "nothing")
		add("http.clientipheader", "X-Real-IP")
		add("loggerformat", "json")
	}
	if strings.Contains(ops, "slim") {
		add("vcr.openid4vci.enabled", false)
		add("goldenhammer.enabled", false)
		add("network.enablediscovery", false)
		add("internalratelimiter", false)
	}
	if strings.Contains(ops, "tuned") {
		add("httpclient.timeout", "7s")
		add("vcr.openid4vci.timeout", "7s")
		add("auth.accesstokenlifespan", 900)
		add("auth.clockskew", 1000)
		add("auth.authorizationendpoint.enabled", true)
		add("network.connectiontimeout", 2000)
	}
	return opts
}

func setPath(m map[string]any, key string, v any) {
	parts := strings.Split(key, ".")
	for _, p := range parts[:len(parts)-1] {
		next, ok := m[p].(map[string]any)
		if !ok {
			next = map[string]any{}
			m[p] = next
		}
		m = next
	}
	m[parts[len(parts)-1]] = v
}

// infrastructure settings every operator has to supply in this sandbox (directories, free ports, no scheme downloads)
func infrastructure(l *launch, dir string) {
	in, pub := fmt.Sprintf("127.0.0.1:%d", freePort()), fmt.Sprintf("127.0.0.1:%d", freePort())
	l.Env["NUTS_DATADIR"] = filepath.Join(dir, "data")
	l.Env["NUTS_HTTP_INTERNAL_ADDRESS"] = in
	l.Env["NUTS_HTTP_PUBLIC_ADDRESS"] = pub
	l.Env["NUTS_NETWORK_GRPCADDR"] = fmt.Sprintf("127.0.0.1:%d", freePort())
	l.Env["NUTS_EVENTS_NATS_PORT"] = fmt.Sprint(freePort())
	l.Env["NUTS_EVENTS_NATS_HOSTNAME"] = "127.0.0.1"
	l.Env["NUTS_VERBOSITY"] = "warn"
	l.Env["NUTS_AUTH_IRMA_AUTOUPDATESCHEMAS"] = "false"
	l.Spec.Args = l.Args
	l.Spec.Internal, l.Spec.Public = in, pub
}

// ---- generators ---------------------------------------------------------------------------------------------------

// covering returns rows over the given value-index sizes such that every t-tuple of values of every t factors occurs (greedy, seeded).
func covering(rnd *rand.Rand, sizes []int, t int) [][]int {
	n := len(sizes)
	var subsets [][]int
	var rec func(start int, cur []int)
	rec = func(start int, cur []int) {
		if len(cur) == t {
			subsets = append(subsets, append([]int{}, cur...))
			return
		}
		for i := start; i < n; i++ {
			rec(i+1, append(cur, i))
		}
	}
	rec(0, nil)
	uncovered := make([]map[int]bool, len(subsets))
	total := 0
	for si, ss := range subsets {
		m := map[int]bool{}
		cnt := 1
		for _, f := range ss {
			cnt *= sizes[f]
		}
		for k := 0; k < cnt; k++ {
			m[k] = true
		}
		uncovered[si] = m
		total += cnt
	}
	code := func(ss []int, row []int) int {
		k := 0
		for _, f := range ss {
			k = k*sizes[f] + row[f]
		}
		return k
	}
	gain := func(row []int) int {
		g := 0
		for si, ss := range subsets {
			if uncovered[si][code(ss, row)] {
				g++
			}
		}
		return g
	}
	var rows [][]int
	for total > 0 {
		var best []int
		bestGain := -1
		for cand := 0; cand < 40; cand++ {
			row := make([]int, n)
			for f := range row {
				row[f] = rnd.Intn(sizes[f])
			}
			// seed the candidate with one uncovered tuple so that progress is guaranteed
			si := rnd.Intn(len(subsets))
			for k := 0; k < len(subsets) && len(uncovered[si]) == 0; k++ {
				si = (si + 1) % len(subsets)
			}
			keys := make([]int, 0, len(uncovered[si]))
			for k := range uncovered[si] {
				keys = append(keys, k)
			}
			sort.Ints(keys)
			k := keys[rnd.Intn(len(keys))]
			ss := subsets[si]
			for i := len(ss) - 1; i >= 0; i-- {
				row[ss[i]] = k % sizes[ss[i]]
				k /= sizes[ss[i]]
			}
			if g := gain(row); g > bestGain {
				best, bestGain = row, g
			}
		}
		for si, ss := range subsets {
			k := code(ss, best)
			if uncovered[si][k] {
				delete(uncovered[si], k)
				total--
			}
		}
		rows = append(rows, best)
	}
	return rows
}

func fromRow(vals [][]string, row []int, group string) config {
	c := config{Group: group}
	for f := range row {
		c.V[f] = vals[f][row[f]]
	}
	return c
}

func generate(r *ev.Run, secrets []string) []config {
	th := r.Thorough()
	var out []config
	// G1: product of the values the reference calls secure at start-up, strict mode on: all must run
	secure := [][]string{
		{"unset", "true"}, {"https-domain"}, {"full"}, values(fCrypto, th)[1:], values(fSQL, th)[1:], values(fValidators, th), {"unset", "pbdf"},
		values(fJSONLD, th), values(fDID, th), values(fChannel, th), {"none", "env", "file"}, values(fCache, th), values(fOps, th),
	}
	sizes := func(v [][]string) []int {
		s := make([]int, len(v))
		for i := range v {
			s[i] = len(v[i])
		}
		return s
	}
	rnd := r.Rand("g1")
	for _, row := range covering(rnd, sizes(secure), 2) {
		c := fromRow(secure, row, "secure-product")
		concretise(&c, rnd, secrets)
		out = append(out, c)
	}
	// G2: exactly one insecure / moved / secret-on-CLI setting on a random secure background, strict and non-strict twin
	type dev struct {
		f    int
		v    string
		nuts int // 1: didmethods must include nuts, -1: must exclude nuts
	}
	devs := []dev{{fURL, "http-domain", 0}, {fURL, "https-ip", 0}, {fURL, "https-localhost", 0}, {fURL, "https-reserved", 0}, {fURL, "http-localhost", 0}, {fURL, "empty", 0},
		{fTLS, "none", 1}, {fTLS, "partial", 1}, {fTLS, "none", -1}, {fTLS, "legacy", 0}, {fCrypto, "unset", 0}, {fSQL, "unset", 0}, {fIrma, "irma-demo", 0}, {fSecret, "cli", 0}}
	rnd = r.Rand("g2")
	backgrounds := r.Pick(2, 12)
	for _, d := range devs {
		// every spelling of a deviation that has several (IP literals, TLS variants) is visited at least once in every tier
		nb := backgrounds
		if d.f == fURL && d.v == "https-ip" && len(urlVariants[d.v]) > nb {
			nb = len(urlVariants[d.v])
		}
		if d.f == fTLS && len(tlsVariants[d.v]) > nb {
			nb = len(tlsVariants[d.v])
		}
		if d.f == fSecret && len(values(fChannel, th)) > nb {
			nb = len(values(fChannel, th))
		}
		for b := 0; b < nb; b++ {
			row := make([]int, len(secure))
			for f := range row {
				row[f] = rnd.Intn(len(secure[f]))
			}
			c := fromRow(secure, row, "single-deviation")
			c.V[d.f] = d.v
			switch d.nuts {
			case 1:
				c.V[fDID] = pick(rnd, []string{"unset", "nuts", "web+nuts"})
			case -1:
				c.V[fDID] = "web"
			}
			concretise(&c, rnd, secrets)
			if d.f == fURL && (d.v == "https-reserved" || d.v == "https-ip") {
				// walk through the reserved names / IP spellings instead of drawing them
				c.URL = urlVariants[d.v][(b+int(r.Seed()))%len(urlVariants[d.v])]
			}
			if d.f == fTLS && len(tlsVariants[d.v]) > 1 {
				c.TLSVar = tlsVariants[d.v][(b+int(r.Seed()))%len(tlsVariants[d.v])]
			}
			if d.f == fSecret {
				c.CLIFlag = secrets[(b+int(r.Seed()))%len(secrets)]
				// what else is on the command line beside the secret (nothing, some options, all of them - sorting before and after it)
				// is part of the input: walk through the delivery channels of the other options
				ch := values(fChannel, th)
				c.V[fChannel] = ch[(b+int(r.Seed()))%len(ch)]
			}
			out = append(out, c)
			twin := c
			twin.V[fStrict] = "false"
			twin.Group = "single-deviation-nonstrict-twin"
			out = append(out, twin)
		}
	}
	// G2b: every value of every bystander option with strict mode off on a secure background ("the same settings are accepted with strict
	// mode off" has to be observable on a running node under each of them; in strict mode G1 contains them all)
	rnd = r.Rand("g2b")
	for _, f := range []int{fCache, fOps} {
		for _, v := range values(f, th)[1:] {
			row := make([]int, len(secure))
			for i := range row {
				row[i] = rnd.Intn(len(secure[i]))
			}
			c := fromRow(secure, row, "bystander-nonstrict")
			c.V[fStrict], c.V[f] = "false", v
			if f == fCache {
				c.V[fChannel] = "file" // the channel through which the value reaches the HTTP engine
			}
			concretise(&c, rnd, secrets)
			out = append(out, c)
		}
	}
	// G2c: every way of writing the dummy means into auth.contractvalidators (case, repetition, position amid other means, white space) on a
	// secure background that starts, in strict mode (given and by default) and with strict mode off - all of them in every tier
	rnd = r.Rand("g2c")
	for i, list := range validatorVariants["dummy"] {
		row := make([]int, len(secure))
		for f := range row {
			row[f] = rnd.Intn(len(secure[f]))
		}
		c := fromRow(secure, row, "validator-spellings")
		c.V[fValidators] = "dummy"
		c.V[fStrict] = []string{"true", "unset"}[(i+int(r.Seed()))%2]
		ch := values(fChannel, th)
		c.V[fChannel] = ch[(i+int(r.Seed()))%len(ch)]
		concretise(&c, rnd, secrets)
		c.ValList = list
		out = append(out, c)
		twin := c
		twin.V[fStrict] = "false"
		twin.Group = "validator-spellings-nonstrict-twin"
		out = append(out, twin)
	}
	// G3: covering array over the complete product (pairwise; 3-wise in the thorough tier)
	var all [][]string
	for f := range factors {
		all = append(all, values(f, th))
	}
	rnd = r.Rand("g3")
	for _, row := range covering(rnd, sizes(all), r.Pick(2, 3)) {
		c := fromRow(all, row, "covering-array")
		concretise(&c, rnd, secrets)
		out = append(out, c)
	}
	return out
}

// ---- the check ------------------------------------------------------------------------------------------------------

type result struct {
	c   config
	l   launch
	o   observation
	try int
	// why earlier tries were repeated
	retried []string
}

func fakeVault() *httptest.Server {
	return httptest.NewServer(http.HandlerFunc(func(w http.ResponseWriter, req *http.Request) {
		w.Header().Set("Content-Type", "application/json")
		if strings.HasSuffix(req.URL.Path, "/auth/token/lookup-self") {
			_, _ = w.Write([]byte(`{"data":{"id":"verif","policies":["default"]}}`))
			return
		}
		w.WriteHeader(http.StatusNotFound)
		_, _ = w.Write([]byte(`{"errors":[]}`))
	}))
}

func runOne(c config, w world, thorough bool) result {
	res := result{c: c}
	why := ""
	for try := 1; try <= 3; try++ {
		dir, err := os.MkdirTemp("", "c20-")
		if err != nil {
			panic(err)
		}
		prepareIrma(filepath.Join(dir, "data"))
		l := materialise(c, dir, w)
		l.Spec.DummyProbe = true
		l.Spec.Outbound = outboundClasses()
		l.Spec.Contexts, l.Spec.Carriers = contextBattery(c, thorough)
		infrastructure(&l, dir)
		o := runChild(dir, l)
		os.RemoveAll(dir)
		res.l, res.o, res.try = l, o, try
		if try > 1 {
			res.retried = append(res.retried, why)
		}
		why = "no-verdict(timedout=" + fmt.Sprint(o.TimedOut) + ")"
		if o.Refused {
			why = classify(o.RefusalMsg) + ": " + short(o.RefusalMsg)
		}
		// a refusal that is not about the configuration (port taken by another process, internal event stream not up in time on a loaded machine) is tried again
		class := classify(o.RefusalMsg)
		decided := o.Running || o.Refused && class != "port" && class != "other"
		if decided || o.Exited && o.ExitedMsg != "" {
			break
		}
	}
	return res
}

func TestCheck(t *testing.T) {
	r := ev.Start(t, "C20", "exploration")
	defer r.Finish()
	r.SetRule("cases = configurations of the assembled node (strictmode x url x tls.* x crypto.storage x storage.sql.connection x auth.contractvalidators x " +
		"auth.irma.schememanager x jsonld.contexts.remoteallowlist x didmethods x delivery channel x secret delivery x bystander options the documents do not connect with strict mode: " +
		"http.cache.maxbytes {unset, 0, 1, large, negative} x operational bundle {logging, optional subsystems off, time-outs}), generated from the seed as (1) a pairwise covering array over the " +
		"start-up-secure values in strict mode, (2) every single insecure/moved/CLI-secret setting on random secure backgrounds with its non-strict twin, (3) a covering array over the " +
		"complete product (pairwise quick, 3-wise thorough), (4) every way of writing the dummy means into auth.contractvalidators (letter case, repeated, amid/before/after other means, the " +
		"default list spelled out, white space) on a secure background in strict mode and with strict mode off, and a seeded spelling/list variant of the validators value in all other groups; " +
		"on every running node the dummy means is tried (signing session as 'dummy' and under each configured spelling, verification of an unsigned dummy presentation); each is started with the real `nuts server` command in its own child process. Plus outbound cases (strictmode, constructor, cache, " +
		"method, URL class, redirect chain) through the real http/client, with the client switched through the package variables and through the real HTTP engine's Configure (strictmode x http.cache.maxbytes, " +
		"fresh-process state before each). Plus, on every running node, JSON-LD context cases (allow list configuration, strictmode, " +
		"route = document loader | JSON-LD reader | VC search API, listed entry, kind of look-alike URL derived from it: prefix extensions, truncations, suffix/substring embeddings, same host/other " +
		"path, other host/same path, scheme, case, port, trailing dot, userinfo, percent-encoding, whitespace, dot segments, seeded random variants; listed contexts whose server nests/imports/" +
		"redirects to/links an unlisted one), judged on the requests seen at the transport against exact membership in the configured list. A case is non-trivial when the child reported a decisive observation (refusal with its error, or a running node " +
		"with its probes) / the request outcome was recorded; distinct by the full configuration (values and concrete variants, incl. the validators list as written) resp. the outbound case tuple resp. " +
		"(list configuration, mode, route, kind, entry).")
	r.Require(r.Pick(60, 400), r.Pick(50, 300))
	r.Assume("network TLS on/off is the tls.* factor: this version has no network.enabletls, TLS is on iff tls.certfile/tls.certkeyfile are set")
	r.Assume("the IRMA scheme directory is pre-populated with the signed empty scheme the repository ships (development/irma/empty) and auth.irma.autoupdateschemas=false: there is no internet")
	r.Assume("http.cache.maxbytes reaches the HTTP engine of the assembled node only from a configuration file that spells it `http: {cache.maxbytes: N}` (the engine's struct tag is dotted); " +
		"through --http.cache.maxbytes, NUTS_HTTP_CACHE_MAXBYTES and the nested YAML form the engine keeps its default (observed at the engine, counted as unspecified). The file channel therefore " +
		"uses the effective spelling; which cache size a running node really had is read from its HTTP engine")
	r.Assume("vaultkv is backed by a fake Vault in the check process that only answers the token self-lookup; remote hosts of outbound requests are listeners inside the child process")

	secrets, nflags := secretFlags()
	if len(secrets) == 0 {
		r.Fatalf("no secret flags found in the server flag set")
	}
	r.Extra("server_flags", nflags)
	r.Extra("secret_flags", secrets)
	vault := fakeVault()
	defer vault.Close()
	w := world{vaultAddr: vault.URL, pki: filepath.Join(repoDir(), "test", "pki")}

	cases := generate(r, secrets)
	thorough := r.Thorough()
	results := make([]result, len(cases))
	var wg sync.WaitGroup
	work := make(chan int)
	for k := 0; k < 10; k++ {
		wg.Add(1)
		go func() {
			defer wg.Done()
			for i := range work {
				results[i] = runOne(cases[i], w, thorough)
			}
		}()
	}
	// the direct part (real http/client in THIS process) shares nothing with the child processes: it runs beside them
	directDone := make(chan struct{})
	go func() {
		defer close(directDone)
		outboundDirect(t, r)
	}()
	for i := range cases {
		work <- i
	}
	close(work)
	wg.Wait()

	for _, res := range results {
		evaluate(r, res)
	}
	coverage(r, cases)
	bystanderCoverage(r, results)
	validatorCoverage(r, results)
	batteryCoverage(r, results)
	<-directDone
	for _, s := range directSamples {
		r.Sample(s)
	}
}

func witness(res result) map[string]any {
	return map[string]any{"config": res.c, "args": res.l.Args, "env": res.l.Env, "configfile": res.l.Yaml,
		"refused": res.o.Refused, "refusal": res.o.RefusalMsg, "running": res.o.Running, "exited": res.o.ExitedMsg, "ledger_head": head(res.o.Raw, 8), "output_tail": tail(res.o.Output, 1500)}
}

func head(s []string, n int) []string {
	if len(s) > n {
		return s[:n]
	}
	return s
}

var sampled = map[string]int{}

func evaluate(r *ev.Run, res result) {
	c, o := res.c, res.o
	exp := reference(c)
	mode := "strict"
	if !c.strict() {
		mode = "nonstrict"
	}
	refused := !o.Running && (o.Refused || o.Exited && o.ExitedMsg != "")
	msg := o.RefusalMsg
	if !o.Refused {
		msg = o.ExitedMsg
	}
	if !refused && !o.Running {
		r.Case(c.fingerprint(), false)
		r.Inconclusive(fmt.Sprintf("child reported neither a refusal nor a running node (exit=%d timedout=%v tries=%d): %s", o.ExitCode, o.TimedOut, res.try, tail(o.Output, 400)))
		return
	}
	r.Case(c.fingerprint(), true)
	r.Count("configurations_run", 1)
	r.Count("group_"+c.Group, 1)
	for _, why := range res.retried {
		r.Count("retried_runs", 1)
		r.Distinct("retry_reasons", why)
		fmt.Printf("NOTE property=C20 run repeated: %s\n", why)
	}
	if refused {
		r.Count("refused_"+mode, 1)
		class := classify(msg)
		r.Count("refusal_"+class, 1)
		r.Distinct("refusal_messages", class+"/"+mode)
		if o.EverReachable || o.ListenerAtExit {
			r.Violation("C20/refused-after-listening/"+class, fmt.Sprintf("start-up was refused (%s) but the HTTP interface had been reachable (status answered=%v, listener open at exit=%v)", short(msg), o.EverReachable, o.ListenerAtExit), witness(res))
		}
		switch {
		case class == "other" || class == "port" || class == "none":
			r.Inconclusive("refused for a reason outside the configuration under test: " + short(msg))
		case !exp.allowed[class]:
			r.Violation("C20/"+mode+"/refused-for-setting-the-reference-calls-acceptable/"+class,
				fmt.Sprintf("%s mode: start-up refused (%s) although the documented list does not make this setting refusable here", mode, short(msg)), witness(res))
		case !exp.mustRefuse && exp.mayRefuse:
			for _, u := range exp.unspecified {
				r.Unspecified(u + " -> refused")
			}
		}
		if sampled["refused/"+mode] < 1 {
			sampled["refused/"+mode]++
			r.Sample(map[string]any{"outcome": "refused", "mode": mode, "config": c.V, "url": c.URL, "variant": c.TLSVar + c.CLIFlag, "args": res.l.Args, "error": short(msg), "status_ever_reachable": o.EverReachable})
		}
		return
	}
	// running
	r.Count("started_"+mode, 1)
	if exp.mustRefuse {
		sort.Strings(exp.reasons)
		r.Violation("C20/"+mode+"/insecure-configuration-started/"+keyOf(exp.reasons),
			fmt.Sprintf("%s mode: the node started although: %s", mode, strings.Join(exp.reasons, "; ")), witness(res))
	} else if exp.mayRefuse {
		for _, u := range exp.unspecified {
			r.Unspecified(u + " -> started")
		}
	}
	for _, a := range res.l.Args {
		if strings.HasPrefix(a, "--storage.sql.connection") {
			r.Unspecified("storage.sql.connection (redacted as a secret in the logged configuration) accepted on the command line: not a 'token'/'password' option")
		}
	}
	if o.ConfigStrict != c.strict() {
		r.Violation("C20/strictmode-not-effective", fmt.Sprintf("strictmode given as %q but the running node has strictmode=%v", c.V[fStrict], o.ConfigStrict), witness(res))
	}
	if o.ClientStrict != c.strict() {
		r.Violation("C20/http-client-strictmode-mismatch", fmt.Sprintf("node runs with strictmode=%v but its HTTP client has StrictMode=%v", c.strict(), o.ClientStrict), witness(res))
	}
	if want, set := cacheBytes(c); set && o.CacheBytes != want {
		r.Unspecified("http.cache.maxbytes given through flag/environment did not reach the HTTP engine (engine keeps its default): not a strict mode matter")
		r.Count("cache_size_not_effective", 1)
	} else if set {
		r.Count("cache_size_effective", 1)
	}
	if o.CacheActive != (o.CacheBytes > 0) {
		r.Unspecified("caching transport installed although the engine's cache size is <= 0, or the reverse")
	}
	if !o.Stopped {
		r.Inconclusive("running node was not observed to stop: " + tail(o.Output, 300))
	}
	evaluateProbes(r, res, mode)
	if sampled["running/"+mode] < 1 {
		sampled["running/"+mode]++
		r.Sample(map[string]any{"outcome": "running", "mode": mode, "config": c.V, "url": c.URL, "args": res.l.Args, "probes": len(o.Probes), "jsonld_context_example": ctxExample})
	}
}

func keyOf(reasons []string) string {
	k := strings.Join(reasons, "+")
	k = strings.NewReplacer(" ", "-", "(", "", ")", "", "'", "").Replace(k)
	return k
}

// guardedIAM are the IAM client entry points for which the code documents validation of the remote URL with ParsePublicURL(strictmode)
var guardedIAM = map[string]bool{"iam.ClientMetadata": true, "iam.PresentationDefinition": true, "iam.RequestObjectByGet": true, "iam.RequestObjectByPost": true,
	"iam.AuthorizationServerMetadata": true, "iam.OpenIDConfiguration": true, "iam.OpenIdCredentialIssuerMetadata": true, "iam.PostError": true,
	"iam.PostAuthorizationResponse": true, "iam.AccessToken": true}

// schemeOnlyVia: consumers judged on plain-HTTP URLs only (see evaluateOutbound)
var schemeOnlyVia = map[string]bool{"auth.RelyingParty.RequestRFC003AccessToken": true}

func plainAttempts(attempts []string) []string {
	var out []string
	for _, a := range attempts {
		if strings.HasPrefix(a, "http ") || strings.HasPrefix(a, "dial-plain ") {
			out = append(out, a)
		}
	}
	return out
}

func evaluateProbes(r *ev.Run, res result, mode string) {
	c := res.c
	strict := c.strict()
	// the documented spelling is on the list (or the list is the default, which names it); otherSpelling: only spellings the documents do not mention
	exact, folded := dummyListed(c.ValList)
	dummyConfigured := c.V[fValidators] == "default" || exact
	otherSpelling := !dummyConfigured && folded
	written := c.V[fValidators]
	if c.ValList != nil {
		written = fmt.Sprintf("%q", c.ValList)
	}
	seen := map[string]bool{}
	for _, p := range res.o.Probes {
		seen[p.Probe] = true
		r.Count("probes", 1)
		w := map[string]any{"probe": p, "config": c, "args": res.l.Args, "env": res.l.Env, "configfile": res.l.Yaml}
		switch p.Probe {
		case "dummy-session", "dummy-verify", "dummy-session-as-configured":
			if strict && c.ValList != nil {
				r.Distinct("validator_lists_probed_on_strict_node", strings.Join(c.ValList, ","))
			}
			switch {
			case p.Status == 0 && p.Err != "":
				r.Inconclusive("no response from the node for " + p.Probe + ": " + p.Err)
			case strict && p.OK:
				r.Violation("C20/strict/dummy-means-usable/"+p.Probe, "strict mode: the dummy authentication means was accepted ("+p.Probe+", auth.contractvalidators="+written+")", w)
			case strict:
				r.Count("strict_dummy_refused", 1)
			case p.Probe == "dummy-session-as-configured":
				// the request names the means the way the configuration spells it: which names the API knows it by is not documented
				if p.OK {
					r.Count("nonstrict_dummy_other_spelling_accepted", 1)
				} else {
					r.Unspecified("non-strict: signing session asked for under the configured spelling of the dummy means (not 'dummy') -> not available")
				}
			case dummyConfigured && !p.OK:
				r.Violation("C20/nonstrict/dummy-means-refused/"+p.Probe, fmt.Sprintf("strict mode off and dummy configured, but %s was refused: %d %s", p.Probe, p.Status, p.Msg), w)
			case dummyConfigured:
				r.Count("nonstrict_dummy_accepted", 1)
			case otherSpelling && p.OK:
				r.Count("nonstrict_dummy_other_spelling_accepted", 1)
			case otherSpelling:
				r.Unspecified("non-strict: dummy means written other than the documented lowercase 'dummy' (case, white space) -> not available")
			}
		case "jsonld-unlisted", "jsonld-unlisted-http":
			switch {
			case strict && (p.OK || len(p.Attempts) > 0):
				r.Violation("C20/strict/unlisted-jsonld-context-fetched", fmt.Sprintf("strict mode: context %s is not on the allow list (%s) but was requested/loaded (attempts=%v)", p.URL, c.V[fJSONLD], p.Attempts), w)
			case strict:
				r.Count("strict_unlisted_context_refused", 1)
			case !p.OK || len(p.Attempts) == 0:
				r.Violation("C20/nonstrict/unlisted-jsonld-context-refused", fmt.Sprintf("strict mode off: remote context %s was not fetched: %s", p.URL, p.Err), w)
			default:
				r.Count("nonstrict_unlisted_context_fetched", 1)
			}
		case "jsonld-listed":
			if !p.OK || len(p.Attempts) == 0 {
				r.Violation("C20/"+mode+"/listed-jsonld-context-refused", fmt.Sprintf("context %s is on the configured allow list but was not fetched: %s", p.URL, p.Err), w)
			} else {
				r.Count("listed_context_fetched", 1)
			}
		case "jsonld-embedded":
			if !p.OK || len(p.Attempts) > 0 {
				r.Violation("C20/"+mode+"/embedded-jsonld-context", fmt.Sprintf("embedded context %s: err=%q attempts=%v", p.URL, p.Err, p.Attempts), w)
			}
		case "outbound":
			evaluateOutbound(r, "node", strict, p, w)
		}
	}
	evaluateContexts(r, res, mode)
	for _, must := range []string{"dummy-session", "jsonld-unlisted", "outbound"} {
		if !seen[must] {
			r.Inconclusive("running node without " + must + " probe result")
		}
	}
}

// evaluateOutbound judges one outbound request observation (from a node's clients or from the direct part).
func evaluateOutbound(r *ev.Run, where string, strict bool, p ledgerLine, w map[string]any) {
	mode := "strict"
	if !strict {
		mode = "nonstrict"
	}
	attempted := len(p.Attempts) > 0
	plain := plainAttempts(p.Attempts)
	r.Distinct("outbound_classes_x_mode_x_attempted", fmt.Sprintf("%s/%s/%s/attempted=%v", p.Class, p.Via, mode, attempted))
	r.Count(fmt.Sprintf("outbound_%s_%s_attempted_%v", mode, p.Class, attempted), 1)
	if strings.HasPrefix(p.Err, "panic:") {
		r.Violation("C20/panic/"+p.Via, "outbound request panicked: "+p.Err, w)
		return
	}
	if schemeOnlyVia[p.Via] {
		// a consumer that talks TLS with the node's own trust store: the fake remote hosts fail its handshake, so only what happens to
		// plain-HTTP URLs is observable through it
		switch {
		case strict && len(plain) > 0:
			r.Violation("C20/strict/plain-http-attempted/"+p.Via+"/"+p.Class, fmt.Sprintf("strict mode: a plain-HTTP request left the client (%s, %s): %v", p.Via, p.URL, plain), w)
		case strict && strings.HasPrefix(p.Class, "http-") && p.OK:
			r.Violation("C20/strict/plain-http-reported-success/"+p.Via+"/"+p.Class, "strict mode: request to "+p.URL+" reported success", w)
		case strict && strings.HasPrefix(p.Class, "http-"):
			r.Count("strict_plain_http_refused", 1)
		case !strict && strings.HasPrefix(p.Class, "http-") && len(plain) == 0:
			r.Violation("C20/nonstrict/request-refused/"+p.Via+"/"+p.Class, fmt.Sprintf("strict mode off: request to %s was not sent (%s): %s", p.URL, p.Via, p.Err), w)
		case !strict && strings.HasPrefix(p.Class, "http-"):
			r.Count("nonstrict_requests_sent", 1)
		}
		return
	}
	expectPlain := strings.HasPrefix(p.Class, "http-") || strings.HasSuffix(p.Class, "-to-http") || strings.Contains(p.Class, "-to-http-")
	hostClass := strings.HasSuffix(p.Class, "-ip") || strings.HasSuffix(p.Class, "-localhost") || strings.HasSuffix(p.Class, "-reserved")
	if strict {
		if len(plain) > 0 {
			r.Violation("C20/strict/plain-http-attempted/"+p.Via+"/"+p.Class, fmt.Sprintf("strict mode: a plain-HTTP request left the client (%s, %s): %v", p.Via, p.URL, plain), w)
			return
		}
		if expectPlain {
			if p.OK {
				r.Violation("C20/strict/plain-http-reported-success/"+p.Via+"/"+p.Class, "strict mode: request to "+p.URL+" reported success", w)
			}
			r.Count("strict_plain_http_refused", 1)
			return
		}
		if hostClass && strings.HasPrefix(p.Class, "https-") {
			if guardedIAM[p.Via] {
				if attempted {
					r.Violation("C20/strict/ip-or-reserved-host-requested/"+p.Via, fmt.Sprintf("strict mode: %s sent a request to %s (%s), which ParsePublicURL(strict) is documented to refuse", p.Via, p.URL, p.Class), w)
				} else {
					r.Count("strict_iam_ip_or_reserved_refused", 1)
				}
			} else if attempted {
				r.Unspecified("strict: https request to IP/reserved host through " + strings.SplitN(p.Via, "/", 2)[0] + " attempted (only the scheme is documented to be checked there)")
			}
			return
		}
		if p.Class == "https-domain" && !attempted {
			r.Violation("C20/strict/https-request-refused/"+p.Via, fmt.Sprintf("strict mode: https request to a public domain was not sent (%s): %s", p.Via, p.Err), w)
		}
		return
	}
	// strict mode off: the same URLs are accepted
	if !attempted {
		r.Violation("C20/nonstrict/request-refused/"+p.Via+"/"+p.Class, fmt.Sprintf("strict mode off: request to %s was not sent (%s): %s", p.URL, p.Via, p.Err), w)
		return
	}
	if expectPlain && len(plain) == 0 {
		r.Violation("C20/nonstrict/plain-http-not-followed/"+p.Via+"/"+p.Class, fmt.Sprintf("strict mode off: no plain-HTTP request observed for %s (%s): %v %s", p.URL, p.Via, p.Attempts, p.Err), w)
		return
	}
	r.Count("nonstrict_requests_sent", 1)
	_ = where
}

// bystanderCoverage: every value of the bystander options has to have been seen on a RUNNING node in strict mode and with strict mode
// off, with the outbound probes carried out there - otherwise "strict mode holds under every operational setting" was not observed at all.
func bystanderCoverage(r *ev.Run, results []result) {
	seen := map[string]int{}
	for _, res := range results {
		if !res.o.Running {
			continue
		}
		outbound := 0
		for _, p := range res.o.Probes {
			if p.Probe == "outbound" {
				outbound++
			}
		}
		if outbound == 0 {
			continue
		}
		mode := "strict"
		if !res.c.strict() {
			mode = "nonstrict"
		}
		for _, f := range []int{fCache, fOps} {
			if want, set := cacheBytes(res.c); f == fCache && set && res.o.CacheBytes != want {
				seen[factors[f].name+"="+res.c.V[f]+"(not effective)/"+mode]++
				continue
			}
			k := factors[f].name + "=" + res.c.V[f] + "/" + mode
			seen[k]++
			r.Distinct("bystander_value_x_mode_on_running_node", k)
		}
	}
	r.Extra("bystander_values_on_running_nodes", seen)
	for _, f := range []int{fCache, fOps} {
		for _, v := range values(f, r.Thorough()) {
			for _, mode := range []string{"strict", "nonstrict"} {
				if seen[factors[f].name+"="+v+"/"+mode] == 0 {
					r.Inconclusive("no running " + mode + " node with " + factors[f].name + "=" + v + " carried out the outbound probes")
				}
			}
		}
	}
}

// validatorCoverage: every way of writing the dummy means has to have been tried on a RUNNING node in strict mode and with strict mode off
// (session and verification probe answered) - otherwise nothing was observed about that spelling.
func validatorCoverage(r *ev.Run, results []result) {
	seen := map[string]int{}
	for _, res := range results {
		if !res.o.Running || res.c.V[fValidators] != "dummy" {
			continue
		}
		answered := 0
		for _, p := range res.o.Probes {
			if (p.Probe == "dummy-session" || p.Probe == "dummy-verify") && p.Status != 0 {
				answered++
			}
		}
		if answered < 2 {
			continue
		}
		mode := "strict"
		if !res.c.strict() {
			mode = "nonstrict"
		}
		k := fmt.Sprintf("%q/%s", res.c.ValList, mode)
		seen[k]++
		r.Distinct("dummy_spelling_x_mode_on_running_node", k)
	}
	r.Extra("dummy_spellings_on_running_nodes", seen)
	for _, list := range validatorVariants["dummy"] {
		for _, mode := range []string{"strict", "nonstrict"} {
			if seen[fmt.Sprintf("%q/%s", list, mode)] == 0 {
				r.Inconclusive(fmt.Sprintf("no running %s node with auth.contractvalidators=%q answered the dummy probes", mode, list))
			}
		}
	}
}

// coverage measures which option-value pairs the executed configurations contain.
func coverage(r *ev.Run, cases []config) {
	th := r.Thorough()
	possible, covered := 0, 0
	pairs := map[string]bool{}
	for _, c := range cases {
		for i := 0; i < len(factors); i++ {
			for j := i + 1; j < len(factors); j++ {
				pairs[fmt.Sprintf("%d=%s&%d=%s", i, c.V[i], j, c.V[j])] = true
			}
		}
	}
	var missing []string
	for i := 0; i < len(factors); i++ {
		for j := i + 1; j < len(factors); j++ {
			for _, a := range values(i, th) {
				for _, b := range values(j, th) {
					possible++
					if pairs[fmt.Sprintf("%d=%s&%d=%s", i, a, j, b)] {
						covered++
					} else if len(missing) < 10 {
						missing = append(missing, factors[i].name+"="+a+" & "+factors[j].name+"="+b)
					}
				}
			}
		}
	}
	r.Extra("option_value_pairs_possible", possible)
	r.Extra("option_value_pairs_covered", covered)
	if len(missing) > 0 {
		r.Extra("option_value_pairs_missing_sample", missing)
	}
	urls, variants := map[string]bool{}, map[string]bool{}
	for _, c := range cases {
		urls[c.URL] = true
		variants[c.V[fTLS]+"/"+c.TLSVar] = true
		if c.CLIFlag != "" {
			variants["cli/"+c.CLIFlag] = true
		}
	}
	r.Extra("distinct_url_values", len(urls))
	r.Extra("distinct_tls_and_cli_variants", len(variants))
	if covered < possible {
		r.Fatalf("pairwise coverage incomplete: %d of %d option-value pairs (e.g. %v)", covered, possible, missing)
	}
}
