package c20

// Remote JSON-LD contexts: "In strict mode, fetching external JSON-LD contexts is not allowed except for context-URLs listed
// here [jsonld.contexts.remoteallowlist]" (option description), local mappings "have precedence over those in remoteallowlist",
// and the same URLs are accepted with strict mode off (property statement).
//
// Workload: for every entry of the configured allow list and of the local mapping the parent derives context URLs that are NOT
// on the list but look like the entry (string-prefix extensions, truncations, the entry as suffix/substring of a foreign URL, same host
// with another path, same path on another host, scheme/case/port/trailing-dot/userinfo/percent-encoding/whitespace/dot-segment
// variants). The running node's own document loader (the JSON-LD engine configured from the real configuration) is asked for each
// of them directly, through the node's JSON-LD reader (expansion of a document that names the context) and through the REST API a
// client application uses (VC search with a JSON-LD query). Listed entries are the controls. Contexts that ARE listed but whose
// server points elsewhere (nested context, redirect, Link: alternate) are the transitive neighbours.
//
// Observation: the requests that reach http.DefaultTransport (the transport of the JSON-LD library's HTTP loader; replaced by a
// recorder in the child process) with their complete URL, and the result of the load.
//
// Reference: computed here from the list the parent configured (documented defaults for "default"), with net/url only:
// exact string membership. Every requested URL is related to the list: listed / equivalent-spelling (same resource after RFC 3986
// normalisation: not decided by the documents, counted) / plain-http / same-host-other-resource / other-host.

import (
	"fmt"
	"math/rand"
	"net/http"
	"net/url"
	"sort"
	"strconv"
	"strings"

	"verif/lib/ev"
)

// documented defaults (docs/pages/deployment/server_options.rst, jsonld.contexts.remoteallowlist / jsonld.contexts.localmapping)
var docRemoteAllowList = []string{
	"https://schema.org",
	"https://www.w3.org/2018/credentials/v1",
	"https://w3c-ccg.github.io/lds-jws2020/contexts/lds-jws2020-v1.json",
	"https://w3id.org/vc/status-list/2021/v1",
}

var docLocalMapping = []string{
	"https://nuts.nl/credentials/2024",
	"https://nuts.nl/credentials/v1",
	"https://schema.org",
	"https://w3c-ccg.github.io/lds-jws2020/contexts/lds-jws2020-v1.json",
	"https://w3id.org/vc/status-list/2021/v1",
	"https://www.w3.org/2018/credentials/v1",
}

// entries of the "custom-shapes" allow list: a directory-like entry, an entry with a port, one with a query, and listed contexts
// whose (fake) server refers to an unlisted location
const (
	listedDir           = "https://contexts.zorgverlener.nl/afspraken/"
	listedPort          = "https://ctx.zorgnetwerk.nl:8443/profielen/v2"
	listedQuery         = "https://ctx.zorgnetwerk.nl/context?versie=3"
	carrierNested       = "https://contexts.zorgverlener.nl/carrier/nested.jsonld"
	carrierRedirect     = "https://contexts.zorgverlener.nl/carrier/moved.jsonld"
	carrierRedirectHTTP = "https://contexts.zorgverlener.nl/carrier/moved-plain.jsonld"
	carrierLink         = "https://contexts.zorgverlener.nl/carrier/alternate.html"
	carrierImport       = "https://contexts.zorgverlener.nl/carrier/import.jsonld"
)

var carrierTargets = map[string]carrier{
	carrierNested:       {Kind: "nested", Target: "https://contexts.onbekende-partij.nl/nested/v1.jsonld"},
	carrierRedirect:     {Kind: "redirect", Target: "https://contexts.onbekende-partij.nl/moved/v1.jsonld"},
	carrierRedirectHTTP: {Kind: "redirect", Target: "http://contexts.onbekende-partij.nl/moved/v2.jsonld"},
	carrierLink:         {Kind: "link", Target: "https://contexts.onbekende-partij.nl/alternate/v1.jsonld"},
	carrierImport:       {Kind: "import", Target: "https://contexts.onbekende-partij.nl/imported/v1.jsonld"},
}

// remoteAllowList is the allow list the parent configures for a value of the jsonld factor.
func remoteAllowList(v string) []string {
	switch v {
	case "empty":
		return []string{}
	case "custom":
		return []string{listedContext, "https://schema.org"}
	case "custom-shapes":
		return []string{listedContext, listedDir, "https://www.w3.org/2018/credentials/v1", listedPort, listedQuery,
			carrierNested, carrierImport, carrierRedirect, carrierRedirectHTTP, carrierLink}
	}
	return docRemoteAllowList
}

// ctxProbe is one context URL the child asks the node for.
type ctxProbe struct {
	N     int    `json:"n"`
	Kind  string `json:"kind"`
	Entry string `json:"entry,omitempty"` // the listed URL it was derived from
	URL   string `json:"url"`
	Route string `json:"route"` // loader | expand | api
}

type carrier struct {
	Kind   string `json:"kind"` // nested | import | redirect | link
	Target string `json:"target"`
}

var evilHosts = []string{"aanvaller.nl", "contexts.onbekende-partij.nl", "evil-host.example.org", "198.51.100.66", "aanvaller.nl:8443", "xn--anvaller-0za.nl"}

type variant struct {
	kind string
	url  string
	tok  bool // the URL carries the token: a fresh URL can be made for another route
}

// hostile derives the look-alikes of one listed URL. evil is a foreign host, tok a unique path token.
func hostile(e, evil, tok string) []variant {
	u, err := url.Parse(e)
	if err != nil || u.Host == "" {
		return nil
	}
	scheme, host, hostname, port := u.Scheme, u.Host, u.Hostname(), u.Port()
	rest := strings.TrimPrefix(e, scheme+"://"+host) // path and query as written
	path := u.EscapedPath()
	hostOnly := rest == ""
	var out []variant
	add := func(kind, url string, tok bool) { out = append(out, variant{kind, url, tok}) }

	// --- the entry is a string prefix of the URL
	add("prefix-userinfo", e+"@"+evil+"/"+tok, true)
	add("prefix-userinfo-password", e+":x@"+evil+"/"+tok, true)
	add("prefix-label", e+"."+evil+"/"+tok, true)
	add("prefix-hyphen-label", e+"-"+evil+"/"+tok, true)
	add("prefix-port", e+":8443/"+tok, true)
	add("prefix-path", e+"/"+tok, true)
	add("prefix-slash", e+"/", false)
	add("prefix-char", e+"x", false)
	add("prefix-digit", e+"1", false)
	add("prefix-query", e+"?ctx="+tok, true)
	add("prefix-ampersand", e+"&ctx="+tok, true)
	add("prefix-fragment", e+"#"+tok, true)
	add("prefix-dot", e+".", false)
	add("prefix-semicolon", e+";"+tok, true)
	add("prefix-encoded-slash", e+"%2F"+tok, true)
	add("prefix-encoded-at", e+"%40"+evil+"/"+tok, true)
	add("prefix-backslash-at", e+"\\@"+evil+"/"+tok, true)
	add("prefix-dotdot", e+"/../"+tok, true)
	add("prefix-space", e+" ", false)
	add("prefix-tab", e+"\t", false)
	add("prefix-newline", e+"\n", false)
	add("prefix-nul", e+"\x00", false)
	add("prefix-encoded-space", e+"%20", false)
	// --- the URL is a string prefix of the entry
	add("truncated-last-char", e[:len(e)-1], false)
	if !hostOnly {
		add("truncated-origin", scheme+"://"+host, false)
		add("truncated-origin-slash", scheme+"://"+host+"/", false)
		if i := strings.LastIndex(strings.TrimSuffix(path, "/"), "/"); i >= 0 {
			add("truncated-parent", scheme+"://"+host+path[:i+1], false)
			if i > 0 {
				add("truncated-parent-no-slash", scheme+"://"+host+path[:i], false)
			}
		}
		if u.RawQuery != "" {
			add("truncated-query", scheme+"://"+host+path, false)
		}
	} else if i := strings.LastIndex(hostname, "."); i > 0 {
		add("truncated-tld", scheme+"://"+hostname[:i], false)
	}
	// --- the entry is a suffix / substring of the URL
	add("suffix-path", "https://"+evil+"/"+tok+"/"+e, true)
	add("suffix-query", "https://"+evil+"/"+tok+"?context="+e, true)
	add("suffix-fragment", "https://"+evil+"/"+tok+"#"+e, true)
	add("suffix-userinfo-host", scheme+"://"+tok+"@"+host+rest, true) // the entry without its scheme is a suffix; same resource, with credentials
	add("leading-space", " "+e, false)
	add("leading-newline", "\n"+e, false)
	add("substring", "https://"+evil+"/"+tok+"/"+e+"/"+tok, true)
	// --- same host, other resource / same resource name on another host
	add("samehost-other-path", scheme+"://"+host+"/"+tok, true)
	if !hostOnly {
		if i := strings.LastIndex(strings.TrimSuffix(path, "/"), "/"); i >= 0 {
			add("samehost-sibling", scheme+"://"+host+path[:i+1]+tok, true)
		}
		add("otherhost-same-path", scheme+"://"+evil+rest, false)
	} else {
		add("otherhost-same-path", scheme+"://"+evil, false)
	}
	add("host-subdomain", scheme+"://"+tok+"."+host+rest, true)
	add("host-label-prefix", scheme+"://"+tok+hostname+portSuffix(port)+rest, true)
	add("host-label-prefix-hyphen", scheme+"://"+tok+"-"+hostname+portSuffix(port)+rest, true)
	if strings.HasPrefix(hostname, "www.") {
		add("host-without-www", scheme+"://"+strings.TrimPrefix(hostname, "www.")+portSuffix(port)+rest, false)
	} else {
		add("host-with-www", scheme+"://www."+host+rest, false)
	}
	add("host-homoglyph", scheme+"://"+homoglyph(hostname)+portSuffix(port)+rest, false)
	// --- scheme
	add("scheme-http", "http://"+host+rest, false)
	add("scheme-http-path", "http://"+host+"/"+tok, true)
	add("scheme-upper", strings.ToUpper(scheme)+"://"+host+rest, false)
	add("scheme-mixed-case", "hTTps://"+host+rest, false)
	add("scheme-single-slash", scheme+":/"+host+rest, false)
	add("scheme-missing", "//"+host+rest, false)
	// --- case
	add("case-host-upper", scheme+"://"+strings.ToUpper(hostname)+portSuffix(port)+rest, false)
	add("case-host-title", scheme+"://"+strings.ToUpper(hostname[:1])+hostname[1:]+portSuffix(port)+rest, false)
	if rest != strings.ToUpper(rest) {
		add("case-path-upper", scheme+"://"+host+strings.ToUpper(rest), false)
		add("case-all-upper", strings.ToUpper(e), false)
		add("case-path-one-letter", scheme+"://"+host+flipLastLetter(rest), false)
	} else {
		add("case-all-upper", strings.ToUpper(e), false)
	}
	// --- host spelling and port
	add("host-trailing-dot", scheme+"://"+hostname+"."+portSuffix(port)+rest, false)
	if port == "" {
		add("port-default-explicit", scheme+"://"+hostname+":443"+rest, false)
		add("port-other", scheme+"://"+hostname+":8443"+rest, false)
		add("port-empty", scheme+"://"+hostname+":"+rest, false)
		add("port-80", scheme+"://"+hostname+":80"+rest, false)
	} else {
		add("port-dropped", scheme+"://"+hostname+rest, false)
		add("port-other", scheme+"://"+hostname+":9"+port+rest, false)
		add("port-leading-zero", scheme+"://"+hostname+":0"+port+rest, false)
	}
	// --- percent-encoding
	add("pct-host-dot", scheme+"://"+strings.Replace(hostname, ".", "%2E", 1)+portSuffix(port)+rest, false)
	if !hostOnly && len(path) > 1 {
		last := path[len(path)-1]
		if last != '/' {
			add("pct-path-last-char", scheme+"://"+host+path[:len(path)-1]+fmt.Sprintf("%%%02X", last)+queryOf(u), false)
			add("pct-path-last-char-lowerhex", scheme+"://"+host+path[:len(path)-1]+fmt.Sprintf("%%%02x", last)+queryOf(u), false)
		}
		if i := strings.LastIndex(strings.TrimSuffix(path, "/"), "/"); i > 0 {
			add("pct-path-slash", scheme+"://"+host+path[:i]+"%2F"+path[i+1:]+queryOf(u), false)
			add("path-double-slash", scheme+"://"+host+path[:i]+"//"+path[i+1:]+queryOf(u), false)
		}
		add("path-dot-segment", scheme+"://"+host+"/."+path+queryOf(u), false)
		add("path-dotdot-back", scheme+"://"+host+"/"+tok+"/.."+path+queryOf(u), true)
		add("path-leading-double-slash", scheme+"://"+host+"/"+path+queryOf(u), false)
	}
	return out
}

func portSuffix(port string) string {
	if port == "" {
		return ""
	}
	return ":" + port
}

func queryOf(u *url.URL) string {
	if u.RawQuery == "" {
		return ""
	}
	return "?" + u.RawQuery
}

// homoglyph replaces the first Latin o/e/a/c of a host name by its Cyrillic look-alike.
func homoglyph(h string) string {
	for i, c := range h {
		if r, ok := map[rune]string{'o': "\u043e", 'e': "\u0435", 'a': "\u0430", 'c': "\u0441"}[c]; ok {
			return h[:i] + r + h[i+1:]
		}
	}
	return h + "\u200b"
}

func flipLastLetter(s string) string {
	b := []byte(s)
	for i := len(b) - 1; i >= 0; i-- {
		switch {
		case b[i] >= 'a' && b[i] <= 'z':
			b[i] -= 32
			return string(b)
		case b[i] >= 'A' && b[i] <= 'Z':
			b[i] += 32
			return string(b)
		}
	}
	return s
}

// randomVariants are seeded look-alikes: random case flips, random extensions from an alphabet of URL-significant characters.
func randomVariants(rnd *rand.Rand, e, evil, tok string, n int) []variant {
	var out []variant
	const alphabet = "@./:?#&;%\\-_~ +=,!$'()*[]|"
	for i := 0; i < n; i++ {
		switch rnd.Intn(3) {
		case 0:
			b := []byte(e)
			flips := 1 + rnd.Intn(3)
			for k := 0; k < flips; k++ {
				j := rnd.Intn(len(b))
				if b[j] >= 'a' && b[j] <= 'z' {
					b[j] -= 32
				} else if b[j] >= 'A' && b[j] <= 'Z' {
					b[j] += 32
				}
			}
			out = append(out, variant{"random-case", string(b), false})
		case 1:
			sep := ""
			for k := 0; k < 1+rnd.Intn(2); k++ {
				sep += string(alphabet[rnd.Intn(len(alphabet))])
			}
			out = append(out, variant{"random-extension", e + sep + evil + "/" + tok, true})
		case 2:
			sep := string(alphabet[rnd.Intn(len(alphabet))])
			out = append(out, variant{"random-embedding", "https://" + evil + "/" + tok + sep + e, true})
		}
	}
	return out
}

// contextBattery is the list of context URLs one node is asked for: a pure function of the configuration (and its seed) and the tier.
func contextBattery(c config, thorough bool) ([]ctxProbe, map[string]carrier) {
	rnd := rand.New(rand.NewSource(c.ChanSeed ^ 0x6a736f6e6c64))
	allow := remoteAllowList(c.V[fJSONLD])
	var entries []string
	seen := map[string]bool{}
	for _, e := range append(append([]string{}, allow...), docLocalMapping...) {
		if !seen[e] {
			seen[e] = true
			entries = append(entries, e)
		}
	}
	var probes []ctxProbe
	used := map[string]bool{}
	for _, e := range entries {
		used[e] = true
	}
	used[listedContext] = true
	push := func(kind, entry, u, route string) {
		if used[u] && kind != "listed-entry" && !strings.HasPrefix(kind, "carrier-") {
			return // every URL is asked for once per node (the loader caches), and a look-alike that happens to be another entry is not one
		}
		used[u] = true
		probes = append(probes, ctxProbe{N: len(probes), Kind: kind, Entry: entry, URL: u, Route: route})
	}
	token := func() string { return fmt.Sprintf("c%d", len(probes)) }
	carriers := map[string]carrier{}
	shift := rnd.Intn(1 << 16)
	apiKinds := map[string]bool{"prefix-userinfo": true, "prefix-label": true, "prefix-path": true, "prefix-port": true, "samehost-other-path": true,
		"scheme-http-path": true, "suffix-path": true, "host-subdomain": true, "path-dotdot-back": true}
	for ei, e := range entries {
		if _, isCarrier := carrierTargets[e]; isCarrier {
			continue
		}
		push("listed-entry", e, e, "loader")
		if !thorough && (ei+shift)%2 == 1 {
			continue // quick tier: every node gets the look-alikes of every other entry (which half is drawn per node)
		}
		evil := evilHosts[rnd.Intn(len(evilHosts))]
		for ki, v := range hostile(e, evil, "TOKEN") {
			fresh := func() string { return strings.ReplaceAll(v.url, "TOKEN", token()) }
			push(v.kind, e, fresh(), "loader")
			if !v.tok {
				continue
			}
			// the same look-alike through the node's JSON-LD reader and through the REST API: one entry per kind in the quick tier, all in the thorough tier
			half := (len(entries) + 1) / 2
			if thorough || (ki+shift)%half == ei/2 {
				push(v.kind, e, fresh(), "expand")
			}
			if apiKinds[v.kind] && (thorough || (ki+shift+1)%half == ei/2) {
				push(v.kind, e, fresh(), "api")
			}
		}
		n := 4
		if thorough {
			n = 16
		}
		for _, v := range randomVariants(rnd, e, evilHosts[rnd.Intn(len(evilHosts))], "TOKEN", n) {
			push(v.kind, e, strings.ReplaceAll(v.url, "TOKEN", token()), "loader")
		}
	}
	// listed contexts whose server points to an unlisted location
	for _, e := range entries {
		if ct, ok := carrierTargets[e]; ok {
			carriers[e] = ct
			route := "loader"
			if ct.Kind == "nested" || ct.Kind == "import" {
				route = "expand"
			}
			kind := "carrier-" + ct.Kind
			if strings.HasPrefix(ct.Target, "http://") {
				kind += "-to-plain-http"
			}
			push(kind, e, e, route)
		}
	}
	return probes, carriers
}

// ---- reference ------------------------------------------------------------------------------------------------------------

// listRef is the allow list plus local mapping of one configuration, prepared for lookups.
type listRef struct {
	exact, norm, hosts map[string]bool
}

var listRefs = map[string]*listRef{}

func refFor(jsonldValue string) *listRef {
	if l, ok := listRefs[jsonldValue]; ok {
		return l
	}
	l := &listRef{exact: map[string]bool{}, norm: map[string]bool{}, hosts: map[string]bool{}}
	for _, e := range append(append([]string{}, remoteAllowList(jsonldValue)...), docLocalMapping...) {
		l.exact[e] = true
		if p, err := url.Parse(e); err == nil {
			l.norm[normalised(p)] = true
			l.hosts[hostKey(p)] = true
		}
	}
	listRefs[jsonldValue] = l
	return l
}

// relate says how a URL relates to the listed ones; fetchable: a well-formed http(s) URL for the standard library.
func (l *listRef) relate(u string) (relation string, fetchable bool) {
	if l.exact[u] {
		return "listed", true
	}
	p, err := url.Parse(u)
	if err != nil || p.Scheme != "http" && p.Scheme != "https" || p.Hostname() == "" {
		return "not-a-remote-url", false
	}
	if _, err := http.NewRequest(http.MethodGet, u, nil); err != nil {
		return "not-a-remote-url", false
	}
	switch {
	case l.norm[normalised(p)]:
		return "equivalent-spelling", true
	case p.Scheme == "http":
		return "plain-http", true
	case l.hosts[hostKey(p)]:
		return "same-host-other-resource", true
	}
	return "other-host", true
}

func hostKey(u *url.URL) string {
	port := u.Port()
	if port == "" {
		port = map[string]string{"http": "80", "https": "443"}[u.Scheme]
	}
	port = strings.TrimLeft(port, "0")
	return u.Scheme + "://" + strings.TrimSuffix(strings.ToLower(u.Hostname()), ".") + ":" + port
}

// normalised: RFC 3986 section 6.2.2/6.2.3 (case of scheme and host, default port, empty path, unreserved percent-encodings, dot segments);
// user information and fragment do not name another resource.
func normalised(u *url.URL) string {
	path := removeDotSegments(decodeUnreserved(u.EscapedPath()))
	if path == "" {
		path = "/"
	}
	q := ""
	if u.RawQuery != "" || u.ForceQuery {
		q = "?" + decodeUnreserved(u.RawQuery)
	}
	return hostKey(u) + path + q
}

func decodeUnreserved(s string) string {
	var b strings.Builder
	for i := 0; i < len(s); i++ {
		if s[i] == '%' && i+2 < len(s) {
			if v, err := strconv.ParseUint(s[i+1:i+3], 16, 8); err == nil {
				c := byte(v)
				if c >= 'a' && c <= 'z' || c >= 'A' && c <= 'Z' || c >= '0' && c <= '9' || c == '-' || c == '.' || c == '_' || c == '~' {
					b.WriteByte(c)
				} else {
					b.WriteString(strings.ToUpper(s[i : i+3]))
				}
				i += 2
				continue
			}
		}
		b.WriteByte(s[i])
	}
	return b.String()
}

// asRequested is the URL as the standard library puts it on a request (what the transport records for it).
func asRequested(u string) string {
	req, err := http.NewRequest(http.MethodGet, u, nil)
	if err != nil {
		return u
	}
	return req.URL.String()
}

func removeDotSegments(p string) string {
	if !strings.Contains(p, "/.") {
		return p
	}
	var out []string
	segs := strings.Split(p, "/")
	for i, s := range segs {
		switch s {
		case ".":
			if i == len(segs)-1 {
				out = append(out, "")
			}
		case "..":
			if len(out) > 1 {
				out = out[:len(out)-1]
			}
			if i == len(segs)-1 {
				out = append(out, "")
			}
		default:
			out = append(out, s)
		}
	}
	return strings.Join(out, "/")
}

// ---- oracle ---------------------------------------------------------------------------------------------------------------

// family is the part of a kind that goes into violation keys: prefix-userinfo -> prefix; the transitive probes keep their full name.
func family(kind string) string {
	if strings.HasPrefix(kind, "carrier-") {
		return kind
	}
	return strings.SplitN(kind, "-", 2)[0]
}

// observedNotJudged: probe kinds whose outcome is only recorded. Empty since the triage of the carrier probes: what a LISTED context's
// server makes the loader do next (follow a redirect, also to plain HTTP, or a Link: alternate header) is a request for an unlisted
// context like any other and is judged (genuine defect found with them, repaired in /repo: the loader's HTTP client now stays on the list).
var observedNotJudged = map[string]bool{}

// ctxExample is one context probe of the node evaluated last (goes into the sample of that node); seenCtx: sets already reported
var ctxExample map[string]any
var seenCtx = map[string]bool{}

func evaluateContexts(r *ev.Run, res result, mode string) {
	c := res.c
	strict := c.strict()
	spec := res.l.Spec.Contexts
	ctxExample = nil
	if len(spec) == 0 {
		return
	}
	allow := remoteAllowList(c.V[fJSONLD])
	listed := refFor(c.V[fJSONLD])
	mapped := map[string]bool{}
	for _, m := range docLocalMapping {
		mapped[m] = true
	}
	answered := 0
	counts := map[string]int{} // flushed at the end: tens of thousands of probes per run
	count := func(name string) { counts[name]++ }
	defer func() {
		for k, n := range counts {
			r.Count(k, n)
		}
	}()
	for _, p := range res.o.Probes {
		if p.Probe != "jsonld-ctx" {
			continue
		}
		if p.N < 0 || p.N >= len(spec) || spec[p.N].URL != p.URL {
			r.Fatalf("context probe %d of the child does not match the battery of the parent", p.N)
		}
		q := spec[p.N]
		answered++
		rel, fetchable := listed.relate(q.URL)
		r.Case(strings.Join([]string{"ctx", c.V[fJSONLD], mode, q.Route, q.Kind, q.Entry}, "|"), true)
		count("jsonld_context_probes")
		count("jsonld_context_probes_" + mode + "_" + q.Route)
		if k := "kind/" + q.Kind; !seenCtx[k] {
			seenCtx[k] = true
			r.Distinct("jsonld_context_kinds", q.Kind)
		}
		if k := "rel/" + rel + "/" + mode + "/" + q.Route; !seenCtx[k] {
			seenCtx[k] = true
			r.Distinct("jsonld_context_relation_x_mode_x_route", rel+"/"+mode+"/"+q.Route)
		}
		w := map[string]any{"probe": q, "observed": p, "relation_of_the_url_to_the_list": rel, "remoteallowlist": allow, "localmapping_keys": docLocalMapping,
			"config": c, "args": res.l.Args, "env": res.l.Env, "configfile": res.l.Yaml}
		if strings.HasPrefix(p.Err, "panic:") {
			r.Violation("C20/panic/jsonld-"+q.Route, fmt.Sprintf("loading context %q (%s) panicked: %s", q.URL, q.Kind, p.Err), w)
			continue
		}
		// where did requests go?
		var requested []string
		for _, a := range p.Attempts {
			if i := strings.Index(a, " "); i >= 0 {
				requested = append(requested, a[i+1:])
			}
		}
		if q.Route == "api" && p.Status == 0 {
			// the harness' own HTTP call to the node got no response (loaded machine): only what reached the transport can be judged
			r.Inconclusive("no response from the node's search API for a context probe: " + p.Err)
			if len(requested) == 0 || !strict {
				continue
			}
		}
		if q.Kind == "listed-entry" {
			switch {
			case !p.OK:
				r.Violation("C20/"+mode+"/listed-jsonld-context-refused", fmt.Sprintf("context %s is on the configured allow list / local mapping but was not loaded: %s", q.URL, p.Err), w)
			case mapped[q.URL] && len(requested) > 0:
				r.Violation("C20/"+mode+"/embedded-jsonld-context", fmt.Sprintf("locally mapped context %s was requested from the network: %v", q.URL, requested), w)
			case !mapped[q.URL] && q.URL != res.l.Spec.ListedCtx && (len(requested) != 1 || requested[0] != q.URL):
				r.Violation("C20/"+mode+"/listed-jsonld-context-refused", fmt.Sprintf("listed context %s loaded, but the requests were %v", q.URL, requested), w)
			default:
				count("listed_entries_loaded_" + mode)
			}
			continue
		}
		judged := !observedNotJudged[q.Kind]
		if strict {
			bad := false
			for _, req := range requested {
				arel, _ := listed.relate(req)
				switch arel {
				case "listed":
				case "equivalent-spelling":
					r.Unspecified("strict: a spelling of a listed context URL that names the same resource was fetched (" + q.Kind + ")")
				default:
					bad = true
					what := fmt.Sprintf("strict mode, remoteallowlist=%s: context %q (%s of %s, route %s) made the node request %s, which is not on the allow list (%s)",
						c.V[fJSONLD], q.URL, q.Kind, q.Entry, q.Route, req, arel)
					if judged {
						r.Violation("C20/strict/unlisted-jsonld-context-fetched/"+arel+"/"+family(q.Kind), what, w)
					} else {
						count("observed_not_judged_strict_" + q.Kind + "_followed_to_" + arel)
					}
				}
			}
			carrierProbe := strings.HasPrefix(q.Kind, "carrier-")
			switch {
			case bad:
			case carrierProbe:
				count("strict_" + q.Kind + "_not_followed")
			case q.Route == "loader" && p.OK && rel == "equivalent-spelling":
				r.Unspecified("strict: a spelling of a listed context URL that names the same resource was loaded (" + q.Kind + ")")
			case q.Route == "loader" && p.OK:
				r.Violation("C20/strict/unlisted-jsonld-context-fetched/"+rel+"/"+family(q.Kind),
					fmt.Sprintf("strict mode, remoteallowlist=%s: context %q (%s of %s) is not on the allow list (%s) but the document loader returned a document",
						c.V[fJSONLD], q.URL, q.Kind, q.Entry, rel), w)
			default:
				count("strict_lookalike_context_refused")
				count("strict_lookalike_context_refused_" + rel)
			}
		} else {
			target := q.URL
			if ct, ok := carrierTargets[q.URL]; ok && strings.HasPrefix(q.Kind, "carrier-") {
				target = ct.Target
			}
			reached := false
			for _, req := range requested {
				if req == target || req == asRequested(target) {
					reached = true
				}
			}
			loaded := p.OK
			if q.Route == "api" {
				loaded = p.Status == 200
			}
			switch {
			case !fetchable:
				r.Unspecified(fmt.Sprintf("nonstrict: context that is not a well-formed http(s) URL (%s): loaded=%v", q.Kind, loaded))
			case !loaded:
				r.Violation("C20/nonstrict/unlisted-jsonld-context-refused/"+family(q.Kind),
					fmt.Sprintf("strict mode off: context %q (%s of %s, route %s) was not accepted: %d %s", q.URL, q.Kind, q.Entry, q.Route, p.Status, p.Err), w)
			case !reached && (q.Route == "loader" || target != q.URL):
				if judged {
					r.Violation("C20/nonstrict/unlisted-jsonld-context-refused/"+family(q.Kind),
						fmt.Sprintf("strict mode off: context %q (%s of %s, route %s) was accepted but %s was never requested: %v", q.URL, q.Kind, q.Entry, q.Route, target, requested), w)
				} else {
					count("observed_not_judged_nonstrict_" + q.Kind + "_not_followed")
				}
			default:
				count("nonstrict_lookalike_context_fetched")
			}
		}
		if q.Kind == "prefix-userinfo" && q.Route == "loader" && (ctxExample == nil || rel == "other-host" && ctxExample["relation"] != "other-host") {
			ctxExample = map[string]any{"remoteallowlist": c.V[fJSONLD], "route": q.Route, "kind": q.Kind, "derived_from": q.Entry, "url": q.URL, "relation": rel,
				"loaded": p.OK, "error": p.Err, "requests_seen_at_the_transport": requested}
		}
	}
	if answered != len(spec) {
		r.Inconclusive(fmt.Sprintf("running node answered %d of %d context probes", answered, len(spec)))
	}
}

// batteryCoverage records which kinds the batteries handed to the children contained (independent of what ran).
func batteryCoverage(r *ev.Run, results []result) {
	kinds := map[string]bool{}
	total := 0
	for _, res := range results {
		for _, p := range res.l.Spec.Contexts {
			kinds[p.Kind] = true
		}
		total += len(res.l.Spec.Contexts)
	}
	names := make([]string, 0, len(kinds))
	for k := range kinds {
		names = append(names, k)
	}
	sort.Strings(names)
	r.Extra("jsonld_context_kinds_generated", names)
	r.Extra("jsonld_context_probes_generated", total)
}
