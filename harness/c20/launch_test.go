package c20

// Launching one configuration in a child process and reading back what it observed.

import (
	"encoding/json"
	"net"
	"os"
	"path/filepath"
	"sort"
	"strings"
	"sync"
	"time"

	"verif/lib/worker"
)

// ---- launching one configuration ---------------------------------------------------------------------

// launch is everything a user would supply: command line, environment, configuration file.
type launch struct {
	Args []string          // after the program name
	Env  map[string]string // NUTS_* variables
	Yaml string            // content of the configuration file
	Spec childSpec
}

// observation is what the child reported.
type observation struct {
	Refused        bool // fatal log entry (process exit 1) before the node ran
	RefusalMsg     string
	EverReachable  bool // /status answered before the refusal
	ListenerAtExit bool
	Running        bool
	ClientStrict   bool
	ConfigStrict   bool
	CacheBytes     int  // http.cache.maxbytes as the HTTP engine of the running node holds it
	CacheActive    bool // the caching transport is installed
	Stopped        bool
	ExitedMsg      string // cmd.Execute returned without fatal and without running
	Exited         bool
	Probes         []ledgerLine
	Raw            []string
	ExitCode       int
	Output         string
	TimedOut       bool
}

var portMu sync.Mutex
var usedPorts = map[int]bool{}

func freePort() int {
	portMu.Lock()
	defer portMu.Unlock()
	for i := 0; i < 100; i++ {
		l, err := net.Listen("tcp", "127.0.0.1:0")
		if err != nil {
			panic(err)
		}
		p := l.Addr().(*net.TCPAddr).Port
		l.Close()
		if !usedPorts[p] {
			usedPorts[p] = true
			return p
		}
	}
	panic("no free port")
}

func runChild(dir string, l launch) observation {
	data, _ := json.Marshal(l.Spec)
	if err := os.WriteFile(filepath.Join(dir, "spec.json"), data, 0o644); err != nil {
		panic(err)
	}
	var env []string
	keys := make([]string, 0, len(l.Env))
	for k := range l.Env {
		keys = append(keys, k)
	}
	sort.Strings(keys)
	for _, k := range keys {
		env = append(env, k+"="+l.Env[k])
	}
	res := worker.Run("c20node", []string{dir}, 150*time.Second, env...)
	o := observation{ExitCode: res.ExitCode, Output: res.Output, TimedOut: res.TimedOut}
	o.Raw = worker.ReadLedger(filepath.Join(dir, "ledger"))
	for _, ln := range o.Raw {
		var ll ledgerLine
		if json.Unmarshal([]byte(ln), &ll) != nil {
			continue
		}
		switch ll.Ev {
		case "fatal":
			o.Refused, o.RefusalMsg, o.EverReachable, o.ListenerAtExit = true, ll.Msg, ll.EverReachable, ll.ListenerAtExit
		case "running":
			o.Running, o.ClientStrict, o.ConfigStrict = true, ll.ClientStrict, ll.ConfiguredStrict
			o.CacheBytes, o.CacheActive = ll.CacheBytes, ll.CacheActive
		case "stopped":
			o.Stopped = true
		case "exited":
			o.Exited, o.ExitedMsg = true, ll.Msg
		case "probe":
			o.Probes = append(o.Probes, ll)
		}
	}
	// the raw ledger is kept for the witnesses; the (many) context probe lines are kept in parsed form only
	raw := o.Raw[:0]
	for _, ln := range o.Raw {
		if !strings.Contains(ln, `"probe":"jsonld-ctx"`) {
			raw = append(raw, ln)
		}
	}
	o.Raw = raw
	return o
}

func tail(s string, n int) string {
	if len(s) > n {
		return s[len(s)-n:]
	}
	return s
}

func repoDir() string {
	if r := os.Getenv("VERIF_REPO"); r != "" {
		return r
	}
	return "/repo"
}

// prepareIrma puts the (signed, empty) IRMA scheme the repository ships for offline development into <datadir>/irma, as an
// operator without internet access would: with an empty directory the IRMA library downloads its default schemes at start-up.
func prepareIrma(datadir string) {
	src := filepath.Join(repoDir(), "development", "irma", "empty")
	dst := filepath.Join(datadir, "irma", "empty")
	if err := os.MkdirAll(dst, 0o755); err != nil {
		panic(err)
	}
	entries, err := os.ReadDir(src)
	if err != nil {
		panic(err)
	}
	for _, e := range entries {
		data, err := os.ReadFile(filepath.Join(src, e.Name()))
		if err != nil {
			panic(err)
		}
		if err := os.WriteFile(filepath.Join(dst, e.Name()), data, 0o644); err != nil {
			panic(err)
		}
	}
}
