package c20

// The child process: runs the real `nuts server` (cmd.CreateSystem + cmd.Execute) with the environment, command line
// and configuration file the parent prepared, as a user would, and reports what it observed as ledger lines (JSON, one per
// line, written unbuffered so that they survive the os.Exit(1) of a refused start):
//   fatal      the node logged a fatal error (= refused to start); with the message, whether /status was ever
//              reachable before and whether a listener accepts connections at the moment of the exit
//   running    GET /status on the internal interface answered 200
//   probe      result of one action-level probe against the running node (dummy means, JSON-LD contexts, outbound URLs)
//   stopped    the node was shut down by the child after the probes
//   exited     cmd.Execute returned without the node ever running and without a fatal log entry

import (
	"context"
	"crypto/tls"
	"encoding/json"
	"fmt"
	"io"
	"net"
	"net/http"
	"net/http/httptest"
	"net/url"
	"os"
	"path/filepath"
	"strings"
	"sync"
	"sync/atomic"
	"time"

	"github.com/nuts-foundation/go-did/vc"
	"github.com/nuts-foundation/nuts-node/auth"
	"github.com/nuts-foundation/nuts-node/auth/oauth"
	"github.com/nuts-foundation/nuts-node/cmd"
	"github.com/nuts-foundation/nuts-node/core"
	httpengine "github.com/nuts-foundation/nuts-node/http"
	"github.com/nuts-foundation/nuts-node/http/client"
	"github.com/nuts-foundation/nuts-node/jsonld"
	"github.com/nuts-foundation/nuts-node/vcr/pe"
	"github.com/sirupsen/logrus"
	"verif/lib/worker"
)

// childSpec is what the parent hands to the child (dir/spec.json). Environment variables are passed through the real process environment.
type childSpec struct {
	Args       []string `json:"args"`     // command line after the program name, e.g. ["server","--strictmode=false"]
	Internal   string   `json:"internal"` // address of the internal HTTP interface (for the /status poller)
	Public     string   `json:"public"`
	ListedCtx  string   `json:"listed_ctx"`  // a context URL that is on the configured allow list ("" if none)
	Outbound   []outURL `json:"outbound"`    // URL classes to try through the node's HTTP clients once it runs
	DummyProbe bool     `json:"dummy_probe"` // try the dummy authentication means
	DummyMeans []string `json:"dummy_means,omitempty"` // other spellings under which the configuration names the dummy means: asked for as well
	// context URLs to ask the node's JSON-LD document loader for (jsonld_test.go), and what the fake servers of some listed contexts answer
	Contexts []ctxProbe         `json:"contexts,omitempty"`
	Carriers map[string]carrier `json:"carriers,omitempty"`
}

type outURL struct {
	Class string `json:"class"`
	URL   string `json:"url"`
}

type ledgerLine struct {
	Ev               string   `json:"ev"`
	Msg              string   `json:"msg,omitempty"`
	EverReachable    bool     `json:"ever_reachable,omitempty"`
	ListenerAtExit   bool     `json:"listener_at_exit,omitempty"`
	Probe            string   `json:"probe,omitempty"`
	Class            string   `json:"class,omitempty"`
	Via              string   `json:"via,omitempty"`
	URL              string   `json:"url,omitempty"`
	Status           int      `json:"status,omitempty"`
	Err              string   `json:"err,omitempty"`
	OK               bool     `json:"ok,omitempty"`
	Attempts         []string `json:"attempts,omitempty"` // requests that left the client: "<scheme> <host><path>"
	ClientStrict     bool     `json:"client_strict,omitempty"`
	ConfiguredStrict bool     `json:"configured_strict,omitempty"`
	N                int      `json:"n,omitempty"` // index of a context probe in the battery of the parent
	CacheBytes       int      `json:"cache_bytes,omitempty"`  // running: http.cache.maxbytes as the HTTP engine holds it
	CacheActive      bool     `json:"cache_active,omitempty"` // running: the caching transport is installed
}

type jsonLedger struct{ l *worker.Ledger }

func (j jsonLedger) put(ln ledgerLine) {
	b, _ := json.Marshal(ln)
	j.l.Log("%s", string(b))
}

// recorder collects the requests that actually left an HTTP client of the node.
type recorder struct {
	mu   sync.Mutex
	seen []string
}

func (r *recorder) add(s string) { r.mu.Lock(); r.seen = append(r.seen, s); r.mu.Unlock() }
func (r *recorder) mark() int    { r.mu.Lock(); defer r.mu.Unlock(); return len(r.seen) }
func (r *recorder) since(n int) []string {
	r.mu.Lock()
	defer r.mu.Unlock()
	return append([]string{}, r.seen[n:]...)
}

// defaultTransportRecorder replaces http.DefaultTransport (used by the JSON-LD library's default document loader): records every request
// ("<scheme> <complete URL>") and answers a tiny context - or, for the listed contexts the parent named, a context that refers to another
// one, a redirect or a Link: alternate header.
type defaultTransportRecorder struct {
	rec      *recorder
	carriers map[string]carrier
}

func (d defaultTransportRecorder) RoundTrip(req *http.Request) (*http.Response, error) {
	d.rec.add(req.URL.Scheme + " " + req.URL.String())
	body := `{"@context":{"verif":"https://verif.invalid/ns#"}}`
	resp := &http.Response{StatusCode: 200, Status: "200 OK", Proto: "HTTP/1.1", ProtoMajor: 1, ProtoMinor: 1, Request: req,
		Header: http.Header{"Content-Type": []string{"application/ld+json"}}}
	if c, ok := d.carriers[req.URL.String()]; ok {
		switch c.Kind {
		case "nested":
			body = `{"@context":["` + c.Target + `",{"verif2":"https://verif.invalid/ns2#"}]}`
		case "import":
			body = `{"@context":{"@version":1.1,"@import":"` + c.Target + `","verif3":"https://verif.invalid/ns3#"}}`
		case "redirect":
			resp.StatusCode, resp.Status, body = 302, "302 Found", ""
			resp.Header = http.Header{"Location": []string{c.Target}}
		case "link":
			body = "<html></html>"
			resp.Header = http.Header{"Content-Type": []string{"text/html"}, "Link": []string{`<` + c.Target + `>; rel="alternate"; type="application/ld+json"`}}
		}
	}
	resp.Body, resp.ContentLength = io.NopCloser(strings.NewReader(body)), int64(len(body))
	return resp, nil
}

// remoteWorld is the environment of the node's outbound clients: one plain-HTTP and one TLS listener in this process to which
// every connection of client.SafeHttpTransport is routed (port 443/8443 -> TLS listener, anything else -> plain listener).
// A request counts as attempted when one of the listeners received it (or, for the plain listener, when a connection to it was dialled).
func remoteWorld(rec *recorder) {
	// only connections dialled by the node's own transport count: another process on this machine may connect to these ports by accident
	var own sync.Map
	handler := func(scheme string) http.Handler {
		return http.HandlerFunc(func(w http.ResponseWriter, r *http.Request) {
			if _, ok := own.Load(r.RemoteAddr); !ok {
				w.WriteHeader(http.StatusNotFound)
				return
			}
			rec.add(scheme + " " + r.Host + r.URL.Path)
			host := r.Host
			if h, _, err := net.SplitHostPort(host); err == nil {
				host = h
			}
			switch {
			case strings.HasPrefix(r.URL.Path, "/hops/"):
				// /hops/<code.scheme.host>[-<code.scheme.host>...]/<token>: pop the first hop and redirect accordingly
				parts := strings.SplitN(strings.TrimPrefix(r.URL.Path, "/hops/"), "/", 2)
				hops := strings.Split(parts[0], "-")
				hop := strings.Split(hops[0], ".")
				code := 302
				fmt.Sscan(hop[0], &code)
				target := map[string]string{"same": host, "other": "elsewhere.zorgnetwerk.nl", "ip": "198.51.100.99"}[hop[2]]
				next := "/landed/" + parts[1]
				if len(hops) > 1 {
					next = "/hops/" + strings.Join(hops[1:], "-") + "/" + parts[1]
				}
				http.Redirect(w, r, hop[1]+"://"+target+next, code)
			case strings.HasPrefix(r.URL.Path, "/r2http/"):
				http.Redirect(w, r, "http://"+host+"/landed"+strings.TrimPrefix(r.URL.Path, "/r2http"), http.StatusFound)
			case strings.HasPrefix(r.URL.Path, "/r2https/"):
				http.Redirect(w, r, "https://elsewhere.zorgnetwerk.nl/landed"+strings.TrimPrefix(r.URL.Path, "/r2https"), http.StatusTemporaryRedirect)
			default:
				w.Header().Set("Content-Type", "application/json")
				_, _ = w.Write([]byte(`{}`))
			}
		})
	}
	plain := httptest.NewServer(handler("http"))
	secure := httptest.NewTLSServer(handler("https"))
	plainAddr, secureAddr := plain.Listener.Addr().String(), secure.Listener.Addr().String()
	for _, a := range []string{plainAddr, secureAddr} {
		if _, p, err := net.SplitHostPort(a); err == nil {
			helperPorts.Store(p, true)
		}
	}
	d := &net.Dialer{Timeout: 10 * time.Second}
	client.SafeHttpTransport.Proxy = nil
	client.SafeHttpTransport.DialContext = func(ctx context.Context, network, addr string) (net.Conn, error) {
		_, port, _ := net.SplitHostPort(addr)
		target := plainAddr
		if port == "443" || port == "8443" {
			target = secureAddr
		} else {
			rec.add("dial-plain " + addr)
		}
		conn, err := d.DialContext(ctx, "tcp", target)
		if err == nil {
			own.Store(conn.LocalAddr().String(), true)
		}
		return conn, err
	}
	client.SafeHttpTransport.TLSClientConfig.InsecureSkipVerify = true // the remote hosts are fakes; certificate validation is not what is observed here
}

// helperPorts are the ports of the fake remote hosts of this process: the kernel may hand out a port the parent had reserved for the
// node (and released); a listener there is not the node accepting traffic (the node then fails to bind and the run is repeated).
var helperPorts sync.Map

var harnessHTTP = &http.Client{Transport: &http.Transport{}, Timeout: 10 * time.Second,
	CheckRedirect: func(*http.Request, []*http.Request) error { return http.ErrUseLastResponse }}

func nodeWorker(args []string) int {
	dir := args[0]
	led := jsonLedger{worker.OpenLedger(filepath.Join(dir, "ledger"))}
	var sp childSpec
	data, err := os.ReadFile(filepath.Join(dir, "spec.json"))
	if err == nil {
		err = json.Unmarshal(data, &sp)
	}
	if err != nil {
		led.put(ledgerLine{Ev: "broken", Msg: err.Error()})
		return 3
	}
	rec := &recorder{}
	http.DefaultTransport = defaultTransportRecorder{rec, sp.Carriers}
	remoteWorld(rec)

	var everReachable atomic.Bool
	statusURL := "http://" + sp.Internal + "/status"
	// "a listener accepts traffic" = THIS process holds a listening socket on one of the node's HTTP ports (another process of this
	// machine may be using a port the node never bound)
	listening := func(addrs ...string) bool {
		own := ownListeningPorts()
		for _, a := range addrs {
			if _, p, err := net.SplitHostPort(a); err == nil && own[p] {
				if _, helper := helperPorts.Load(p); !helper {
					return true
				}
			}
		}
		return false
	}
	// a refused start ends in logrus.Fatal: capture the message and look at the listeners at that very moment
	var fatalMsg atomic.Value
	logrus.StandardLogger().AddHook(fatalHook{&fatalMsg})
	logrus.StandardLogger().ExitFunc = func(code int) {
		msg, _ := fatalMsg.Load().(string)
		led.put(ledgerLine{Ev: "fatal", Msg: msg, EverReachable: everReachable.Load(), ListenerAtExit: listening(sp.Internal, sp.Public), Status: code})
		os.Exit(code)
	}
	stopPoll := make(chan struct{})
	reachable := make(chan struct{})
	go func() {
		for {
			select {
			case <-stopPoll:
				return
			default:
			}
			resp, err := harnessHTTP.Get(statusURL)
			if err == nil {
				resp.Body.Close()
				if resp.StatusCode == 200 && listening(sp.Internal) {
					everReachable.Store(true)
					close(reachable)
					return
				}
			}
			time.Sleep(4 * time.Millisecond)
		}
	}()

	ctx, cancel := context.WithCancel(context.Background())
	system := cmd.CreateSystem(cancel)
	os.Args = append([]string{"nuts"}, sp.Args...)
	done := make(chan error, 1)
	go func() { done <- cmd.Execute(ctx, system) }()

	select {
	case err := <-done:
		close(stopPoll)
		msg := ""
		if err != nil {
			msg = err.Error()
		}
		led.put(ledgerLine{Ev: "exited", Msg: msg, EverReachable: everReachable.Load()})
		return 0
	case <-time.After(45 * time.Second):
		close(stopPoll)
		led.put(ledgerLine{Ev: "timeout"})
		return 4
	case <-reachable:
	}
	running := ledgerLine{Ev: "running", ClientStrict: client.StrictMode, ConfiguredStrict: system.Config.Strictmode, CacheBytes: -999,
		CacheActive: client.DefaultCachingTransport != http.RoundTripper(client.SafeHttpTransport)}
	if he, ok := findEngine[*httpengine.Engine](system); ok {
		if hc, ok := he.Config().(*httpengine.Config); ok {
			running.CacheBytes = hc.ResponseCacheSize // what the HTTP engine was actually configured with
		}
	}
	led.put(running)
	runProbes(led, rec, sp, system)
	cancel()
	select {
	case err := <-done:
		msg := ""
		if err != nil {
			msg = err.Error()
		}
		led.put(ledgerLine{Ev: "stopped", Msg: msg})
	case <-time.After(60 * time.Second):
		led.put(ledgerLine{Ev: "stopped", Msg: "shutdown did not finish in 60s"})
	}
	return 0
}

type fatalHook struct{ v *atomic.Value }

func (fatalHook) Levels() []logrus.Level { return []logrus.Level{logrus.FatalLevel} }
func (h fatalHook) Fire(e *logrus.Entry) error {
	msg := e.Message
	if er, ok := e.Data[logrus.ErrorKey]; ok {
		msg += ": " + fmt.Sprint(er)
	}
	h.v.Store(msg)
	return nil
}

const contractText = "NL:BehandelaarLogin:v3 Hierbij verklaar ik te handelen in naam van Zorg & Zo te A & B. Deze verklaring is geldig van woensdag, 1 januari 2020 02:01:01 tot woensdag, 1 januari 2020 03:01:01."

func findEngine[T any](system *core.System) (T, bool) {
	var found T
	ok := false
	system.VisitEngines(func(e core.Engine) {
		if v, is := e.(T); is && !ok {
			found, ok = v, true
		}
	})
	return found, ok
}

func post(u string, method string, body any) (int, string, error) {
	data, _ := json.Marshal(body)
	req, _ := http.NewRequest(method, u, strings.NewReader(string(data)))
	req.Header.Set("Content-Type", "application/json")
	resp, err := harnessHTTP.Do(req)
	if err != nil {
		return 0, "", err
	}
	defer resp.Body.Close()
	b, _ := io.ReadAll(io.LimitReader(resp.Body, 1<<16))
	return resp.StatusCode, string(b), nil
}

func runProbes(led jsonLedger, rec *recorder, sp childSpec, system *core.System) {
	base := "http://" + sp.Internal
	// --- test-only authentication means, through the API a client application uses
	if sp.DummyProbe {
		st, body, err := post(base+"/internal/auth/v1/signature/session", "POST", map[string]any{"means": "dummy", "payload": contractText, "params": map[string]any{}})
		led.put(ledgerLine{Ev: "probe", Probe: "dummy-session", Status: st, Err: errStr(err), OK: st == 201, Msg: short(body)})
		for _, means := range sp.DummyMeans {
			st, body, err := post(base+"/internal/auth/v1/signature/session", "POST", map[string]any{"means": means, "payload": contractText, "params": map[string]any{}})
			led.put(ledgerLine{Ev: "probe", Probe: "dummy-session-as-configured", Class: means, Status: st, Err: errStr(err), OK: st == 201, Msg: short(body)})
		}
		vp := map[string]any{
			"@context": []string{"https://www.w3.org/2018/credentials/v1"},
			"type":     []string{"VerifiablePresentation", "DummyVerifiablePresentation"},
			"proof":    map[string]any{"type": "NoSignature", "Contract": contractText, "FamilyName": "Tester", "Initials": "T", "Email": "tester@example.com"},
		}
		st, body, err = post(base+"/internal/auth/v1/signature/verify", "PUT", map[string]any{"VerifiablePresentation": vp})
		var res struct {
			Validity bool `json:"validity"`
		}
		_ = json.Unmarshal([]byte(body), &res)
		led.put(ledgerLine{Ev: "probe", Probe: "dummy-verify", Status: st, Err: errStr(err), OK: st == 200 && res.Validity, Msg: short(body)})
	}
	// --- remote JSON-LD contexts, through the document loader of the assembled node
	if j, ok := findEngine[jsonld.JSONLD](system); ok {
		load := func(probe, u string) {
			m := rec.mark()
			var lerr error
			func() {
				defer func() {
					if p := recover(); p != nil {
						lerr = fmt.Errorf("panic: %v", p)
					}
				}()
				_, lerr = j.DocumentLoader().LoadDocument(u)
			}()
			led.put(ledgerLine{Ev: "probe", Probe: probe, URL: u, Err: errStr(lerr), OK: lerr == nil, Attempts: rec.since(m)})
		}
		load("jsonld-unlisted", "https://contexts.onbekende-partij.nl/unlisted/v1.jsonld")
		load("jsonld-unlisted-http", "http://contexts.onbekende-partij.nl/unlisted/v2.jsonld")
		if sp.ListedCtx != "" {
			load("jsonld-listed", sp.ListedCtx)
		}
		load("jsonld-embedded", "https://www.w3.org/2018/credentials/v1")
		// --- look-alikes of the listed context URLs: the loader itself, the node's JSON-LD reader, the search API of the credential registry
		for _, q := range sp.Contexts {
			m := rec.mark()
			ln := ledgerLine{Ev: "probe", Probe: "jsonld-ctx", N: q.N, Class: q.Kind, Via: q.Route, URL: q.URL}
			var lerr error
			func() {
				defer func() {
					if p := recover(); p != nil {
						lerr = fmt.Errorf("panic: %v", p)
					}
				}()
				switch q.Route {
				case "loader":
					_, lerr = j.DocumentLoader().LoadDocument(q.URL)
				case "expand":
					doc, _ := json.Marshal(map[string]any{"@context": []any{q.URL}, "@type": "verif:Thing"})
					_, lerr = jsonld.Reader{DocumentLoader: j.DocumentLoader(), AllowUndefinedProperties: true}.ReadBytes(doc)
				case "api":
					query := map[string]any{"@context": []any{"https://www.w3.org/2018/credentials/v1", q.URL}, "type": []string{"VerifiableCredential"},
						"credentialSubject": map[string]any{"id": "did:web:node.zorgverlener.nl"}}
					var body string
					ln.Status, body, lerr = post(base+"/internal/vcr/v2/search", "POST", map[string]any{"query": query})
					if lerr == nil && ln.Status != 200 {
						lerr = fmt.Errorf("%s", body)
					}
				}
			}()
			ln.Err, ln.OK, ln.Attempts = errStr(lerr), lerr == nil, rec.since(m)
			led.put(ln)
		}
	} else {
		led.put(ledgerLine{Ev: "probe", Probe: "jsonld-missing"})
	}
	// --- outbound URL classes through the HTTP clients of the assembled node
	authEngine, haveAuth := findEngine[auth.AuthenticationServices](system)
	for i, o := range sp.Outbound {
		tok := fmt.Sprintf("/t%d", i)
		target := strings.Replace(o.URL, "/TOKEN", tok, 1)
		try := func(via string, fn func() error) {
			m := rec.mark()
			var cerr error
			func() {
				defer func() {
					if p := recover(); p != nil {
						cerr = fmt.Errorf("panic: %v", p)
					}
				}()
				cerr = fn()
			}()
			led.put(ledgerLine{Ev: "probe", Probe: "outbound", Class: o.Class, Via: via, URL: target, Err: errStr(cerr), OK: cerr == nil, Attempts: rec.since(m)})
		}
		get := func(c *client.StrictHTTPClient) func() error {
			return func() error {
				req, err := http.NewRequest(http.MethodGet, target, nil)
				if err != nil {
					return err
				}
				resp, err := c.Do(req)
				if err == nil {
					resp.Body.Close()
				}
				return err
			}
		}
		// the node's own StatusList2021 consumer, reached the way a client application reaches it: verifying a credential whose
		// credentialStatus points to the URL (the status is looked up before issuer trust and signature are)
		{
			slTarget := strings.Replace(o.URL, "/TOKEN", tok+"sl", 1)
			cred := map[string]any{
				"@context":          []string{"https://www.w3.org/2018/credentials/v1", "https://w3id.org/vc/status-list/2021/v1"},
				"id":                fmt.Sprintf("did:web:partner.zorgnetwerk.nl#vc-%d", i),
				"type":              []string{"VerifiableCredential"},
				"issuer":            "did:web:partner.zorgnetwerk.nl",
				"issuanceDate":      "2024-01-01T00:00:00Z",
				"credentialSubject": map[string]any{"id": "did:web:client.zorgnetwerk.nl"},
				"credentialStatus": map[string]any{"id": slTarget + "#5", "type": "StatusList2021Entry", "statusPurpose": "revocation",
					"statusListIndex": "5", "statusListCredential": slTarget},
				"proof": map[string]any{"type": "JsonWebSignature2020", "proofPurpose": "assertionMethod", "created": "2024-01-01T00:00:00Z",
					"verificationMethod": "did:web:partner.zorgnetwerk.nl#0", "jws": "eyJhbGciOiJFUzI1NiIsImI2NCI6ZmFsc2UsImNyaXQiOlsiYjY0Il19..c2ln"},
			}
			m := rec.mark()
			st, body, err := post(base+"/internal/vcr/v2/verifier/vc", "POST", map[string]any{"verifiableCredential": cred})
			if err == nil && st != 0 {
				// OK stays false: the API's answer is about the credential, what is judged is which requests left the node
				led.put(ledgerLine{Ev: "probe", Probe: "outbound", Class: o.Class, Via: "api.VerifyVC/StatusList2021", URL: slTarget, Status: st, Err: short(body), Attempts: rec.since(m)})
			}
		}
		try("client.New", get(client.New(10*time.Second)))
		try("client.NewWithCache", get(client.NewWithCache(10*time.Second)))
		try("client.NewWithTLSConfig", get(client.NewWithTLSConfig(10*time.Second, &tls.Config{InsecureSkipVerify: true})))
		if haveAuth {
			// the node-to-node access token request of the v1 API (its own TLS configuration)
			if rp := authEngine.RelyingParty(); rp != nil {
				try("auth.RelyingParty.RequestRFC003AccessToken", func() error {
					u, err := url.Parse(target)
					if err != nil {
						return err
					}
					_, err = rp.RequestRFC003AccessToken(context.Background(), "eyJhbGciOiJFUzI1NiJ9.e30.c2ln", *u)
					return err
				})
			}
			iamClient := authEngine.IAMClient()
			try("iam.ClientMetadata", func() error { _, err := iamClient.ClientMetadata(context.Background(), target); return err })
			try("iam.PresentationDefinition", func() error { _, err := iamClient.PresentationDefinition(context.Background(), target); return err })
			try("iam.RequestObjectByGet", func() error { _, err := iamClient.RequestObjectByGet(context.Background(), target); return err })
			try("iam.RequestObjectByPost", func() error {
				_, err := iamClient.RequestObjectByPost(context.Background(), target, oauth.AuthorizationServerMetadata{})
				return err
			})
			try("iam.PostError", func() error {
				_, err := iamClient.PostError(context.Background(), oauth.OAuth2Error{Code: oauth.InvalidRequest}, target, "state")
				return err
			})
			try("iam.PostAuthorizationResponse", func() error {
				_, err := iamClient.PostAuthorizationResponse(context.Background(), vc.VerifiablePresentation{}, pe.PresentationSubmission{}, target, "state")
				return err
			})
			try("iam.AccessToken", func() error {
				_, err := iamClient.AccessToken(context.Background(), "code", target, "https://node.zorgverlener.nl/callback", "subject", "https://node.zorgverlener.nl/oauth2/subject", "verifier", false)
				return err
			})
			// no URL validation is documented for this one: observed, judged only for plain HTTP
			try("iam.VerifiableCredentials", func() error {
				_, err := iamClient.VerifiableCredentials(context.Background(), target, "token", "proof")
				return err
			})
			if u, err := url.Parse(target); err == nil && !strings.Contains(u.Path, "/r2") {
				issuer := u.Scheme + "://" + u.Host + "/issuer" + tok
				try("iam.AuthorizationServerMetadata", func() error {
					_, err := iamClient.AuthorizationServerMetadata(context.Background(), issuer)
					return err
				})
				try("iam.OpenIDConfiguration", func() error { _, err := iamClient.OpenIDConfiguration(context.Background(), issuer); return err })
				try("iam.OpenIdCredentialIssuerMetadata", func() error {
					_, err := iamClient.OpenIdCredentialIssuerMetadata(context.Background(), issuer)
					return err
				})
			}
		}
	}
}

func errStr(err error) string {
	if err == nil {
		return ""
	}
	return short(err.Error())
}

func short(s string) string {
	if len(s) > 300 {
		return s[:300]
	}
	return s
}

// ownListeningPorts returns the TCP ports (decimal strings) on which this process holds a socket in LISTEN state.
func ownListeningPorts() map[string]bool {
	inodes := map[string]bool{}
	fds, _ := os.ReadDir("/proc/self/fd")
	for _, fd := range fds {
		if target, err := os.Readlink("/proc/self/fd/" + fd.Name()); err == nil && strings.HasPrefix(target, "socket:[") {
			inodes[strings.TrimSuffix(strings.TrimPrefix(target, "socket:["), "]")] = true
		}
	}
	ports := map[string]bool{}
	for _, f := range []string{"/proc/self/net/tcp", "/proc/self/net/tcp6"} {
		data, err := os.ReadFile(f)
		if err != nil {
			continue
		}
		for _, ln := range strings.Split(string(data), "\n")[1:] {
			fields := strings.Fields(ln)
			if len(fields) < 10 || fields[3] != "0A" || !inodes[fields[9]] {
				continue
			}
			if i := strings.LastIndex(fields[1], ":"); i >= 0 {
				var port int
				if _, err := fmt.Sscanf(fields[1][i+1:], "%X", &port); err == nil {
					ports[fmt.Sprint(port)] = true
				}
			}
		}
	}
	return ports
}
