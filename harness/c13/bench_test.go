package c13

import (
	"fmt"
	"testing"
	"time"

	"github.com/nuts-foundation/go-stoabs"
	"github.com/nuts-foundation/nuts-node/storage"
	"github.com/sirupsen/logrus"
)

func TestBenchEnv(t *testing.T) {
	logrus.SetLevel(logrus.WarnLevel)
	storage.DefaultBBoltOptions = append(storage.DefaultBBoltOptions, stoabs.WithNoSync())
	t0 := time.Now()
	for i := 0; i < 5; i++ {
		e := newEnv(t)
		e.close()
	}
	fmt.Println("newEnv+close avg", time.Since(t0)/5)
	e := newEnv(t)
	p := &pass{e: e, stats: map[string]int{}}
	t0 = time.Now()
	p.exec(op{Kind: kCreate, Subject: "a"})
	fmt.Println("create", time.Since(t0))
	t0 = time.Now()
	for i := 0; i < 10; i++ {
		p.exec(op{Kind: kAddVM, Subject: "a"})
	}
	fmt.Println("addvm avg", time.Since(t0)/10)
	t0 = time.Now()
	for i := 0; i < 10; i++ {
		e.snap("a")
	}
	fmt.Println("snap avg", time.Since(t0)/10)
	t0 = time.Now()
	for i := 0; i < 10; i++ {
		e.sweep()
	}
	fmt.Println("sweep avg", time.Since(t0)/10)
}

func TestBenchParts(t *testing.T) {
	logrus.SetLevel(logrus.WarnLevel)
	e := newEnv(t)
	p := &pass{e: e, stats: map[string]int{}}
	p.exec(op{Kind: kCreate, Subject: "a"})
	p.exec(op{Kind: kAddVM, Subject: "a"})
	tm := func(name string, f func()) {
		t0 := time.Now()
		for i := 0; i < 10; i++ {
			f()
		}
		fmt.Println(name, time.Since(t0)/10)
	}
	dids, _ := e.mgr.ListDIDs(ctx(), "a")
	tm("exists", func() { e.mgr.Exists(ctx(), "a") })
	tm("listdids", func() { e.mgr.ListDIDs(ctx(), "a") })
	tm("resolve", func() { e.res.Resolve(dids[0], nil) })
	tm("netresolve", func() { e.store.Resolve(dids[1], nil) })
	tm("count", func() { var n int64; e.db.Raw("SELECT count(*) FROM did_change_log").Scan(&n) })
	tm("snap", func() { e.snap("a") })
	tm("addvm", func() { p.exec(op{Kind: kAddVM, Subject: "a"}) })
	tm("ctx", func() { ctx() })
}
